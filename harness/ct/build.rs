// Builds the (uninstrumented) C callbacks of the IR-level monitor when the `cov` feature is on.
use std::process::Command;
fn main() {
    println!("cargo:rerun-if-changed=cov/callbacks.c");
    if std::env::var("CARGO_FEATURE_COV").is_err() {
        return;
    }
    let out = std::env::var("OUT_DIR").unwrap();
    let obj = format!("{}/callbacks.o", out);
    let lib = format!("{}/libctcov.a", out);
    let cc = if Command::new("clang").arg("--version").output().is_ok() { "clang" } else { "cc" };
    let st = Command::new(cc).args(["-O2", "-fPIC", "-c", "cov/callbacks.c", "-o", &obj]).status().expect("cc");
    assert!(st.success(), "compiling callbacks.c failed");
    let _ = std::fs::remove_file(&lib);
    let st = Command::new("ar").args(["crs", &lib, &obj]).status().expect("ar");
    assert!(st.success(), "ar failed");
    println!("cargo:rustc-link-search=native={}", out);
    println!("cargo:rustc-link-lib=static=ctcov");
}
