//! C20 — integer square root is the exact floor for every input.
use crate::dispatch;
use crate::util::*;
use crypto_bigint::{BoxedUint, SquareRoot};

pub const DEF: PropDef = PropDef {
    id: "C20",
    workload,
    ops,
    mandatory: &["perfect_square", "square_minus_1", "square_plus_1", "max", "zero", "rounds_ge_log2_bits", "top_bit_set", "odd_bit_length_near_precision", "boxed_non_pow2_limbs"],
    rule: "cases are x for Uint of 1,2,3,4,8,16 limbs and BoxedUint of 1..=20 limbs: 0,1,2,3, t^2-1, t^2, t^2+1 for t = 2^j, 2^j+-1 and random t up to 2^(BITS/2)-1, 2^BITS-1, values around 2^(BITS-1), odd bit lengths close to the precision, and a Newton worst-case search (the oracle simulates the iteration from the documented start value and inputs needing the most rounds are kept). oracle: s^2 <= x < (s+1)^2 in BigUint, checked some iff perfect square, ct == vartime. non-trivial = named class; distinct by hash",
};

pub fn ops() -> Vec<(&'static str, Checker)> {
    vec![("uint.sqrt", c_uint), ("boxed.sqrt", c_boxed)]
}

/// number of Newton rounds until the iteration stops decreasing (model of the documented loop)
fn newton_rounds(x: &BigUint) -> u32 {
    if x.is_zero() {
        return 0;
    }
    let b = x.bits() as usize;
    let mut cur = pow2((b + 1) >> 1);
    let mut rounds = 0;
    loop {
        let next = (&cur + x / &cur) >> 1;
        rounds += 1;
        if next >= cur {
            return rounds;
        }
        cur = next;
        if rounds > 4096 {
            return rounds;
        }
    }
}

fn classify(x: &BigUint, bits: usize, rep: &mut Rep) -> BigUint {
    let s = x.sqrt();
    if x.is_zero() {
        rep.class("zero");
    }
    if &s * &s == *x && !x.is_zero() {
        rep.class("perfect_square");
    }
    let s1 = &s + 1u32;
    if &s1 * &s1 == x + 1u32 {
        rep.class("square_minus_1");
    }
    if &s * &s + 1u32 == *x && !s.is_zero() {
        rep.class("square_plus_1");
    }
    if *x == mask(bits) {
        rep.class("max");
    }
    if x.bits() as usize == bits {
        rep.class("top_bit_set");
    }
    let xb = x.bits() as usize;
    if xb % 2 == 1 && xb + 8 >= bits {
        rep.class("odd_bit_length_near_precision");
    }
    let log2_bits = usize::BITS - 1 - bits.leading_zeros();
    let r = newton_rounds(x);
    if r >= log2_bits {
        rep.class("rounds_ge_log2_bits");
    }
    rep.tally(&format!("newton_rounds_{:02}", r.min(20)));
    s
}

fn uint_sqrt<const L: usize>(c: &Case, rep: &mut Rep) {
    let x = &c.a[0];
    let xb = to_big(x);
    let s = classify(&xb, 64 * L, rep);
    let want = from_big(&s, L);
    let perfect = &s * &s == xb;
    let ux = u::<L>(x);
    for (rel, got) in [
        ("sqrt", ul(&ux.sqrt())),
        ("sqrt_vartime", ul(&ux.sqrt_vartime())),
        ("wrapping_sqrt", ul(&ux.wrapping_sqrt())),
        ("wrapping_sqrt_vartime", ul(&ux.wrapping_sqrt_vartime())),
        ("SquareRoot::sqrt", ul(&SquareRoot::sqrt(&ux))),
        ("SquareRoot::sqrt_vartime", ul(&SquareRoot::sqrt_vartime(&ux))),
    ] {
        if got != want {
            let g = to_big(&got);
            let why = if &g * &g > xb { "s^2 > x" } else { "(s+1)^2 <= x" };
            rep.fail(rel, format!("{}: got {} want {}", why, hex(&got), hex(&want)));
        }
    }
    for (rel, got) in [("checked_sqrt", ct(ux.checked_sqrt()).map(|v| ul(&v))), ("checked_sqrt_vartime", ct(ux.checked_sqrt_vartime()).map(|v| ul(&v)))] {
        if got != if perfect { Some(want.clone()) } else { None } {
            rep.fail(rel, format!("perfect {} got {:?}", perfect, got.map(|v| hex(&v))));
        }
    }
}
fn c_uint(c: &Case, rep: &mut Rep) {
    dispatch!(c.w[0], [1, 2, 3, 4, 8, 16], uint_sqrt(c, rep))
}

fn c_boxed(c: &Case, rep: &mut Rep) {
    let x = &c.a[0];
    let n = x.len();
    if n & (n - 1) != 0 {
        rep.class("boxed_non_pow2_limbs");
    }
    let xb = to_big(x);
    let s = classify(&xb, 64 * n, rep);
    let perfect = &s * &s == xb;
    let b = bx(x);
    let chk = |rep: &mut Rep, rel: &str, got: BoxedUint| {
        if bb(&got) != s {
            rep.fail(rel, format!("got {} want {}", hex(&bl(&got)), bhex(&s)));
        }
        if got.nlimbs() != n {
            rep.fail(&format!("{}.precision", rel), format!("{} limbs want {}", got.nlimbs(), n));
        }
    };
    chk(rep, "boxed.sqrt", b.sqrt());
    chk(rep, "boxed.sqrt_vartime", b.sqrt_vartime());
    chk(rep, "boxed.wrapping_sqrt", b.wrapping_sqrt());
    chk(rep, "boxed.wrapping_sqrt_vartime", b.wrapping_sqrt_vartime());
    chk(rep, "boxed.SquareRoot::sqrt", SquareRoot::sqrt(&b));
    chk(rep, "boxed.SquareRoot::sqrt_vartime", SquareRoot::sqrt_vartime(&b));
    for (rel, got) in [("boxed.checked_sqrt", ct(b.checked_sqrt())), ("boxed.checked_sqrt_vartime", ct(b.checked_sqrt_vartime()))] {
        match got {
            Some(v) => {
                if !perfect {
                    rep.fail(rel, "some for a non-square".into());
                } else {
                    chk(rep, rel, v);
                }
            }
            None => {
                if perfect {
                    rep.fail(rel, format!("none for the perfect square of {}", bhex(&s)));
                }
            }
        }
    }
}

// ---------------------------------------------------------------------------------------------

fn gen_x(r: &mut Rng, n: usize) -> Vec<u64> {
    let bits = 64 * n;
    let half = bits / 2;
    let v = match r.below(16) {
        0 => BigUint::from(r.below(4)),
        1 => mask(bits),
        2 => pow2(bits - 1) + BigUint::from(r.below(3)) - 1u32,
        3..=8 => {
            // t^2 + {-1, 0, 1}
            let t = match r.below(4) {
                0 => pow2(r.usize_below(half + 1).min(half)) - BigUint::from(r.below(2)),
                1 => pow2(r.usize_below(half)) + 1u32,
                2 => mask(half),
                _ => {
                    let tb = 1 + r.usize_below(half);
                    to_big(&gn::uint_bits(r, n, tb))
                }
            };
            let t = if t.bits() as usize > half { mask(half) } else { t };
            let sq = &t * &t;
            match r.below(3) {
                0 => sq,
                1 => sq + 1u32,
                _ => {
                    if sq.is_zero() { sq } else { sq - 1u32 }
                }
            }
        }
        9 | 10 => {
            // odd bit length close to the precision
            let b = bits - 1 - 2 * r.usize_below(4.min(bits / 2));
            to_big(&gn::uint_bits(r, n, b.max(1)))
        }
        _ => to_big(&gn::uint(r, n)),
    };
    from_big(&(v & mask(bits)), n)
}

/// Newton worst-case search: keep the candidate (among a few mutations) needing the most rounds.
fn worst_case(r: &mut Rng, n: usize) -> Vec<u64> {
    let mut best = gen_x(r, n);
    let mut best_r = newton_rounds(&to_big(&best));
    for _ in 0..6 {
        let mut c = if r.bool() { gen_x(r, n) } else { gn::related(r, &best) };
        if r.bool() {
            // very lopsided values converge slowly: x = 2^(2k) - 1 style
            let k = 1 + r.usize_below(64 * n);
            c = gn::low_ones(n, k);
        }
        let rr = newton_rounds(&to_big(&c));
        if rr > best_r {
            best = c;
            best_r = rr;
        }
    }
    best
}

pub fn workload(ctx: &mut Ctx) {
    for &l in &[1usize, 2, 3, 4, 8, 16] {
        let w = match l {
            1..=4 => 500_000,
            8 => 100_000,
            _ => 24_000,
        };
        // every 2^k - 1, 2^k, 2^k + 1
        for k in 0..(64 * l) {
            if !ctx.mine() {
                continue;
            }
            for d in 0..3u32 {
                let v = (pow2(k) + d) - 1u32;
                ctx.exec(Case::new("uint.sqrt").w(l).a(from_big(&(v & mask(64 * l)), l)), c_uint);
            }
        }
        for _ in 0..ctx.iters(w) {
            let x = if ctx.rng.chance(1, 4) { worst_case(&mut ctx.rng, l) } else { gen_x(&mut ctx.rng, l) };
            ctx.exec(Case::new("uint.sqrt").w(l).a(x), c_uint);
        }
    }
    for n in 1..=20usize {
        let w = if n <= 6 { 80_000 } else { 16_000 };
        for k in 0..(64 * n) {
            if !ctx.mine() {
                continue;
            }
            let v = pow2(k) - 1u32;
            ctx.exec(Case::new("boxed.sqrt").w(n).a(from_big(&v, n)), c_boxed);
            ctx.exec(Case::new("boxed.sqrt").w(n).a(from_big(&pow2(k), n)), c_boxed);
        }
        for _ in 0..ctx.iters(w) {
            let x = if ctx.rng.chance(1, 4) { worst_case(&mut ctx.rng, n) } else { gen_x(&mut ctx.rng, n) };
            ctx.exec(Case::new("boxed.sqrt").w(n).a(x), c_boxed);
        }
    }
}
