//! C07 — modular add / sub / neg / double / mul / halve return the canonical residue.
use crate::dispatch;
use crate::util::*;
use crypto_bigint::modular::{BoxedMontyForm, BoxedMontyParams, MontyForm, MontyParams};
use crypto_bigint::{AddMod, BoxedUint, Limb, MulMod, NegMod, SubMod};

pub const DEF: PropDef = PropDef {
    id: "C07",
    workload,
    ops,
    mandatory: &["sum_overflows_width", "sum_eq_p", "sum_eq_p_plus_1", "sum_eq_p_minus_1", "neg_of_zero", "p_eq_1", "p_eq_2", "special_c_MAX", "special_c_1", "special_second_fold", "p_zero_high_limbs", "a_eq_b"],
    rule: "cases are (a, b, p) with a, b in [0, p) for Uint 1,2,3,4,6,8,12,16 limbs and BoxedUint 1..=20 limbs; moduli from the special shapes (1, 2, 3, 2^BITS-1, 2^(BITS-1)+-1, ~2^BITS/3, zero high limbs, top limb small, 2^BITS-c) and the special-modulus forms with c in {1,2,3,2^32,MAX-1,MAX,random}; operands from {0,1,p-1,p/2,(p+-1)/2, random} and relation pairs a+b = p+{-1,0,1}, a=b; non-trivial = oracle-side class (sum overflows the width, sum hits p or p+-1, negation of zero, p in {1,2}, c extreme, second fold of HAC 14.47 needed); distinct by 64-bit hash",
};

pub fn ops() -> Vec<(&'static str, Checker)> {
    vec![
        ("uint.addsub_mod", c_uint_addsub),
        ("uint.mul_mod", c_uint_mul),
        ("uint.special", c_uint_special),
        ("uint.halve", c_uint_halve),
        ("boxed.addsub_mod", c_boxed_addsub),
        ("boxed.mul_mod", c_boxed_mul),
        ("boxed.special", c_boxed_special),
        ("boxed.halve", c_boxed_halve),
    ]
}

fn ex(rep: &mut Rep, rel: &str, got: &[u64], want: &BigUint, p: &BigUint) {
    let g = to_big(got);
    if &g != want {
        let why = if &g >= p { "not canonical (>= p) or wrong" } else { "wrong residue" };
        rep.fail(rel, format!("{}: got {} want {} (p = {})", why, hex(got), bhex(want), bhex(p)));
    }
}

fn classify(a: &BigUint, b: &BigUint, p: &BigUint, bits: usize, rep: &mut Rep) {
    let s = a + b;
    if s.bits() as usize > bits {
        rep.class("sum_overflows_width");
    }
    if &s == p {
        rep.class("sum_eq_p");
    }
    if s == p + 1u32 {
        rep.class("sum_eq_p_plus_1");
    }
    if &s + 1u32 == *p {
        rep.class("sum_eq_p_minus_1");
    }
    if a.is_zero() {
        rep.class("neg_of_zero");
    }
    if p.is_one() {
        rep.class("p_eq_1");
    }
    if *p == BigUint::from(2u32) {
        rep.class("p_eq_2");
    }
    if a == b {
        rep.class("a_eq_b");
    }
    if (p.bits() as usize) + 64 <= bits {
        rep.class("p_zero_high_limbs");
    }
    if p.bits() as usize == bits {
        rep.class("p_full_width");
    }
}

fn uint_addsub<const L: usize>(c: &Case, rep: &mut Rep) {
    let (a, b, p) = (&c.a[0], &c.a[1], &c.a[2]);
    let (ab, bb_, pb) = (to_big(a), to_big(b), to_big(p));
    classify(&ab, &bb_, &pb, 64 * L, rep);
    let (x, y, m) = (u::<L>(a), u::<L>(b), u::<L>(p));
    let sum = (&ab + &bb_) % &pb;
    let diff = (&pb + &ab - &bb_) % &pb;
    let neg = (&pb - &ab) % &pb;
    let dbl = (&ab + &ab) % &pb;
    ex(rep, "add_mod", &ul(&x.add_mod(&y, &m)), &sum, &pb);
    ex(rep, "AddMod", &ul(&AddMod::add_mod(&x, &y, &m)), &sum, &pb);
    ex(rep, "sub_mod", &ul(&x.sub_mod(&y, &m)), &diff, &pb);
    ex(rep, "SubMod", &ul(&SubMod::sub_mod(&x, &y, &m)), &diff, &pb);
    ex(rep, "neg_mod", &ul(&x.neg_mod(&m)), &neg, &pb);
    ex(rep, "NegMod", &ul(&NegMod::neg_mod(&x, &m)), &neg, &pb);
    ex(rep, "double_mod", &ul(&x.double_mod(&m)), &dbl, &pb);
}
fn c_uint_addsub(c: &Case, rep: &mut Rep) {
    dispatch!(c.w[0], [1, 2, 3, 4, 6, 8, 12, 16], uint_addsub(c, rep))
}

fn uint_mul_vt<const L: usize>(c: &Case, rep: &mut Rep) {
    let (a, b, p) = (&c.a[0], &c.a[1], &c.a[2]);
    let (ab, bb_, pb) = (to_big(a), to_big(b), to_big(p));
    classify(&ab, &bb_, &pb, 64 * L, rep);
    if (&ab * &bb_).bits() as usize > 64 * L {
        rep.class("product_exceeds_width");
    }
    let (x, y) = (u::<L>(a), u::<L>(b));
    let want = (&ab * &bb_) % &pb;
    ex(rep, "mul_mod_vartime", &ul(&x.mul_mod_vartime(&y, &nz::<L>(p))), &want, &pb);
    ex(rep, "MulMod", &ul(&MulMod::mul_mod(&x, &y, &u::<L>(p))), &want, &pb);
}
fn c_uint_mul(c: &Case, rep: &mut Rep) {
    dispatch!(c.w[0], [1, 2, 3, 4, 6, 8, 12, 16], uint_mul_vt(c, rep));
    // constant-time mul_mod needs Concat/Split (and an odd modulus — documented panic otherwise)
    let (a, b, p) = (&c.a[0], &c.a[1], &c.a[2]);
    let pb = to_big(p);
    let want = (to_big(a) * to_big(b)) % &pb;
    let odd = p[0] & 1 == 1;
    macro_rules! ctmul {
        ($l:literal) => {
            if c.w[0] == $l {
                if let Some(v) = panics_iff(rep, "mul_mod", !odd, || u::<$l>(a).mul_mod(&u::<$l>(b), &nz::<$l>(p))) {
                    ex(rep, "mul_mod", &ul(&v), &want, &pb);
                }
            }
        };
    }
    ctmul!(1);
    ctmul!(2);
    ctmul!(3);
    ctmul!(4);
    ctmul!(6);
    ctmul!(8);
    ctmul!(16);
}

fn class_special(cc: u64, a: &BigUint, b: &BigUint, bits: usize, rep: &mut Rep) {
    match cc {
        1 => rep.class("special_c_1"),
        u64::MAX => rep.class("special_c_MAX"),
        _ => {}
    }
    // HAC 14.47: second fold needed when (lo + hi*c) overflows the width
    let prod = a * b;
    let lo = &prod & mask(bits);
    let hi = &prod >> bits;
    if (lo + hi * BigUint::from(cc)).bits() as usize > bits {
        rep.class("special_second_fold");
    }
}

fn uint_special<const L: usize>(c: &Case, rep: &mut Rep) {
    let (a, b) = (&c.a[0], &c.a[1]);
    let cc = c.s[0];
    let bits = 64 * L;
    let pb = pow2(bits) - BigUint::from(cc);
    let (ab, bb_) = (to_big(a), to_big(b));
    classify(&ab, &bb_, &pb, bits, rep);
    class_special(cc, &ab, &bb_, bits, rep);
    let (x, y) = (u::<L>(a), u::<L>(b));
    let lc = Limb(cc);
    ex(rep, "add_mod_special", &ul(&x.add_mod_special(&y, lc)), &((&ab + &bb_) % &pb), &pb);
    ex(rep, "sub_mod_special", &ul(&x.sub_mod_special(&y, lc)), &((&pb + &ab - &bb_) % &pb), &pb);
    ex(rep, "neg_mod_special", &ul(&x.neg_mod_special(lc)), &((&pb - &ab) % &pb), &pb);
    ex(rep, "mul_mod_special", &ul(&x.mul_mod_special(&y, lc)), &((&ab * &bb_) % &pb), &pb);
}
fn c_uint_special(c: &Case, rep: &mut Rep) {
    dispatch!(c.w[0], [1, 2, 3, 4, 6, 8, 12, 16], uint_special(c, rep))
}

fn uint_halve<const L: usize>(c: &Case, rep: &mut Rep) {
    let (a, p) = (&c.a[0], &c.a[1]);
    let (ab, pb) = (to_big(a), to_big(p));
    rep.nontrivial();
    if ab.bit(0) {
        rep.class("halve_odd");
    }
    if (&ab + &pb).bits() as usize > 64 * L && ab.bit(0) {
        rep.class("halve_carry_into_top_bit");
    }
    // x/2 mod p: the unique h in [0,p) with 2h = a (mod p)
    let want = if ab.bit(0) { (&ab + &pb) >> 1 } else { &ab >> 1 } % &pb;
    let params = MontyParams::new_vartime(od::<L>(p));
    let f = MontyForm::new(&u::<L>(a), params);
    let h = f.div_by_2();
    ex(rep, "MontyForm::div_by_2.retrieve", &ul(&h.retrieve()), &want, &pb);
    if to_big(&ul(h.as_montgomery())) >= pb {
        rep.fail("MontyForm::div_by_2.canonical", format!("montgomery value {} >= p", hex(&ul(h.as_montgomery()))));
    }
    // doubling the half gives the value back
    let back = h.double();
    ex(rep, "MontyForm::double(div_by_2)", &ul(&back.retrieve()), &ab, &pb);
}
fn c_uint_halve(c: &Case, rep: &mut Rep) {
    dispatch!(c.w[0], [1, 2, 3, 4, 6, 8, 12, 16], uint_halve(c, rep))
}

fn exb(rep: &mut Rep, rel: &str, got: &BoxedUint, want: &BigUint, p: &BigUint, limbs: usize) {
    if got.nlimbs() != limbs {
        rep.fail(&format!("{}.precision", rel), format!("{} limbs want {}", got.nlimbs(), limbs));
    }
    ex(rep, rel, &bl(got), want, p);
}

fn c_boxed_addsub(c: &Case, rep: &mut Rep) {
    let (a, b, p) = (&c.a[0], &c.a[1], &c.a[2]);
    let n = p.len();
    let (ab, bb_, pb) = (to_big(a), to_big(b), to_big(p));
    classify(&ab, &bb_, &pb, 64 * n, rep);
    let (x, y, m) = (bx(a), bx(b), bx(p));
    let sum = (&ab + &bb_) % &pb;
    let diff = (&pb + &ab - &bb_) % &pb;
    let neg = (&pb - &ab) % &pb;
    let dbl = (&ab + &ab) % &pb;
    exb(rep, "boxed.add_mod", &x.add_mod(&y, &m), &sum, &pb, n);
    exb(rep, "boxed.AddMod", &AddMod::add_mod(&x, &y, &m), &sum, &pb, n);
    let mut t = x.clone();
    t.add_mod_assign(&y, &m);
    exb(rep, "boxed.add_mod_assign", &t, &sum, &pb, n);
    exb(rep, "boxed.sub_mod", &x.sub_mod(&y, &m), &diff, &pb, n);
    exb(rep, "boxed.SubMod", &SubMod::sub_mod(&x, &y, &m), &diff, &pb, n);
    exb(rep, "boxed.neg_mod", &x.neg_mod(&m), &neg, &pb, n);
    exb(rep, "boxed.NegMod", &NegMod::neg_mod(&x, &m), &neg, &pb, n);
    exb(rep, "boxed.double_mod", &x.double_mod(&m), &dbl, &pb, n);
}

fn c_boxed_mul(c: &Case, rep: &mut Rep) {
    let (a, b, p) = (&c.a[0], &c.a[1], &c.a[2]);
    let n = p.len();
    let (ab, bb_, pb) = (to_big(a), to_big(b), to_big(p));
    classify(&ab, &bb_, &pb, 64 * n, rep);
    let (x, y, m) = (bx(a), bx(b), bx(p));
    let want = (&ab * &bb_) % &pb;
    exb(rep, "boxed.mul_mod", &x.mul_mod(&y, &m), &want, &pb, n);
    exb(rep, "boxed.MulMod", &MulMod::mul_mod(&x, &y, &m), &want, &pb, n);
}

fn c_boxed_special(c: &Case, rep: &mut Rep) {
    let (a, b) = (&c.a[0], &c.a[1]);
    let cc = c.s[0];
    let n = a.len();
    let bits = 64 * n;
    let pb = pow2(bits) - BigUint::from(cc);
    let (ab, bb_) = (to_big(a), to_big(b));
    classify(&ab, &bb_, &pb, bits, rep);
    class_special(cc, &ab, &bb_, bits, rep);
    let (x, y) = (bx(a), bx(b));
    let lc = Limb(cc);
    exb(rep, "boxed.sub_mod_special", &x.sub_mod_special(&y, lc), &((&pb + &ab - &bb_) % &pb), &pb, n);
    exb(rep, "boxed.neg_mod_special", &x.neg_mod_special(lc), &((&pb - &ab) % &pb), &pb, n);
    exb(rep, "boxed.mul_mod_special", &x.mul_mod_special(&y, lc), &((&ab * &bb_) % &pb), &pb, n);
}

fn c_boxed_halve(c: &Case, rep: &mut Rep) {
    let (a, p) = (&c.a[0], &c.a[1]);
    let n = p.len();
    let (ab, pb) = (to_big(a), to_big(p));
    rep.nontrivial();
    if (&ab + &pb).bits() as usize > 64 * n && ab.bit(0) {
        rep.class("halve_carry_into_top_bit");
    }
    let want = if ab.bit(0) { (&ab + &pb) >> 1 } else { &ab >> 1 } % &pb;
    let params = BoxedMontyParams::new(odb(p));
    let f = BoxedMontyForm::new(bx(a), params);
    let h = f.div_by_2();
    exb(rep, "BoxedMontyForm::div_by_2.retrieve", &h.retrieve(), &want, &pb, n);
    if bb(h.as_montgomery()) >= pb {
        rep.fail("BoxedMontyForm::div_by_2.canonical", "montgomery value >= p".into());
    }
    let mut g = f.clone();
    g.div_by_2_assign();
    exb(rep, "BoxedMontyForm::div_by_2_assign.retrieve", &g.retrieve(), &want, &pb, n);
    exb(rep, "BoxedMontyForm::double(div_by_2)", &h.double().retrieve(), &ab, &pb, n);
}

// -------------------------------------------------------------------------------------------

const WIDTHS: [usize; 8] = [1, 2, 3, 4, 6, 8, 12, 16];
const CS: [u64; 8] = [1, 2, 3, 1 << 32, u64::MAX - 1, u64::MAX, 0x1_0000_03D1, 189];

fn pick_c(r: &mut Rng) -> u64 {
    if r.chance(2, 3) { *r.pick(&CS) } else { gn::limb(r).max(1) }
}

pub fn workload(ctx: &mut Ctx) {
    for &l in &WIDTHS {
        let w = if l <= 4 { 200_000 } else { 80_000 };
        for _ in 0..ctx.iters(w) {
            let even_ok = true;
            let p = gn::modulus(&mut ctx.rng, l, !even_ok);
            let pb = to_big(&p);
            let (a, b) = gn::pair_below(&mut ctx.rng, &pb, l);
            ctx.exec(Case::new("uint.addsub_mod").w(l).a(from_big(&a, l)).a(from_big(&b, l)).a(p), c_uint_addsub);
        }
        for _ in 0..ctx.iters(w / 2) {
            let odd = ctx.rng.chance(3, 4);
            let p = gn::modulus(&mut ctx.rng, l, odd);
            let pb = to_big(&p);
            let (a, b) = gn::pair_below(&mut ctx.rng, &pb, l);
            ctx.exec(Case::new("uint.mul_mod").w(l).a(from_big(&a, l)).a(from_big(&b, l)).a(p), c_uint_mul);
        }
        for _ in 0..ctx.iters(w) {
            let cc = pick_c(&mut ctx.rng);
            let pb = pow2(64 * l) - BigUint::from(cc);
            let (a, b) = match ctx.rng.below(4) {
                0 => (&pb - 1u32, &pb - 1u32),
                _ => gn::pair_below(&mut ctx.rng, &pb, l),
            };
            ctx.exec(Case::new("uint.special").w(l).a(from_big(&a, l)).a(from_big(&b, l)).s(cc), c_uint_special);
        }
        for _ in 0..ctx.iters(w / 4) {
            let p = gn::modulus(&mut ctx.rng, l, true);
            let pb = to_big(&p);
            let a = gn::below(&mut ctx.rng, &pb, l);
            ctx.exec(Case::new("uint.halve").w(l).a(from_big(&a, l)).a(p), c_uint_halve);
        }
    }
    for _ in 0..ctx.iters(600_000) {
        let n = 1 + if ctx.rng.chance(2, 3) { ctx.rng.usize_below(6) } else { ctx.rng.usize_below(20) };
        let p = gn::modulus(&mut ctx.rng, n, false);
        let pb = to_big(&p);
        let (a, b) = gn::pair_below(&mut ctx.rng, &pb, n);
        ctx.exec(Case::new("boxed.addsub_mod").w(n).a(from_big(&a, n)).a(from_big(&b, n)).a(p), c_boxed_addsub);
    }
    for _ in 0..ctx.iters(150_000) {
        let n = 1 + if ctx.rng.chance(2, 3) { ctx.rng.usize_below(6) } else { ctx.rng.usize_below(20) };
        let p = gn::modulus(&mut ctx.rng, n, true);
        let pb = to_big(&p);
        let (a, b) = gn::pair_below(&mut ctx.rng, &pb, n);
        ctx.exec(Case::new("boxed.mul_mod").w(n).a(from_big(&a, n)).a(from_big(&b, n)).a(p.clone()), c_boxed_mul);
        let a = gn::below(&mut ctx.rng, &pb, n);
        ctx.exec(Case::new("boxed.halve").w(n).a(from_big(&a, n)).a(p), c_boxed_halve);
    }
    for _ in 0..ctx.iters(400_000) {
        let n = 1 + if ctx.rng.chance(2, 3) { ctx.rng.usize_below(6) } else { ctx.rng.usize_below(20) };
        let cc = pick_c(&mut ctx.rng);
        let pb = pow2(64 * n) - BigUint::from(cc);
        let (a, b) = match ctx.rng.below(4) {
            0 => (&pb - 1u32, &pb - 1u32),
            _ => gn::pair_below(&mut ctx.rng, &pb, n),
        };
        ctx.exec(Case::new("boxed.special").w(n).a(from_big(&a, n)).a(from_big(&b, n)).s(cc), c_boxed_special);
    }
}
