//! C11 — totality: panics, overflow traps and assertion failures only where documented.
//!
//! Two monitors, both run in the optimized profile (vrel) and in the debug-assertion /
//! overflow-checked profile (vdbg) by the driver:
//!   * this module's own hostile-argument workload: every operation that reports failure through
//!     an Option / CtOption / ConstCtOption / Result / (value, Choice) is called with argument
//!     values taken from the whole argument space at admissible widths (zero moduli, zero divisors,
//!     even "odd" operands are impossible by type, oversized shifts and bit counts, empty / oversized
//!     / garbage encodings, every public constructor of BoxedUint with degenerate sizes).  Any panic
//!     is a violation; the key names the operation.
//!   * the sweep: the driver re-runs the workloads of C02-C10 and C12-C20 in both profiles and
//!     keeps only panic-class verdicts (unexpected panic, spurious panic, missing documented panic).
use crate::util::*;
use crypto_bigint::modular::{BoxedMontyForm, BoxedMontyParams, MontyForm, MontyParams};
use crypto_bigint::{
    BoxedUint, CheckedAdd, CheckedDiv, CheckedMul, CheckedSub, Encoding, Gcd, Int, InvMod, Limb, NonZero, Odd, RandomBits, RandomMod, U64, U128, U256, Uint,
    Word,
};
use vcore::run::catch;

pub const DEF: PropDef = PropDef {
    id: "C11",
    workload,
    ops,
    mandatory: &["zero_modulus", "zero_divisor", "oversized_shift", "zero_limb_request", "garbage_encoding", "oversized_bit_length", "non_invertible"],
    rule: "hostile-argument cases for option/result-returning operations of Limb, Uint (1,2,4,8 limbs), Int and BoxedUint (0..=9 requested limbs) with operands from the structured generator plus 0, 1, MAX, and parameters from {0, 1, BITS-1, BITS, BITS+1, 2^31, u32::MAX}; constructor cases enumerate every public BoxedUint constructor with sizes 0..=3 limbs / 0..=130 bits; decoder cases feed arbitrary byte strings and precisions. non-trivial = case carries a named hostile class; distinct by hash. Verdict = no call panicked (release) and no debug assertion / overflow check fired (debug)",
};

pub fn ops() -> Vec<(&'static str, Checker)> {
    vec![("total.uint", c_uint), ("total.int", c_int), ("total.boxed", c_boxed), ("total.boxed_ctor", c_boxed_ctor), ("total.decode", c_decode), ("total.limb", c_limb)]
}

/// Deterministic word stream (splitmix64) for the fallible random APIs.
struct SeqRng(u64);
thread_local! {
    static SEQ_WORDS: std::cell::Cell<u64> = const { std::cell::Cell::new(0) };
}
impl rand_core::RngCore for SeqRng {
    fn next_u32(&mut self) -> u32 {
        self.next_u64() as u32
    }
    fn next_u64(&mut self) -> u64 {
        // logical step budget for "loops forever": a sampler fed a well-distributed stream must
        // return long before a million words; unwinding is the only way out of its loop
        let n = SEQ_WORDS.with(|c| {
            c.set(c.get() + 1);
            c.get()
        });
        if n > 1 << 20 {
            SEQ_WORDS.with(|c| c.set(0));
            panic!("non-termination: more than 2^20 random words consumed without returning");
        }
        self.0 = self.0.wrapping_add(0x9e3779b97f4a7c15);
        let mut z = self.0;
        z = (z ^ (z >> 30)).wrapping_mul(0xbf58476d1ce4e5b9);
        z = (z ^ (z >> 27)).wrapping_mul(0x94d049bb133111eb);
        z ^ (z >> 31)
    }
    fn fill_bytes(&mut self, dst: &mut [u8]) {
        for chunk in dst.chunks_mut(8) {
            let w = self.next_u64().to_le_bytes();
            chunk.copy_from_slice(&w[..chunk.len()]);
        }
    }
}

/// no-panic: run `f`, record a violation named after the operation if it panicked.
fn np<R>(rep: &mut Rep, name: &str, f: impl FnOnce() -> R) -> Option<R> {
    rep.tally("calls");
    SEQ_WORDS.with(|c| c.set(0));
    match catch(f) {
        Ok(r) => Some(r),
        Err(m) => {
            rep.fail(&format!("{}.panics", name), format!("panicked: {}", m));
            None
        }
    }
}

fn shift_classes(rep: &mut Rep, k: u32, bits: u32) {
    if k >= bits {
        rep.class("oversized_shift");
    }
}

fn uint_total<const L: usize>(c: &Case, rep: &mut Rep)
where
    Uint<L>: Encoding,
{
    let (x, y) = (u::<L>(&c.a[0]), u::<L>(&c.a[1]));
    let k = c.s[0] as u32;
    let bits = 64 * L as u32;
    shift_classes(rep, k, bits);
    let yz = is_zero(&c.a[1]);
    if yz {
        rep.class("zero_modulus");
        rep.class("zero_divisor");
    }
    np(rep, "Uint::checked_add", || x.checked_add(&y));
    np(rep, "Uint::checked_sub", || x.checked_sub(&y));
    np(rep, "Uint::checked_mul", || x.checked_mul(&y));
    np(rep, "Uint::checked_div", || x.checked_div(&y));
    np(rep, "Uint::checked_rem", || x.checked_rem(&y));
    np(rep, "Uint::CheckedDiv", || CheckedDiv::checked_div(&x, &y));
    np(rep, "Uint::CheckedAdd", || CheckedAdd::checked_add(&x, &y));
    np(rep, "Uint::CheckedSub", || CheckedSub::checked_sub(&x, &y));
    np(rep, "Uint::CheckedMul", || CheckedMul::checked_mul(&x, &y));
    np(rep, "Uint::saturating_add", || x.saturating_add(&y));
    np(rep, "Uint::saturating_sub", || x.saturating_sub(&y));
    np(rep, "Uint::saturating_mul", || x.saturating_mul(&y));
    np(rep, "Uint::wrapping_add", || x.wrapping_add(&y));
    np(rep, "Uint::wrapping_sub", || x.wrapping_sub(&y));
    np(rep, "Uint::wrapping_mul", || x.wrapping_mul(&y));
    np(rep, "Uint::wrapping_neg", || x.wrapping_neg());
    np(rep, "Uint::overflowing_shl", || x.overflowing_shl(k));
    np(rep, "Uint::overflowing_shr", || x.overflowing_shr(k));
    np(rep, "Uint::overflowing_shl_vartime", || x.overflowing_shl_vartime(k));
    np(rep, "Uint::overflowing_shr_vartime", || x.overflowing_shr_vartime(k));
    np(rep, "Uint::wrapping_shl", || x.wrapping_shl(k));
    np(rep, "Uint::wrapping_shr", || x.wrapping_shr(k));
    np(rep, "Uint::wrapping_shl_vartime", || x.wrapping_shl_vartime(k));
    np(rep, "Uint::wrapping_shr_vartime", || x.wrapping_shr_vartime(k));
    np(rep, "Uint::bit", || x.bit(k));
    np(rep, "Uint::bit_vartime", || x.bit_vartime(k));
    np(rep, "Uint::checked_sqrt", || x.checked_sqrt());
    np(rep, "Uint::checked_sqrt_vartime", || x.checked_sqrt_vartime());
    np(rep, "Uint::wrapping_sqrt", || x.wrapping_sqrt());
    np(rep, "NonZero::new", || NonZero::new(y));
    np(rep, "Odd::new", || Odd::new(y));
    np(rep, "Uint::to_nz", || y.to_nz());
    np(rep, "Uint::to_odd", || y.to_odd());
    np(rep, "Uint::try_random_bits", || Uint::<L>::try_random_bits(&mut SeqRng(c.s[1]), k));
    if k > bits {
        rep.class("oversized_bit_length");
    }
    if let Some(nzy) = ct(NonZero::new(y)) {
        np(rep, "Uint::try_random_mod", || Uint::<L>::try_random_mod(&mut SeqRng(c.s[1] | 1 << 63), &nzy));
    }
}

macro_rules! def_uint_inv_total {
    ($f:ident, $l:literal) => {
        fn $f(c: &Case, rep: &mut Rep) {
            const L: usize = $l;
            uint_total::<L>(c, rep);
            let (x, y) = (u::<L>(&c.a[0]), u::<L>(&c.a[1]));
            let k = c.s[0] as u32;
            if !bool::from(x.gcd(&y).is_one()) {
                rep.class("non_invertible");
            }
            np(rep, "Uint::gcd", || x.gcd(&y));
            np(rep, "Uint::Gcd::gcd_vartime", || Gcd::gcd_vartime(&x, &y));
            np(rep, "Uint::inv_mod", || x.inv_mod(&y));
            np(rep, "Uint::InvMod", || InvMod::inv_mod(&x, &y));
            np(rep, "Uint::inv_mod2k", || x.inv_mod2k(k.min(64 * L as u32)));
            np(rep, "Uint::inv_mod2k_vartime", || x.inv_mod2k_vartime(k.min(64 * L as u32)));
            if let Some(o) = ct(Odd::new(y)) {
                np(rep, "Uint::inv_odd_mod", || x.inv_odd_mod(&o));
                if y == Uint::<L>::ONE {
                    rep.key_prefix = "m_eq_1:".into();
                }
                let p = MontyParams::<L>::new(o);
                let f = MontyForm::<L>::new(&x, p);
                np(rep, "MontyForm::inv", || f.inv());
                np(rep, "MontyForm::inv_vartime", || f.inv_vartime());
                np(rep, "MontyForm::pow_bounded_exp", || f.pow_bounded_exp(&x, k.min(64 * L as u32)));
                rep.key_prefix.clear();
            }
            let ix: Int<L> = x.as_int();
            if let Some(o) = ct(Odd::new(y)) {
                np(rep, "Int::inv_odd_mod", || ix.inv_odd_mod(&o));
            }
            np(rep, "Int::InvMod", || ct(NonZero::new(y)).map(|nzy| InvMod::inv_mod(&ix, &nzy)));
        }
    };
}
def_uint_inv_total!(uint_t1, 1);
def_uint_inv_total!(uint_t2, 2);
def_uint_inv_total!(uint_t4, 4);
def_uint_inv_total!(uint_t8, 8);
fn c_uint(c: &Case, rep: &mut Rep) {
    match c.w[0] {
        1 => uint_t1(c, rep),
        2 => uint_t2(c, rep),
        4 => uint_t4(c, rep),
        8 => uint_t8(c, rep),
        w => panic!("harness: width {}", w),
    }
}

fn int_total<const L: usize>(c: &Case, rep: &mut Rep) {
    let (x, y): (Int<L>, Int<L>) = (i::<L>(&c.a[0]), i::<L>(&c.a[1]));
    let uy = u::<L>(&c.a[1]);
    let k = c.s[0] as u32;
    shift_classes(rep, k, 64 * L as u32);
    if is_zero(&c.a[1]) {
        rep.class("zero_divisor");
    }
    np(rep, "Int::checked_add", || x.checked_add(&y));
    np(rep, "Int::checked_sub", || x.checked_sub(&y));
    np(rep, "Int::checked_mul", || x.checked_mul(&y));
    np(rep, "Int::checked_div", || x.checked_div(&y));
    np(rep, "Int::checked_square", || x.checked_square());
    np(rep, "Int::checked_and", || (x.checked_and(&y), x.checked_or(&y), x.checked_xor(&y)));
    np(rep, "Int::checked_div_vartime", || x.checked_div_vartime(&y));
    np(rep, "Int::checked_div_floor_vartime", || x.checked_div_floor_vartime(&y));
    np(rep, "Int::checked_div_floor", || x.checked_div_floor(&y));
    np(rep, "Int::checked_neg", || x.checked_neg());
    np(rep, "Int::wrapping_neg", || x.wrapping_neg());
    np(rep, "Int::abs", || x.abs());
    np(rep, "Int::abs_sign", || x.abs_sign());
    np(rep, "Int::checked_mul_uint_right", || x.checked_mul_uint_right(&uy));
    np(rep, "Int::CheckedMul<Uint>", || CheckedMul::checked_mul(&x, &uy));
    np(rep, "Int::overflowing_shr", || x.overflowing_shr(k));
    np(rep, "Int::overflowing_shr_vartime", || x.overflowing_shr_vartime(k));
    np(rep, "Int::wrapping_shr", || x.wrapping_shr(k));
    np(rep, "Int::wrapping_shr_vartime", || x.wrapping_shr_vartime(k));
    np(rep, "Int::overflowing_shl", || x.overflowing_shl(k));
    np(rep, "Int::overflowing_shl_vartime", || x.overflowing_shl_vartime(k));
    np(rep, "Int::wrapping_shl", || x.wrapping_shl(k));
    np(rep, "Int::wrapping_shl_vartime", || x.wrapping_shl_vartime(k));
    np(rep, "Int::to_nz", || y.to_nz());
    np(rep, "Int::to_odd", || y.to_odd());
    np(rep, "Int::new_from_abs_sign", || Int::<L>::new_from_abs_sign(uy, if k & 1 == 1 { crypto_bigint::ConstChoice::TRUE } else { crypto_bigint::ConstChoice::FALSE }));
    if let Some(nzy) = cct(y.to_nz()) {
        np(rep, "Int::checked_div_rem", || x.checked_div_rem(&nzy));
        np(rep, "Int::checked_div_rem_vartime", || x.checked_div_rem_vartime(&nzy));
        np(rep, "Int::checked_div_rem_floor", || x.checked_div_rem_floor(&nzy));
        np(rep, "Int::checked_div_rem_floor_vartime", || x.checked_div_rem_floor_vartime(&nzy));
        np(rep, "Int::rem", || x.rem(&nzy));
        np(rep, "Int::rem_vartime", || x.rem_vartime(&nzy));
    }
}
fn c_int(c: &Case, rep: &mut Rep) {
    match c.w[0] {
        1 => int_total::<1>(c, rep),
        2 => int_total::<2>(c, rep),
        4 => int_total::<4>(c, rep),
        8 => int_total::<8>(c, rep),
        w => panic!("harness: width {}", w),
    }
}

fn c_limb(c: &Case, rep: &mut Rep) {
    let (a, b) = (Limb(c.s[0]), Limb(c.s[1]));
    let k = c.s[2] as u32;
    rep.nontrivial();
    np(rep, "Limb::checked_add", || CheckedAdd::checked_add(&a, &b));
    np(rep, "Limb::checked_sub", || CheckedSub::checked_sub(&a, &b));
    np(rep, "Limb::checked_mul", || CheckedMul::checked_mul(&a, &b));
    np(rep, "Limb::wrapping_add", || a.wrapping_add(b));
    np(rep, "Limb::wrapping_sub", || a.wrapping_sub(b));
    np(rep, "Limb::wrapping_mul", || a.wrapping_mul(b));
    np(rep, "Limb::saturating_add", || a.saturating_add(b));
    np(rep, "Limb::saturating_sub", || a.saturating_sub(b));
    np(rep, "Limb::wrapping_neg", || a.wrapping_neg());
    np(rep, "Limb::adc", || a.adc(b, Limb(c.s[2])));
    np(rep, "Limb::sbb", || a.sbb(b, Limb(c.s[2])));
    np(rep, "Limb::mac", || a.mac(b, Limb(c.s[2]), Limb(c.s[0] ^ c.s[1])));
    np(rep, "Limb::bits", || (a.bits(), a.leading_zeros(), a.trailing_zeros()));
    np(rep, "NonZero<Limb>::new", || NonZero::new(b));
    np(rep, "Limb::wrapping_shl", || crypto_bigint::WrappingShl::wrapping_shl(&a, k));
    np(rep, "Limb::wrapping_shr", || crypto_bigint::WrappingShr::wrapping_shr(&a, k));
}

/// BoxedUint: both operands at the same precision (the documented requirement), values hostile.
fn c_boxed(c: &Case, rep: &mut Rep) {
    let (x, y) = (bx(&c.a[0]), bx(&c.a[1]));
    let k = c.s[0] as u32;
    let bits = x.bits_precision();
    shift_classes(rep, k, bits);
    if is_zero(&c.a[1]) {
        rep.class("zero_modulus");
        rep.class("zero_divisor");
    }
    np(rep, "BoxedUint::checked_add", || x.checked_add(&y));
    np(rep, "BoxedUint::checked_sub", || x.checked_sub(&y));
    np(rep, "BoxedUint::checked_mul", || x.checked_mul(&y));
    np(rep, "BoxedUint::checked_div", || x.checked_div(&y));
    np(rep, "BoxedUint::CheckedDiv", || CheckedDiv::checked_div(&x, &y));
    np(rep, "BoxedUint::wrapping_add", || x.wrapping_add(&y));
    np(rep, "BoxedUint::wrapping_sub", || x.wrapping_sub(&y));
    np(rep, "BoxedUint::wrapping_mul", || x.wrapping_mul(&y));
    np(rep, "BoxedUint::wrapping_neg", || x.wrapping_neg());
    np(rep, "BoxedUint::mul", || x.mul(&y));
    np(rep, "BoxedUint::square", || x.square());
    np(rep, "BoxedUint::overflowing_shl", || x.overflowing_shl(k));
    np(rep, "BoxedUint::overflowing_shr", || x.overflowing_shr(k));
    np(rep, "BoxedUint::shl_vartime", || x.shl_vartime(k));
    np(rep, "BoxedUint::shr_vartime", || x.shr_vartime(k));
    np(rep, "BoxedUint::wrapping_shl", || x.wrapping_shl(k));
    np(rep, "BoxedUint::wrapping_shr", || x.wrapping_shr(k));
    np(rep, "BoxedUint::wrapping_shl_vartime", || x.wrapping_shl_vartime(k));
    np(rep, "BoxedUint::wrapping_shr_vartime", || x.wrapping_shr_vartime(k));
    np(rep, "BoxedUint::overflowing_shl_assign", || {
        let mut t = x.clone();
        t.overflowing_shl_assign(k)
    });
    np(rep, "BoxedUint::overflowing_shr_assign", || {
        let mut t = x.clone();
        t.overflowing_shr_assign(k)
    });
    np(rep, "BoxedUint::bit", || x.bit(k));
    np(rep, "BoxedUint::bit_vartime", || x.bit_vartime(k));
    np(rep, "BoxedUint::checked_sqrt", || x.checked_sqrt());
    np(rep, "BoxedUint::checked_sqrt_vartime", || x.checked_sqrt_vartime());
    np(rep, "BoxedUint::wrapping_sqrt", || x.wrapping_sqrt());
    np(rep, "BoxedUint::inv_mod", || x.inv_mod(&y));
    np(rep, "BoxedUint::InvMod", || InvMod::inv_mod(&x, &y));
    np(rep, "BoxedUint::inv_mod2k", || x.inv_mod2k(k.min(bits)));
    np(rep, "BoxedUint::inv_mod2k_vartime", || x.inv_mod2k_vartime(k.min(bits)));
    np(rep, "BoxedUint::gcd", || Gcd::gcd(&x, &y));
    np(rep, "BoxedUint::gcd_vartime", || Gcd::gcd_vartime(&x, &y));
    np(rep, "BoxedUint::to_odd", || y.to_odd());
    np(rep, "NonZero<BoxedUint>::new", || NonZero::new(y.clone()));
    np(rep, "Odd<BoxedUint>::new", || Odd::new(y.clone()));
    if !bool::from(Gcd::gcd(&x, &y).is_one()) {
        rep.class("non_invertible");
    }
    if let Some(o) = ct(Odd::new(y.clone())) {
        np(rep, "BoxedUint::inv_odd_mod", || x.inv_odd_mod(&o));
        if bool::from(y.is_one()) {
            rep.key_prefix = "m_eq_1:".into();
        }
        let p = BoxedMontyParams::new(o);
        let f = BoxedMontyForm::new(x.clone(), p);
        np(rep, "BoxedMontyForm::invert", || f.invert());
        np(rep, "BoxedMontyForm::invert_vartime", || f.invert_vartime());
        np(rep, "BoxedMontyForm::pow_bounded_exp", || f.pow_bounded_exp(&x, k.min(bits)));
        rep.key_prefix.clear();
    }
    np(rep, "BoxedUint::try_random_bits", || BoxedUint::try_random_bits(&mut SeqRng(c.s[1]), k % 1024));
    np(rep, "BoxedUint::try_random_bits_with_precision", || BoxedUint::try_random_bits_with_precision(&mut SeqRng(c.s[1]), k, bits));
    if k > bits {
        rep.class("oversized_bit_length");
    }
    if let Some(nzy) = ct(NonZero::new(y.clone())) {
        np(rep, "BoxedUint::try_random_mod", || BoxedUint::try_random_mod(&mut SeqRng(c.s[1] | 1 << 63), &nzy));
    }
}

/// Set in the interpreter (Miri) tier: observers skip the expensive operations.
static LIGHT: std::sync::atomic::AtomicBool = std::sync::atomic::AtomicBool::new(false);

/// Observers every BoxedUint must support whatever public constructor produced it.
fn observe(rep: &mut Rep, tag: &str, v: &BoxedUint) {
    let n = |s: &str| format!("{}->{}", tag, s);
    if v.nlimbs() == 0 {
        rep.class("zero_limb_value_constructed");
    }
    np(rep, &n("bits_precision"), || v.bits_precision());
    np(rep, &n("bits"), || (v.bits(), v.bits_vartime()));
    np(rep, &n("leading_zeros"), || v.leading_zeros());
    np(rep, &n("trailing_zeros"), || (v.trailing_zeros(), v.trailing_zeros_vartime(), v.trailing_ones(), v.trailing_ones_vartime()));
    np(rep, &n("is_zero"), || (bool::from(v.is_zero()), bool::from(v.is_nonzero()), bool::from(v.is_one())));
    np(rep, &n("is_odd"), || bool::from(crypto_bigint::Integer::is_odd(v)));
    np(rep, &n("to_odd"), || v.to_odd());
    np(rep, &n("NonZero::new"), || NonZero::new(v.clone()));
    np(rep, &n("bit"), || (bool::from(v.bit(0)), v.bit_vartime(0)));
    np(rep, &n("to_be_bytes"), || (v.to_be_bytes(), v.to_le_bytes()));
    np(rep, &n("to_words"), || (v.to_words(), v.as_words().len(), v.as_limbs().len()));
    np(rep, &n("fmt"), || (format!("{}", v), format!("{:x}", v), format!("{:X}", v), format!("{:b}", v), format!("{:?}", v)));
    np(rep, &n("to_string_radix_vartime"), || (v.to_string_radix_vartime(10), v.to_string_radix_vartime(16), v.to_string_radix_vartime(2)));
    np(rep, &n("cmp"), || (v == v, v.cmp(v), v.cmp_vartime(v), bool::from(subtle::ConstantTimeEq::ct_eq(v, v))));
    np(rep, &n("checked_add"), || v.checked_add(v));
    np(rep, &n("checked_sub"), || v.checked_sub(v));
    np(rep, &n("checked_mul"), || v.checked_mul(v));
    np(rep, &n("checked_div"), || v.checked_div(v));
    np(rep, &n("wrapping_add"), || (v.wrapping_add(v), v.wrapping_sub(v), v.wrapping_mul(v), v.wrapping_neg()));
    np(rep, &n("mul"), || (v.mul(v), v.square()));
    np(rep, &n("bitops"), || (v.bitand(v), v.bitor(v), v.bitxor(v), v.not()));
    np(rep, &n("overflowing_shl"), || (v.overflowing_shl(0), v.overflowing_shr(0), v.overflowing_shl(1), v.overflowing_shr(1)));
    np(rep, &n("shl_vartime"), || (v.shl_vartime(0), v.shr_vartime(0), v.shl_vartime(1), v.shr_vartime(1)));
    np(rep, &n("wrapping_shl"), || (v.wrapping_shl(1), v.wrapping_shr(1), v.wrapping_shl_vartime(1), v.wrapping_shr_vartime(1)));
    if LIGHT.load(std::sync::atomic::Ordering::Relaxed) {
        np(rep, &n("as_words_mut"), || {
            let mut t = v.clone();
            t.as_words_mut().iter_mut().for_each(|w| *w ^= 1);
            t.as_limbs_mut().len()
        });
        return;
    }
    np(rep, &n("checked_sqrt"), || (v.checked_sqrt(), v.checked_sqrt_vartime()));
    np(rep, &n("inv_mod"), || v.inv_mod(v));
    np(rep, &n("inv_mod2k"), || (v.inv_mod2k(0), v.inv_mod2k_vartime(0)));
    np(rep, &n("gcd"), || Gcd::gcd(v, v));
    np(rep, &n("widen"), || v.widen(v.bits_precision() + 64));
    np(rep, &n("shorten"), || v.shorten(v.bits_precision()));
    np(rep, &n("div_rem_limb"), || v.div_rem_limb(nzl(3)));
    np(rep, &n("rem_limb"), || v.rem_limb(nzl(3)));
    np(rep, &n("add_mod"), || {
        let one = BoxedUint::one_with_precision(v.bits_precision());
        // modulus 1 > 0 = operands: in domain whenever v == 0
        if bool::from(v.is_zero()) { Some(v.add_mod(v, &one)) } else { None }
    });
    if let Some(nz) = ct(NonZero::new(BoxedUint::one_with_precision(v.bits_precision()))) {
        np(rep, &n("div_rem_by_one"), || v.div_rem(&nz));
        np(rep, &n("div_rem_vartime_by_one"), || v.div_rem_vartime(&nz));
        np(rep, &n("rem_by_one"), || (v.rem(&nz), v.rem_vartime(&nz)));
    }
    if let Some(nz) = ct(NonZero::new(v.clone())) {
        let w = BoxedUint::max(v.bits_precision());
        np(rep, &n("as_divisor"), || (w.div_rem(&nz), w.div_rem_vartime(&nz), w.rem(&nz)));
    }
    np(rep, &n("zeroize"), || {
        let mut t = v.clone();
        zeroize::Zeroize::zeroize(&mut t);
        t
    });
}

fn c_boxed_ctor(c: &Case, rep: &mut Rep) {
    let limbs: Vec<Limb> = c.a[0].iter().map(|&w| Limb(w)).collect();
    let words: Vec<Word> = c.a[0].clone();
    let bitsp = c.s[0] as u32;
    if limbs.is_empty() || bitsp == 0 {
        rep.class("zero_limb_request");
    }
    macro_rules! ctor {
        ($name:literal, $e:expr) => {
            if let Some(v) = np(rep, $name, || $e) {
                observe(rep, $name, &v);
            }
        };
    }
    ctor!("From<&[Limb]>", BoxedUint::from(&limbs[..]));
    ctor!("From<Box<[Limb]>>", BoxedUint::from(limbs.clone().into_boxed_slice()));
    ctor!("From<Vec<Limb>>", BoxedUint::from(limbs.clone()));
    ctor!("From<Vec<Word>>", BoxedUint::from(words.clone()));
    ctor!("from_words", BoxedUint::from_words(words.clone()));
    ctor!("zero_with_precision", BoxedUint::zero_with_precision(bitsp));
    ctor!("one_with_precision", BoxedUint::one_with_precision(bitsp));
    ctor!("max", BoxedUint::max(bitsp));
    ctor!("zero", BoxedUint::zero());
    ctor!("one", BoxedUint::one());
    ctor!("Default", BoxedUint::default());
    ctor!("From<u64>", BoxedUint::from(c.s[1]));
    ctor!("From<u128>", BoxedUint::from(c.s[1] as u128 * c.s[1] as u128));
    ctor!("From<U128>", BoxedUint::from(U128::from_u64(c.s[1])));
    ctor!("From<&U256>", BoxedUint::from(&U256::from_u64(c.s[1])));
    ctor!("From<U64>", BoxedUint::from(U64::from_u64(c.s[1])));
    let nb = ((bitsp as usize) + 7) / 8;
    let bytes: Vec<u8> = (0..nb).map(|j| (c.s[1] >> (8 * (j % 8))) as u8).collect();
    if let Some(Ok(v)) = np(rep, "from_be_slice", || BoxedUint::from_be_slice(&bytes, bitsp)) {
        observe(rep, "from_be_slice", &v);
    }
    if let Some(Ok(v)) = np(rep, "from_le_slice", || BoxedUint::from_le_slice(&bytes, bitsp)) {
        observe(rep, "from_le_slice", &v);
    }
    let hexs: String = bytes.iter().map(|b| format!("{:02x}", b)).collect();
    if let Some(Some(v)) = np(rep, "from_be_hex", || ct(BoxedUint::from_be_hex(&hexs, bitsp))) {
        observe(rep, "from_be_hex", &v);
    }
    for (nm, s) in [("0", "0"), ("00", "00"), ("+0", "+0"), ("0_0", "0_0"), ("7", "7")] {
        if let Some(Ok(v)) = np(rep, "from_str_radix_vartime", || BoxedUint::from_str_radix_vartime(s, 10)) {
            observe(rep, &format!("from_str_radix_vartime({})", nm), &v);
        }
        if let Some(Ok(v)) = np(rep, "from_str_radix_with_precision_vartime", || BoxedUint::from_str_radix_with_precision_vartime(s, 10, bitsp)) {
            observe(rep, &format!("from_str_radix_with_precision_vartime({})", nm), &v);
        }
    }
    if let Some(Ok(v)) = np(rep, "try_random_bits_with_precision", || BoxedUint::try_random_bits_with_precision(&mut SeqRng(c.s[1]), bitsp, bitsp)) {
        observe(rep, "try_random_bits_with_precision", &v);
    }
    if let Some(Ok(v)) = np(rep, "try_random_bits", || BoxedUint::try_random_bits(&mut SeqRng(c.s[1]), bitsp)) {
        observe(rep, "try_random_bits", &v);
    }
    if let Some(v) = np(rep, "shorten_to", || BoxedUint::max(192).shorten(bitsp.min(192))) {
        observe(rep, "shorten", &v);
    }
    if let Some(v) = np(rep, "num_traits::Zero", || <BoxedUint as num_traits::Zero>::zero()) {
        observe(rep, "num_traits::Zero", &v);
    }
    if let Some(v) = np(rep, "num_traits::One", || <BoxedUint as num_traits::One>::one()) {
        observe(rep, "num_traits::One", &v);
    }
}

/// Result / Option returning decoders on arbitrary bytes and precisions.
fn c_decode(c: &Case, rep: &mut Rep) {
    let bytes = &c.b[0];
    let p = c.s[0] as u32;
    let radix = 2 + (c.s[1] % 35) as u32;
    rep.class("garbage_encoding");
    np(rep, "BoxedUint::from_be_slice", || BoxedUint::from_be_slice(bytes, p).is_ok());
    np(rep, "BoxedUint::from_le_slice", || BoxedUint::from_le_slice(bytes, p).is_ok());
    let s = String::from_utf8_lossy(bytes).into_owned();
    np(rep, "BoxedUint::from_be_hex", || bool::from(BoxedUint::from_be_hex(&s, p).is_some()));
    np(rep, "BoxedUint::from_str_radix_vartime", || BoxedUint::from_str_radix_vartime(&s, radix).is_ok());
    np(rep, "BoxedUint::from_str_radix_with_precision_vartime", || BoxedUint::from_str_radix_with_precision_vartime(&s, radix, p).is_ok());
    np(rep, "U64::from_str_radix_vartime", || U64::from_str_radix_vartime(&s, radix).is_ok());
    np(rep, "U256::from_str_radix_vartime", || U256::from_str_radix_vartime(&s, radix).is_ok());
    np(rep, "U256::Num::from_str_radix", || <U256 as num_traits::Num>::from_str_radix(&s, radix).is_ok());
    np(rep, "U256::from_der", || <U256 as der::Decode>::from_der(bytes).is_ok());
    np(rep, "U64::from_der", || <U64 as der::Decode>::from_der(bytes).is_ok());
    np(rep, "U256::rlp_decode", || rlp::decode::<U256>(bytes).is_ok());
    np(rep, "U64::rlp_decode", || rlp::decode::<U64>(bytes).is_ok());
    np(rep, "U256::serde_bincode", || bincode::deserialize::<U256>(bytes).is_ok());
    np(rep, "NonZero<U256>::serde_bincode", || bincode::deserialize::<NonZero<U256>>(bytes).is_ok());
    np(rep, "Odd<U256>::serde_bincode", || bincode::deserialize::<Odd<U256>>(bytes).is_ok());
    np(rep, "U256::serde_json", || serde_json::from_slice::<U256>(bytes).is_ok());
    np(rep, "Odd<U256>::serde_json", || serde_json::from_slice::<Odd<U256>>(bytes).is_ok());
}

pub fn workload(ctx: &mut Ctx) {
    const KS: [u64; 12] = [0, 1, 63, 64, 65, 127, 128, 255, 256, 257, 1 << 31, u32::MAX as u64];
    let miri = ctx.tier == Tier::Miri;
    LIGHT.store(miri, std::sync::atomic::Ordering::Relaxed);
    let widths: &[usize] = if miri { &[1, 2] } else { &[1, 2, 4, 8] };
    let t0 = std::time::Instant::now();
    let stage = |name: &str| {
        if miri {
            eprintln!("[miri stage] {} at {:.0}s", name, t0.elapsed().as_secs_f64());
        }
    };
    for &l in widths {
        stage("uint/int");
        for _ in 0..(if miri { 2 } else { ctx.iters(40_000) }) {
            let x = match ctx.rng.below(6) {
                0 => gn::zero(l),
                1 => gn::one(l),
                2 => gn::max(l),
                _ => gn::uint(&mut ctx.rng, l),
            };
            let y = match ctx.rng.below(8) {
                0 | 1 => gn::zero(l),
                2 => gn::one(l),
                3 => gn::max(l),
                4 => {
                    let b = ctx.rng.usize_below(64 * l);
                    gn::single_bit(l, b)
                }
                5 => gn::related(&mut ctx.rng, &x),
                _ => gn::uint(&mut ctx.rng, l),
            };
            let k = match ctx.rng.below(3) {
                0 => *ctx.rng.pick(&KS),
                1 => 64 * l as u64 - 1 + ctx.rng.below(3),
                _ => ctx.rng.below(64 * l as u64 + 70),
            };
            let r = gn::limb(&mut ctx.rng);
            let op = if ctx.rng.bool() { "total.uint" } else { "total.int" };
            let f: Checker = if op == "total.uint" { c_uint } else { c_int };
            ctx.exec(Case::new(op).w(l).a(x).a(y).s(k).s(r), f);
        }
    }
    stage("limb");
    for _ in 0..(if miri { 3 } else { ctx.iters(60_000) }) {
        let (a, b, k) = (gn::limb(&mut ctx.rng), gn::limb(&mut ctx.rng), *ctx.rng.pick(&KS));
        ctx.exec(Case::new("total.limb").s(a).s(b).s(k), c_limb);
    }
    stage("boxed");
    for _ in 0..(if miri { 1 } else { ctx.iters(60_000) }) {
        let l = 1 + ctx.rng.usize_below(if miri { 1 } else { 9 });
        let x = match ctx.rng.below(6) {
            0 => gn::zero(l),
            1 => gn::one(l),
            2 => gn::max(l),
            _ => gn::uint(&mut ctx.rng, l),
        };
        let y = match ctx.rng.below(8) {
            0 | 1 => gn::zero(l),
            2 => gn::one(l),
            3 => gn::max(l),
            4 => {
                let b = ctx.rng.usize_below(64 * l);
                gn::single_bit(l, b)
            }
            5 => gn::related(&mut ctx.rng, &x),
            _ => gn::uint(&mut ctx.rng, l),
        };
        let k = match ctx.rng.below(3) {
            0 => *ctx.rng.pick(&KS),
            1 => 64 * l as u64 - 1 + ctx.rng.below(3),
            _ => ctx.rng.below(64 * l as u64 + 70),
        };
        let r = gn::limb(&mut ctx.rng);
        ctx.exec(Case::new("total.boxed").w(l).a(x).a(y).s(k).s(r), c_boxed);
    }
    stage("ctor");
    // constructors: enumerate sizes 0..=3 limbs x precisions 0..=130 (partitioned), random contents
    for nl in 0..=3usize {
        for bitsp in 0..=130u64 {
            if !ctx.mine() {
                continue;
            }
            if miri && (nl > 1 || ![0, 65].contains(&bitsp)) {
                continue;
            }
            for variant in 0..(if miri { 1 } else { 3 }) {
                let v: Vec<u64> = match variant {
                    0 => vec![0; nl],
                    1 => vec![u64::MAX; nl],
                    _ => (0..nl).map(|_| gn::limb(&mut ctx.rng)).collect(),
                };
                let r = gn::limb(&mut ctx.rng);
                ctx.exec(Case::new("total.boxed_ctor").w(nl).a(v).s(bitsp).s(r), c_boxed_ctor);
            }
        }
    }
    stage("decode");
    for _ in 0..(if miri { 6 } else { ctx.iters(60_000) }) {
        let len = match ctx.rng.below(4) {
            0 => 0,
            1 => ctx.rng.usize_below(6),
            2 => 30 + ctx.rng.usize_below(8),
            _ => ctx.rng.usize_below(80),
        };
        let mut bytes: Vec<u8> = (0..len).map(|_| ctx.rng.u64() as u8).collect();
        match ctx.rng.below(6) {
            0 => bytes.iter_mut().for_each(|b| *b = b"0123456789abcdefABCDEFzZ_+- "[(*b % 28) as usize]),
            1 => {
                // DER-ish: INTEGER tag with a length that may lie
                if bytes.len() >= 2 {
                    bytes[0] = 0x02;
                    bytes[1] = *ctx.rng.pick(&[0u8, 1, 0x20, 0x21, 0x7f, 0x80, 0x81, 0x82, 0x84, 0xff]);
                }
            }
            2 => {
                // RLP-ish string headers
                if !bytes.is_empty() {
                    bytes[0] = *ctx.rng.pick(&[0x80u8, 0x81, 0xa0, 0xa1, 0xb7, 0xb8, 0xbf, 0xc0, 0xf8]);
                }
            }
            3 => bytes.iter_mut().for_each(|b| *b = 0),
            4 => bytes.iter_mut().for_each(|b| *b = 0xff),
            _ => {}
        }
        let p = match ctx.rng.below(4) {
            0 => 0,
            1 => 8 * len as u64,
            2 => *ctx.rng.pick(&[1u64, 7, 8, 63, 64, 65, 128, 256, 4096, 1 << 16]),
            _ => ctx.rng.below(700),
        };
        let r = ctx.rng.u64();
        ctx.exec(Case::new("total.decode").s(p).s(r).b(bytes), c_decode);
    }
    stage("done");
}
