//! C14 — every signed division flavour satisfies n = q*d + r with its sign convention.
use crate::util::*;
use crate::{dispatch, dispatch2};
use crypto_bigint::{CheckedDiv, DivVartime, Int, NonZero, Uint, Wrapping};
use num_bigint::Sign;
use num_integer::Integer as NumInteger;

pub const DEF: PropDef = PropDef {
    id: "C14",
    workload,
    ops,
    mandatory: &[
        "pp_exact", "pp_inexact", "pn_exact", "pn_inexact", "np_exact", "np_inexact", "nn_exact", "nn_inexact",
        "n_abs_lt_d_abs", "d_eq_1", "d_eq_minus_1", "n_eq_MIN", "d_eq_MIN", "MIN_div_minus_1", "zero_divisor", "mixed_width", "uint_divisor_gt_int_max",
    ],
    rule: "cases are (n, d) for Int of 1,2,4,8 limbs (mixed widths {1,2,4}^2 for the vartime forms), signed and unsigned divisors, covering the grid {++,+-,-+,--} x {exact, inexact, |n|<|d|, d=+-1, n=MIN, d=MIN, MIN/-1, d=0}; operands from n = q*d + r constructions with structured parts; oracle BigInt truncated and floored division; every flavour must satisfy its quotient, its remainder sign convention, n = q*d + r and |r| < |d| (checked on the oracle values AND recomputed from the returned q, r). non-trivial = grid cell class; distinct by hash",
};

pub fn ops() -> Vec<(&'static str, Checker)> {
    vec![("int.div", c_div), ("int.div_mixed", c_div_mixed), ("int.div_uint", c_div_uint), ("int.div_uint_mixed", c_div_uint_mixed)]
}

fn ex(rep: &mut Rep, rel: &str, got: &[u64], want: &[u64]) {
    if got != want {
        rep.fail(rel, format!("got {} want {}", hex(got), hex(want)));
    }
}

fn sgn(v: &BigInt) -> char {
    if v.sign() == Sign::Minus { 'n' } else { 'p' }
}

fn class_grid(n: &BigInt, d: &BigInt, nl: usize, dl: usize, rep: &mut Rep) {
    if d.is_zero() {
        rep.class("zero_divisor");
        return;
    }
    let exact = (n % d).is_zero();
    rep.class(&format!("{}{}_{}", sgn(n), sgn(d), if exact { "exact" } else { "inexact" }));
    if n.magnitude() < d.magnitude() {
        rep.class("n_abs_lt_d_abs");
    }
    if d.is_one() {
        rep.class("d_eq_1");
    }
    if *d == BigInt::from(-1) {
        rep.class("d_eq_minus_1");
    }
    let nmin = -BigInt::from(pow2(64 * nl - 1));
    let dmin = -BigInt::from(pow2(64 * dl - 1));
    if *n == nmin {
        rep.class("n_eq_MIN");
    }
    if *d == dmin {
        rep.class("d_eq_MIN");
    }
    if *n == nmin && *d == BigInt::from(-1) {
        rep.class("MIN_div_minus_1");
    }
    if nl != dl {
        rep.class("mixed_width");
    }
}

/// self-consistency of a returned (q, r) pair with the flavour's convention
fn check_identity(rep: &mut Rep, rel: &str, n: &BigInt, d: &BigInt, q: &BigInt, r: &BigInt, floor: bool) {
    if n != &(q * d + r) {
        rep.fail(&format!("{}.identity_n_eq_qd_plus_r", rel), format!("q={} r={}", q, r));
    }
    if r.magnitude() >= d.magnitude() {
        rep.fail(&format!("{}.abs_r_lt_abs_d", rel), format!("r={} d={}", r, d));
    }
    if !r.is_zero() {
        let want = if floor { d.sign() } else { n.sign() };
        if r.sign() != want {
            rep.fail(&format!("{}.remainder_sign", rel), format!("r={} must have the sign of {}", r, if floor { "the divisor" } else { "the dividend" }));
        }
    }
}

fn div_same<const L: usize>(c: &Case, rep: &mut Rep) {
    let (n, d) = (&c.a[0], &c.a[1]);
    let (ni, di) = (to_bigint(n), to_bigint(d));
    class_grid(&ni, &di, L, L, rep);
    let (x, y): (Int<L>, Int<L>) = (i::<L>(n), i::<L>(d));
    if di.is_zero() {
        for (rel, got) in [
            ("checked_div.none_iff_zero_or_MIN_div_m1", ct(x.checked_div(&y)).is_some()),
            ("CheckedDiv.none_iff_zero_or_MIN_div_m1", ct(CheckedDiv::checked_div(&x, &y)).is_some()),
            ("checked_div_vartime.none_iff_zero_or_MIN_div_m1", ct(x.checked_div_vartime(&y)).is_some()),
            ("checked_div_floor.none_iff_zero_or_MIN_div_m1", ct(x.checked_div_floor(&y)).is_some()),
            ("checked_div_floor_vartime.none_iff_zero_or_MIN_div_m1", ct(x.checked_div_floor_vartime(&y)).is_some()),
            ("to_nz.none_iff_zero", cct(y.to_nz()).is_some()),
        ] {
            if got {
                rep.fail(rel, "some for a zero divisor".into());
            }
        }
        return;
    }
    let nzd: NonZero<Int<L>> = cct(y.to_nz()).expect("nonzero");
    let overflow = ni == -BigInt::from(pow2(64 * L - 1)) && di == BigInt::from(-1);
    // truncated
    let (qt, rt) = (&ni / &di, &ni % &di);
    // floored
    let (qf, rf) = ni.div_mod_floor(&di);
    let some_q = |q: &BigInt| if overflow { None } else { Some(from_bigint(q, L)) };
    let (wrt, wrf) = (from_bigint(&rt, L), from_bigint(&rf, L));
    macro_rules! pair {
        ($rel:expr, $e:expr, $q:expr, $r:expr, $wr:expr, $floor:expr) => {{
            let (gq, gr) = $e;
            let gq = cct(gq).map(|v| il(&v));
            if gq != some_q($q) {
                rep.fail(concat!($rel, ".q"), format!("got {:?} want {:?}", gq.as_ref().map(|v| hex(v)), some_q($q).map(|v| hex(&v))));
            }
            ex(rep, concat!($rel, ".r"), &il(&gr), $wr);
            if let Some(gq) = gq {
                check_identity(rep, $rel, &ni, &di, &to_bigint(&gq), &to_bigint(&il(&gr)), $floor);
            }
        }};
    }
    pair!("checked_div_rem", x.checked_div_rem(&nzd), &qt, &rt, &wrt, false);
    pair!("checked_div_rem_vartime", x.checked_div_rem_vartime(&nzd), &qt, &rt, &wrt, false);
    pair!("checked_div_rem_floor", x.checked_div_rem_floor(&nzd), &qf, &rf, &wrf, true);
    pair!("checked_div_rem_floor_vartime", x.checked_div_rem_floor_vartime(&nzd), &qf, &rf, &wrf, true);
    for (rel, got, want) in [
        ("checked_div", ct(x.checked_div(&y)).map(|v| il(&v)), some_q(&qt)),
        ("CheckedDiv", ct(CheckedDiv::checked_div(&x, &y)).map(|v| il(&v)), some_q(&qt)),
        ("checked_div_vartime", ct(x.checked_div_vartime(&y)).map(|v| il(&v)), some_q(&qt)),
        ("checked_div_floor", ct(x.checked_div_floor(&y)).map(|v| il(&v)), some_q(&qf)),
        ("checked_div_floor_vartime", ct(x.checked_div_floor_vartime(&y)).map(|v| il(&v)), some_q(&qf)),
        ("op_div_val_val", ct(x / nzd).map(|v| il(&v)), some_q(&qt)),
        ("op_div_val_ref", ct(x / &nzd).map(|v| il(&v)), some_q(&qt)),
        ("op_div_ref_val", ct(&x / nzd).map(|v| il(&v)), some_q(&qt)),
        ("op_div_ref_ref", ct(&x / &nzd).map(|v| il(&v)), some_q(&qt)),
    ] {
        if got != want {
            rep.fail(rel, format!("got {:?} want {:?}", got.map(|v| hex(&v)), want.map(|v| hex(&v))));
        }
    }
    ex(rep, "rem", &il(&x.rem(&nzd)), &wrt);
    ex(rep, "rem_vartime", &il(&x.rem_vartime(&nzd)), &wrt);
    ex(rep, "op_rem_val_val", &il(&(x % nzd)), &wrt);
    ex(rep, "op_rem_val_ref", &il(&(x % &nzd)), &wrt);
    ex(rep, "op_rem_ref_val", &il(&(&x % nzd)), &wrt);
    ex(rep, "op_rem_ref_ref", &il(&(&x % &nzd)), &wrt);
    let mut t = x;
    t %= nzd;
    ex(rep, "op_rem_assign", &il(&t), &wrt);
    let mut t = x;
    t %= &nzd;
    ex(rep, "op_rem_assign_ref", &il(&t), &wrt);
    let wx = Wrapping(x);
    ex(rep, "Wrapping.op_rem", &il(&(wx % nzd).0), &wrt);
    ex(rep, "Wrapping.op_rem_ref_ref", &il(&(&wx % &nzd).0), &wrt);
    ex(rep, "Wrapping.op_rem_ref_val", &il(&(&wx % nzd).0), &wrt);
    ex(rep, "Wrapping.op_rem_val_ref", &il(&(wx % &nzd).0), &wrt);
    let mut t = wx;
    t %= nzd;
    ex(rep, "Wrapping.op_rem_assign", &il(&t.0), &wrt);
    let mut t = wx;
    t %= &nzd;
    ex(rep, "Wrapping.op_rem_assign_ref", &il(&t.0), &wrt);
    // panicking quotient forms: documented panic exactly for MIN / -1
    let wq = from_bigint(&qt, L);
    if let Some(v) = panics_iff(rep, "op_div_assign", overflow, || {
        let mut t = x;
        t /= nzd;
        t
    }) {
        ex(rep, "op_div_assign", &il(&v), &wq);
    }
    if let Some(v) = panics_iff(rep, "op_div_assign_ref", overflow, || {
        let mut t = x;
        t /= &nzd;
        t
    }) {
        ex(rep, "op_div_assign_ref", &il(&v), &wq);
    }
    if let Some(v) = panics_iff(rep, "DivVartime", overflow, || DivVartime::div_vartime(&x, &nzd)) {
        ex(rep, "DivVartime", &il(&v), &wq);
    }
    if let Some(v) = panics_iff(rep, "Wrapping.op_div", overflow, || wx / nzd) {
        ex(rep, "Wrapping.op_div", &il(&v.0), &wq);
    }
    if let Some(v) = panics_iff(rep, "Wrapping.op_div_ref_ref", overflow, || &wx / &nzd) {
        ex(rep, "Wrapping.op_div_ref_ref", &il(&v.0), &wq);
    }
    if let Some(v) = panics_iff(rep, "Wrapping.op_div_ref_val", overflow, || &wx / nzd) {
        ex(rep, "Wrapping.op_div_ref_val", &il(&v.0), &wq);
    }
    if let Some(v) = panics_iff(rep, "Wrapping.op_div_val_ref", overflow, || wx / &nzd) {
        ex(rep, "Wrapping.op_div_val_ref", &il(&v.0), &wq);
    }
    if let Some(v) = panics_iff(rep, "Wrapping.op_div_assign", overflow, || {
        let mut t = wx;
        t /= nzd;
        t
    }) {
        ex(rep, "Wrapping.op_div_assign", &il(&v.0), &wq);
    }
    if let Some(v) = panics_iff(rep, "Wrapping.op_div_assign_ref", overflow, || {
        let mut t = wx;
        t /= &nzd;
        t
    }) {
        ex(rep, "Wrapping.op_div_assign_ref", &il(&v.0), &wq);
    }
}
fn c_div(c: &Case, rep: &mut Rep) {
    dispatch!(c.w[0], [1, 2, 4, 8], div_same(c, rep))
}

fn div_mixed<const L: usize, const R: usize>(c: &Case, rep: &mut Rep) {
    let (n, d) = (&c.a[0], &c.a[1]);
    let (ni, di) = (to_bigint(n), to_bigint(d));
    class_grid(&ni, &di, L, R, rep);
    let (x, y): (Int<L>, Int<R>) = (i::<L>(n), i::<R>(d));
    if di.is_zero() {
        if ct(x.checked_div_vartime(&y)).is_some() || ct(x.checked_div_floor_vartime(&y)).is_some() {
            rep.fail("mixed.checked_div_vartime.none_iff_zero", "some for a zero divisor".into());
        }
        return;
    }
    let nzd: NonZero<Int<R>> = cct(y.to_nz()).expect("nonzero");
    let overflow = ni == -BigInt::from(pow2(64 * L - 1)) && di == BigInt::from(-1);
    let (qt, rt) = (&ni / &di, &ni % &di);
    let (qf, rf) = ni.div_mod_floor(&di);
    let some_q = |q: &BigInt| if overflow { None } else { Some(from_bigint(q, L)) };
    let (gq, gr) = x.checked_div_rem_vartime(&nzd);
    if cct(gq).map(|v| il(&v)) != some_q(&qt) {
        rep.fail("mixed.checked_div_rem_vartime.q", "mismatch".into());
    }
    ex(rep, "mixed.checked_div_rem_vartime.r", &il(&gr), &from_bigint(&rt, R));
    let (gq, gr) = x.checked_div_rem_floor_vartime(&nzd);
    let gq = cct(gq).map(|v| il(&v));
    if gq != some_q(&qf) {
        rep.fail("mixed.checked_div_rem_floor_vartime.q", "mismatch".into());
    }
    ex(rep, "mixed.checked_div_rem_floor_vartime.r", &il(&gr), &from_bigint(&rf, R));
    if let Some(gq) = gq {
        check_identity(rep, "mixed.checked_div_rem_floor_vartime", &ni, &di, &to_bigint(&gq), &to_bigint(&il(&gr)), true);
    }
    if ct(x.checked_div_vartime(&y)).map(|v| il(&v)) != some_q(&qt) {
        rep.fail("mixed.checked_div_vartime", "mismatch".into());
    }
    if ct(x.checked_div_floor_vartime(&y)).map(|v| il(&v)) != some_q(&qf) {
        rep.fail("mixed.checked_div_floor_vartime", "mismatch".into());
    }
    ex(rep, "mixed.rem_vartime", &il(&x.rem_vartime(&nzd)), &from_bigint(&rt, R));
}
fn c_div_mixed(c: &Case, rep: &mut Rep) {
    dispatch2!(c.w[0], c.w[1], [1, 2, 4], [1, 2, 4], div_mixed(c, rep))
}

fn div_uint<const L: usize>(c: &Case, rep: &mut Rep) {
    let (n, d) = (&c.a[0], &c.a[1]);
    let (ni, di) = (to_bigint(n), BigInt::from(to_big(d)));
    class_grid(&ni, &di, L, L, rep);
    if to_big(d).bits() as usize == 64 * L {
        rep.class("uint_divisor_gt_int_max");
    }
    if di.is_zero() {
        if cct(u::<L>(d).to_nz()).is_some() {
            rep.fail("Uint::to_nz.none_iff_zero", "NonZero(0)".into());
        }
        return;
    }
    let x: Int<L> = i::<L>(n);
    let nzd: NonZero<Uint<L>> = nz::<L>(d);
    let (qt, rt) = (&ni / &di, &ni % &di);
    let (qf, rf) = ni.div_mod_floor(&di);
    let (wqt, wrt, wqf) = (from_bigint(&qt, L), from_bigint(&rt, L), from_bigint(&qf, L));
    let wrf = from_big(&rf.to_biguint().expect("floored remainder by a positive divisor is >= 0"), L);
    let (gq, gr) = x.div_rem_uint(&nzd);
    ex(rep, "div_rem_uint.q", &il(&gq), &wqt);
    ex(rep, "div_rem_uint.r", &il(&gr), &wrt);
    check_identity(rep, "div_rem_uint", &ni, &di, &to_bigint(&il(&gq)), &to_bigint(&il(&gr)), false);
    let (gq, gr) = x.div_rem_uint_vartime(&nzd);
    ex(rep, "div_rem_uint_vartime.q", &il(&gq), &wqt);
    ex(rep, "div_rem_uint_vartime.r", &il(&gr), &wrt);
    ex(rep, "div_uint", &il(&x.div_uint(&nzd)), &wqt);
    ex(rep, "div_uint_vartime", &il(&x.div_uint_vartime(&nzd)), &wqt);
    ex(rep, "rem_uint", &il(&x.rem_uint(&nzd)), &wrt);
    ex(rep, "rem_uint_vartime", &il(&x.rem_uint_vartime(&nzd)), &wrt);
    let (gq, gr) = x.div_rem_floor_uint(&nzd);
    ex(rep, "div_rem_floor_uint.q", &il(&gq), &wqf);
    ex(rep, "div_rem_floor_uint.r", &ul(&gr), &wrf);
    check_identity(rep, "div_rem_floor_uint", &ni, &di, &to_bigint(&il(&gq)), &BigInt::from(to_big(&ul(&gr))), true);
    let (gq, gr) = x.div_rem_floor_uint_vartime(&nzd);
    ex(rep, "div_rem_floor_uint_vartime.q", &il(&gq), &wqf);
    ex(rep, "div_rem_floor_uint_vartime.r", &ul(&gr), &wrf);
    ex(rep, "div_floor_uint", &il(&x.div_floor_uint(&nzd)), &wqf);
    ex(rep, "div_floor_uint_vartime", &il(&x.div_floor_uint_vartime(&nzd)), &wqf);
    ex(rep, "normalized_rem", &ul(&x.normalized_rem(&nzd)), &wrf);
    ex(rep, "normalized_rem_vartime", &ul(&x.normalized_rem_vartime(&nzd)), &wrf);
    // operators with an unsigned divisor
    ex(rep, "op_div_uint_val_val", &il(&(x / nzd)), &wqt);
    ex(rep, "op_div_uint_val_ref", &il(&(x / &nzd)), &wqt);
    ex(rep, "op_div_uint_ref_val", &il(&(&x / nzd)), &wqt);
    ex(rep, "op_div_uint_ref_ref", &il(&(&x / &nzd)), &wqt);
    ex(rep, "op_rem_uint_val_val", &il(&(x % nzd)), &wrt);
    ex(rep, "op_rem_uint_val_ref", &il(&(x % &nzd)), &wrt);
    ex(rep, "op_rem_uint_ref_val", &il(&(&x % nzd)), &wrt);
    ex(rep, "op_rem_uint_ref_ref", &il(&(&x % &nzd)), &wrt);
    let mut t = x;
    t /= nzd;
    ex(rep, "op_div_assign_uint", &il(&t), &wqt);
    let mut t = x;
    t /= &nzd;
    ex(rep, "op_div_assign_uint_ref", &il(&t), &wqt);
    let mut t = x;
    t %= nzd;
    ex(rep, "op_rem_assign_uint", &il(&t), &wrt);
    let mut t = x;
    t %= &nzd;
    ex(rep, "op_rem_assign_uint_ref", &il(&t), &wrt);
    let wx = Wrapping(x);
    ex(rep, "Wrapping.op_div_uint", &il(&(wx / nzd).0), &wqt);
    ex(rep, "Wrapping.op_div_uint_ref_ref", &il(&(&wx / &nzd).0), &wqt);
    ex(rep, "Wrapping.op_div_uint_ref_val", &il(&(&wx / nzd).0), &wqt);
    ex(rep, "Wrapping.op_div_uint_val_ref", &il(&(wx / &nzd).0), &wqt);
    ex(rep, "Wrapping.op_rem_uint", &il(&(wx % nzd).0), &wrt);
    ex(rep, "Wrapping.op_rem_uint_ref_ref", &il(&(&wx % &nzd).0), &wrt);
    ex(rep, "Wrapping.op_rem_uint_ref_val", &il(&(&wx % nzd).0), &wrt);
    ex(rep, "Wrapping.op_rem_uint_val_ref", &il(&(wx % &nzd).0), &wrt);
    let mut t = wx;
    t /= nzd;
    ex(rep, "Wrapping.op_div_assign_uint", &il(&t.0), &wqt);
    let mut t = wx;
    t /= &nzd;
    ex(rep, "Wrapping.op_div_assign_uint_ref", &il(&t.0), &wqt);
    let mut t = wx;
    t %= nzd;
    ex(rep, "Wrapping.op_rem_assign_uint", &il(&t.0), &wrt);
    let mut t = wx;
    t %= &nzd;
    ex(rep, "Wrapping.op_rem_assign_uint_ref", &il(&t.0), &wrt);
}
fn c_div_uint(c: &Case, rep: &mut Rep) {
    dispatch!(c.w[0], [1, 2, 4, 8], div_uint(c, rep))
}

fn div_uint_mixed<const L: usize, const R: usize>(c: &Case, rep: &mut Rep) {
    let (n, d) = (&c.a[0], &c.a[1]);
    let (ni, di) = (to_bigint(n), BigInt::from(to_big(d)));
    class_grid(&ni, &di, L, R, rep);
    if di.is_zero() {
        return;
    }
    let x: Int<L> = i::<L>(n);
    let nzd: NonZero<Uint<R>> = nz::<R>(d);
    let (qt, rt) = (&ni / &di, &ni % &di);
    let (qf, rf) = ni.div_mod_floor(&di);
    let (gq, gr) = x.div_rem_uint_vartime(&nzd);
    ex(rep, "mixed.div_rem_uint_vartime.q", &il(&gq), &from_bigint(&qt, L));
    ex(rep, "mixed.div_rem_uint_vartime.r", &il(&gr), &from_bigint(&rt, R));
    ex(rep, "mixed.div_uint_vartime", &il(&x.div_uint_vartime(&nzd)), &from_bigint(&qt, L));
    ex(rep, "mixed.rem_uint_vartime", &il(&x.rem_uint_vartime(&nzd)), &from_bigint(&rt, R));
    let wrf = from_big(&rf.to_biguint().expect("non-negative"), R);
    let (gq, gr) = x.div_rem_floor_uint_vartime(&nzd);
    ex(rep, "mixed.div_rem_floor_uint_vartime.q", &il(&gq), &from_bigint(&qf, L));
    ex(rep, "mixed.div_rem_floor_uint_vartime.r", &ul(&gr), &wrf);
    ex(rep, "mixed.div_floor_uint_vartime", &il(&x.div_floor_uint_vartime(&nzd)), &from_bigint(&qf, L));
    ex(rep, "mixed.normalized_rem_vartime", &ul(&x.normalized_rem_vartime(&nzd)), &wrf);
}
fn c_div_uint_mixed(c: &Case, rep: &mut Rep) {
    dispatch2!(c.w[0], c.w[1], [1, 2, 4], [1, 2, 4], div_uint_mixed(c, rep))
}

// ---------------------------------------------------------------------------------------------

/// signed (n, d) of nl / dl limbs; `unsigned_d`: d is to be read as unsigned
fn gen_pair(r: &mut Rng, nl: usize, dl: usize, unsigned_d: bool) -> (Vec<u64>, Vec<u64>) {
    let nbits = 64 * nl;
    let dbits = 64 * dl;
    let nmin = -BigInt::from(pow2(nbits - 1));
    let nmax = BigInt::from(pow2(nbits - 1)) - 1;
    let dlo = if unsigned_d { BigInt::zero() } else { -BigInt::from(pow2(dbits - 1)) };
    let dhi = if unsigned_d { BigInt::from(pow2(dbits)) - 1 } else { BigInt::from(pow2(dbits - 1)) - 1 };
    let fitd = |v: &BigInt| *v >= dlo && *v <= dhi;
    let enc_d = |v: &BigInt| if unsigned_d { from_big(&v.to_biguint().unwrap(), dl) } else { from_bigint(v, dl) };
    match r.below(14) {
        0 => (from_bigint(&nmin, nl), enc_d(&if unsigned_d { BigInt::one() } else { BigInt::from(-1) })),
        1 => (from_bigint(&nmin, nl), enc_d(&BigInt::one())),
        2 => {
            let d = if unsigned_d { dhi.clone() } else { dlo.clone() };
            (from_bigint(&to_bigint(&gn::uint(r, nl)), nl), enc_d(&d))
        }
        3 => (gn::uint(r, nl), gn::zero(dl)),
        4 => {
            let d = if unsigned_d || r.bool() { BigInt::one() } else { BigInt::from(-1) };
            (gn::uint(r, nl), enc_d(&d))
        }
        5..=10 => {
            // n = q*d + rem with chosen signs; exact or inexact
            let k = 1 + r.usize_below(dbits.min(nbits) - 1);
            let mut d = BigInt::from(to_big(&gn::uint_bits(r, dl.max(nl), k)));
            if d.is_zero() {
                d = BigInt::one();
            }
            if !unsigned_d && r.bool() {
                d = -d;
            }
            if !fitd(&d) {
                d = BigInt::from(3);
            }
            let qk = r.usize_below(nbits - k + 1);
            let mut q = BigInt::from(to_big(&gn::uint_bits(r, nl, qk)));
            if r.bool() {
                q = -q;
            }
            let rem = match r.below(3) {
                0 => BigInt::zero(),
                1 => BigInt::one(),
                _ => BigInt::from(d.magnitude().clone()) - 1,
            };
            let rem = if r.bool() { -rem } else { rem };
            let mut n = &q * &d + rem;
            if n < nmin || n > nmax {
                n = &q * &d;
            }
            if n < nmin || n > nmax {
                n = to_bigint(&gn::uint(r, nl));
            }
            (from_bigint(&n, nl), enc_d(&d))
        }
        11 => {
            // |n| < |d|
            let d = to_bigint(&gn::uint(r, dl));
            let d = if unsigned_d { BigInt::from(to_big(&from_bigint(&d, dl))) } else { d };
            let n = if d.is_zero() { BigInt::zero() } else { BigInt::from(to_big(&gn::uint(r, nl)) % d.magnitude()) };
            let n = if r.bool() { -n } else { n };
            let n = if n < nmin || n > nmax { BigInt::one() } else { n };
            (from_bigint(&n, nl), enc_d(&d))
        }
        _ => (gn::uint(r, nl), gn::uint(r, dl)),
    }
}

pub fn workload(ctx: &mut Ctx) {
    for &l in &[1usize, 2, 4, 8] {
        let w = if l <= 4 { 300_000 } else { 100_000 };
        for _ in 0..ctx.iters(w) {
            let (n, d) = gen_pair(&mut ctx.rng, l, l, false);
            ctx.exec(Case::new("int.div").w(l).a(n).a(d), c_div);
        }
        for _ in 0..ctx.iters(w) {
            let (n, d) = gen_pair(&mut ctx.rng, l, l, true);
            ctx.exec(Case::new("int.div_uint").w(l).a(n).a(d), c_div_uint);
        }
    }
    for &l in &[1usize, 2, 4] {
        for &r in &[1usize, 2, 4] {
            for _ in 0..ctx.iters(120_000) {
                let (n, d) = gen_pair(&mut ctx.rng, l, r, false);
                ctx.exec(Case::new("int.div_mixed").w(l).w(r).a(n).a(d), c_div_mixed);
                let (n, d) = gen_pair(&mut ctx.rng, l, r, true);
                ctx.exec(Case::new("int.div_uint_mixed").w(l).w(r).a(n).a(d), c_div_uint_mixed);
            }
        }
    }
}
