//! C09 — modular exponentiation, multi-exponentiation and linear combination are exact.
use crate::c08::{BANK, BankVisitor, bank_dispatch};
use crate::util::*;
use crate::{dispatch, dispatch2};
use crypto_bigint::modular::{
    BoxedMontyForm, BoxedMontyParams, ConstMontyForm, ConstMontyParams, MontyForm, MontyParams,
};
use crypto_bigint::{Monty, MultiExponentiate, MultiExponentiateBoundedExp, Pow, PowBoundedExp, Uint};

pub const DEF: PropDef = PropDef {
    id: "C09",
    workload,
    ops,
    mandatory: &["k_eq_0", "k_window_boundary", "k_not_window_multiple", "k_limb_boundary", "k_eq_bits", "exp_bit_above_k", "lincomb_terms_gt_window", "lincomb_single_term", "exp_wider_than_base", "exp_narrower_than_base", "const_bank", "base_0", "base_m_minus_1", "modulus_between_third_and_half_of_2^BITS", "nilpotent_base"],
    rule: "cases are (modulus, base(s), exponent(s), bit bound k) for pow / pow_bounded_exp / Pow / PowBoundedExp / MultiExponentiate(BoundedExp) (arrays of 1..4 and slices of 1..6 terms) and (modulus, a_i, b_i) with 1..=40 terms for lincomb_vartime, in the runtime (1,2,4,8,16 limbs; exponent widths 1,2,4,8 mixed), boxed (1..=17 limbs) and compile-time (21-entry bank) implementations; k is exhaustive over 0..=BITS(exponent) for 1-2 limb exponents and window/limb boundary values (+-1) otherwise; exponents 0, 1, 2^j, all-ones, bits set just above k; bases 0, 1, m-1, random; lincomb moduli with 0..=63+ leading zero bits so the accumulation window overflows. non-trivial = named class (k = 0, k at / off a 4-bit window boundary, k at a limb boundary, k = BITS, exponent bit above k, more terms than one window, wider/narrower exponent, bank modulus); distinct by hash",
};

pub fn ops() -> Vec<(&'static str, Checker)> {
    vec![("pow.dyn", c_pow_dyn), ("pow.boxed", c_pow_boxed), ("pow.const", c_pow_const), ("multiexp.dyn", c_multiexp_dyn), ("multiexp.const", c_multiexp_const), ("lincomb.dyn", c_lincomb_dyn), ("lincomb.boxed", c_lincomb_boxed), ("lincomb.const", c_lincomb_const)]
}

fn tag_m1(m: &[u64], rep: &mut Rep) {
    if to_big(m).is_one() {
        rep.key_prefix = "m_eq_1:".into();
    }
}

fn class_k(rep: &mut Rep, k: u32, ebits: u32, e: &BigUint) {
    if k == 0 {
        rep.class("k_eq_0");
    } else if k % 4 == 0 {
        rep.class("k_window_boundary");
    } else {
        rep.class("k_not_window_multiple");
    }
    if k > 0 && k % 64 == 0 && k < ebits {
        rep.class("k_limb_boundary");
    }
    if k == ebits {
        rep.class("k_eq_bits");
    }
    if (e >> k as usize) != BigUint::zero() {
        rep.class("exp_bit_above_k");
    }
}

fn class_base(rep: &mut Rep, b: &BigUint, m: &BigUint) {
    // moduli with 2m < 2^BITS <= 3m (BITS = the limb-rounded size): the almost-Montgomery
    // accumulator of the boxed ladder may end >= 2m, exercising the second final subtraction
    let bits = 64 * ((m.bits() as usize + 63) / 64);
    if m * 2u32 < pow2(bits) && m * 3u32 >= pow2(bits) {
        rep.class("modulus_between_third_and_half_of_2^BITS");
    }
    if b.is_zero() {
        rep.class("base_0");
    } else if !m.is_one() && (b * b % m).is_zero() || (b * b * b % m).is_zero() && !m.is_one() {
        // non-zero base whose small powers vanish modulo a non-squarefree modulus: the ladder's
        // accumulator reaches exactly m (or 0) and only the final `>=` correction maps it to 0
        rep.class("nilpotent_base");
    }
    if !m.is_one() && b + 1u32 == *m {
        rep.class("base_m_minus_1");
    }
}

fn chk(rep: &mut Rep, rel: &str, mont: &[u64], got: &[u64], want: &BigUint, m: &BigUint) {
    if &to_big(mont) >= m {
        rep.fail(&format!("{}.canonical", rel), format!("montgomery value {} >= m", hex(mont)));
    }
    if &to_big(got) != want {
        rep.fail(rel, format!("got {} want {}", hex(got), bhex(want)));
    }
}

fn pow_dyn<const L: usize, const R: usize>(c: &Case, rep: &mut Rep) {
    let (m, b, e) = (&c.a[0], &c.a[1], &c.a[2]);
    let k = c.s[0] as u32;
    tag_m1(m, rep);
    let (mb, bb_, eb) = (to_big(m), to_big(b), to_big(e));
    class_k(rep, k, 64 * R as u32, &eb);
    class_base(rep, &(&bb_ % &mb), &mb);
    if R > L {
        rep.class("exp_wider_than_base");
    }
    if R < L {
        rep.class("exp_narrower_than_base");
    }
    let params = MontyParams::<L>::new_vartime(od::<L>(m));
    let f = MontyForm::new(&u::<L>(b), params);
    let ue = u::<R>(e);
    let want_k = bb_.modpow(&(&eb & mask(k as usize)), &mb);
    let r = f.pow_bounded_exp(&ue, k);
    chk(rep, "MontyForm::pow_bounded_exp", &ul(r.as_montgomery()), &ul(&r.retrieve()), &want_k, &mb);
    let r = PowBoundedExp::pow_bounded_exp(&f, &ue, k);
    chk(rep, "MontyForm::PowBoundedExp", &ul(r.as_montgomery()), &ul(&r.retrieve()), &want_k, &mb);
    let want = bb_.modpow(&eb, &mb);
    let r = f.pow(&ue);
    chk(rep, "MontyForm::pow", &ul(r.as_montgomery()), &ul(&r.retrieve()), &want, &mb);
    let r = Pow::pow(&f, &ue);
    chk(rep, "MontyForm::Pow", &ul(r.as_montgomery()), &ul(&r.retrieve()), &want, &mb);
    // boxed twin on the same inputs must agree bit for bit
    let bp = BoxedMontyParams::new(odb(m));
    let bf = BoxedMontyForm::new(bx(b), bp);
    let br = bf.pow_bounded_exp(&bx(e), k);
    chk(rep, "BoxedMontyForm::pow_bounded_exp", &bl(br.as_montgomery()), &bl(&br.retrieve()), &want_k, &mb);
    if bl(br.as_montgomery()) != ul(r_mont(&f.pow_bounded_exp(&ue, k))) {
        rep.fail("pow_bounded_exp.dyn_eq_boxed", "runtime and boxed results differ".into());
    }
}
fn r_mont<const L: usize>(f: &MontyForm<L>) -> &Uint<L> {
    f.as_montgomery()
}
fn c_pow_dyn(c: &Case, rep: &mut Rep) {
    dispatch2!(c.w[0], c.w[1], [1, 2, 4, 8, 16], [1, 2, 4, 8], pow_dyn(c, rep))
}

fn c_pow_boxed(c: &Case, rep: &mut Rep) {
    let (m, b, e) = (&c.a[0], &c.a[1], &c.a[2]);
    let k = c.s[0] as u32;
    tag_m1(m, rep);
    let (mb, bb_, eb) = (to_big(m), to_big(b), to_big(e));
    class_k(rep, k, 64 * e.len() as u32, &eb);
    class_base(rep, &(&bb_ % &mb), &mb);
    if e.len() > m.len() {
        rep.class("exp_wider_than_base");
    }
    if e.len() < m.len() {
        rep.class("exp_narrower_than_base");
    }
    let bp = if c.s[1] & 1 == 1 { BoxedMontyParams::new_vartime(odb(m)) } else { BoxedMontyParams::new(odb(m)) };
    let f = BoxedMontyForm::new(bx(b), bp);
    let be = bx(e);
    let want_k = bb_.modpow(&(&eb & mask(k as usize)), &mb);
    let r = f.pow_bounded_exp(&be, k);
    chk(rep, "BoxedMontyForm::pow_bounded_exp", &bl(r.as_montgomery()), &bl(&r.retrieve()), &want_k, &mb);
    let r = PowBoundedExp::pow_bounded_exp(&f, &be, k);
    chk(rep, "BoxedMontyForm::PowBoundedExp", &bl(r.as_montgomery()), &bl(&r.retrieve()), &want_k, &mb);
    let want = bb_.modpow(&eb, &mb);
    let r = f.pow(&be);
    chk(rep, "BoxedMontyForm::pow", &bl(r.as_montgomery()), &bl(&r.retrieve()), &want, &mb);
    if r.retrieve().nlimbs() != m.len() {
        rep.fail("BoxedMontyForm::pow.precision", format!("{} limbs", r.retrieve().nlimbs()));
    }
}

struct PowConst<'a> {
    c: &'a Case,
    rep: &'a mut Rep,
}
impl BankVisitor for PowConst<'_> {
    fn visit<M: ConstMontyParams<L>, const L: usize>(&mut self) {
        let (c, rep) = (self.c, &mut *self.rep);
        let (m, b, e) = (&c.a[0], &c.a[1], &c.a[2]);
        let k = c.s[0] as u32;
        let (mb, bb_, eb) = (to_big(m), to_big(b), to_big(e));
        rep.class("const_bank");
        let f = ConstMontyForm::<M, L>::new(&u::<L>(b));
        let d = MontyForm::<L>::new(&u::<L>(b), MontyParams::from_const_params::<M>());
        macro_rules! with_exp {
            ($r:literal) => {
                if c.w[1] == $r {
                    class_k(rep, k, 64 * $r, &eb);
                    if $r > L {
                        rep.class("exp_wider_than_base");
                    }
                    if $r < L {
                        rep.class("exp_narrower_than_base");
                    }
                    let ue = u::<$r>(e);
                    let want_k = bb_.modpow(&(&eb & mask(k as usize)), &mb);
                    let r = f.pow_bounded_exp(&ue, k);
                    chk(rep, "ConstMontyForm::pow_bounded_exp", &ul(r.as_montgomery()), &ul(&r.retrieve()), &want_k, &mb);
                    let r2 = PowBoundedExp::pow_bounded_exp(&f, &ue, k);
                    chk(rep, "ConstMontyForm::PowBoundedExp", &ul(r2.as_montgomery()), &ul(&r2.retrieve()), &want_k, &mb);
                    let dr = d.pow_bounded_exp(&ue, k);
                    if ul(dr.as_montgomery()) != ul(r.as_montgomery()) {
                        rep.fail("pow_bounded_exp.const_eq_dyn", "compile-time and runtime results differ".into());
                    }
                    let want = bb_.modpow(&eb, &mb);
                    let r = f.pow(&ue);
                    chk(rep, "ConstMontyForm::pow", &ul(r.as_montgomery()), &ul(&r.retrieve()), &want, &mb);
                    let r = Pow::pow(&f, &ue);
                    chk(rep, "ConstMontyForm::Pow", &ul(r.as_montgomery()), &ul(&r.retrieve()), &want, &mb);
                }
            };
        }
        with_exp!(1);
        with_exp!(2);
        with_exp!(4);
        with_exp!(8);
    }
}
fn c_pow_const(c: &Case, rep: &mut Rep) {
    bank_dispatch(c.s[1] as usize, &mut PowConst { c, rep });
}

/// product of powers oracle
fn multi_oracle(bases: &[&Vec<u64>], exps: &[&Vec<u64>], k: u32, m: &BigUint) -> BigUint {
    let mut acc = BigUint::one() % m;
    for (b, e) in bases.iter().zip(exps) {
        acc = acc * to_big(b).modpow(&(to_big(e) & mask(k as usize)), m) % m;
    }
    acc
}

fn multiexp_dyn<const L: usize, const R: usize>(c: &Case, rep: &mut Rep) {
    let m = &c.a[0];
    let n = c.s[1] as usize;
    let k = c.s[0] as u32;
    tag_m1(m, rep);
    let mb = to_big(m);
    let bases: Vec<&Vec<u64>> = (0..n).map(|i| &c.a[1 + 2 * i]).collect();
    let exps: Vec<&Vec<u64>> = (0..n).map(|i| &c.a[2 + 2 * i]).collect();
    let ebits = 64 * R as u32;
    let eall = exps.iter().fold(BigUint::zero(), |a, e| a | to_big(e));
    class_k(rep, k, ebits, &eall);
    rep.tally(&format!("multiexp_terms_{}", n));
    let params = MontyParams::<L>::new_vartime(od::<L>(m));
    let pairs: Vec<(MontyForm<L>, Uint<R>)> = (0..n).map(|i| (MontyForm::new(&u::<L>(bases[i]), params), u::<R>(exps[i]))).collect();
    let want_k = multi_oracle(&bases, &exps, k, &mb);
    let want = multi_oracle(&bases, &exps, ebits, &mb);
    // slice forms
    let r = <MontyForm<L> as MultiExponentiateBoundedExp<Uint<R>, [(MontyForm<L>, Uint<R>)]>>::multi_exponentiate_bounded_exp(pairs.as_slice(), k);
    chk(rep, "MontyForm::multi_exponentiate_bounded_exp(slice)", &ul(r.as_montgomery()), &ul(&r.retrieve()), &want_k, &mb);
    let r = <MontyForm<L> as MultiExponentiate<Uint<R>, [(MontyForm<L>, Uint<R>)]>>::multi_exponentiate(pairs.as_slice());
    chk(rep, "MontyForm::multi_exponentiate(slice)", &ul(r.as_montgomery()), &ul(&r.retrieve()), &want, &mb);
    macro_rules! arr {
        ($n:literal) => {
            if n == $n {
                let a: [(MontyForm<L>, Uint<R>); $n] = core::array::from_fn(|i| pairs[i]);
                let r = <MontyForm<L> as MultiExponentiateBoundedExp<Uint<R>, [(MontyForm<L>, Uint<R>); $n]>>::multi_exponentiate_bounded_exp(&a, k);
                chk(rep, "MontyForm::multi_exponentiate_bounded_exp(array)", &ul(r.as_montgomery()), &ul(&r.retrieve()), &want_k, &mb);
                let r = <MontyForm<L> as MultiExponentiate<Uint<R>, [(MontyForm<L>, Uint<R>); $n]>>::multi_exponentiate(&a);
                chk(rep, "MontyForm::multi_exponentiate(array)", &ul(r.as_montgomery()), &ul(&r.retrieve()), &want, &mb);
            }
        };
    }
    arr!(1);
    arr!(2);
    arr!(3);
    arr!(4);
}
fn c_multiexp_dyn(c: &Case, rep: &mut Rep) {
    dispatch2!(c.w[0], c.w[1], [1, 2, 4, 8], [1, 2, 4], multiexp_dyn(c, rep))
}

struct MultiConst<'a> {
    c: &'a Case,
    rep: &'a mut Rep,
}
impl BankVisitor for MultiConst<'_> {
    fn visit<M: ConstMontyParams<L>, const L: usize>(&mut self) {
        let (c, rep) = (self.c, &mut *self.rep);
        let m = &c.a[0];
        let n = c.s[1] as usize;
        let k = c.s[0] as u32;
        let mb = to_big(m);
        rep.class("const_bank");
        let bases: Vec<&Vec<u64>> = (0..n).map(|i| &c.a[1 + 2 * i]).collect();
        let exps: Vec<&Vec<u64>> = (0..n).map(|i| &c.a[2 + 2 * i]).collect();
        macro_rules! with_exp {
            ($r:literal) => {
                if c.w[1] == $r {
                    let ebits = 64 * $r as u32;
                    let eall = exps.iter().fold(BigUint::zero(), |a, e| a | to_big(e));
                    class_k(rep, k, ebits, &eall);
                    let pairs: Vec<(ConstMontyForm<M, L>, Uint<$r>)> = (0..n).map(|i| (ConstMontyForm::new(&u::<L>(bases[i])), u::<$r>(exps[i]))).collect();
                    let want_k = multi_oracle(&bases, &exps, k, &mb);
                    let want = multi_oracle(&bases, &exps, ebits, &mb);
                    let r = <ConstMontyForm<M, L> as MultiExponentiateBoundedExp<Uint<$r>, [(ConstMontyForm<M, L>, Uint<$r>)]>>::multi_exponentiate_bounded_exp(pairs.as_slice(), k);
                    chk(rep, "ConstMontyForm::multi_exponentiate_bounded_exp(slice)", &ul(r.as_montgomery()), &ul(&r.retrieve()), &want_k, &mb);
                    let r = <ConstMontyForm<M, L> as MultiExponentiate<Uint<$r>, [(ConstMontyForm<M, L>, Uint<$r>)]>>::multi_exponentiate(pairs.as_slice());
                    chk(rep, "ConstMontyForm::multi_exponentiate(slice)", &ul(r.as_montgomery()), &ul(&r.retrieve()), &want, &mb);
                    if n == 2 {
                        let a: [(ConstMontyForm<M, L>, Uint<$r>); 2] = [pairs[0], pairs[1]];
                        let r = <ConstMontyForm<M, L> as MultiExponentiateBoundedExp<Uint<$r>, [(ConstMontyForm<M, L>, Uint<$r>); 2]>>::multi_exponentiate_bounded_exp(&a, k);
                        chk(rep, "ConstMontyForm::multi_exponentiate_bounded_exp(array)", &ul(r.as_montgomery()), &ul(&r.retrieve()), &want_k, &mb);
                    }
                    if n == 3 {
                        let a: [(ConstMontyForm<M, L>, Uint<$r>); 3] = [pairs[0], pairs[1], pairs[2]];
                        let r = <ConstMontyForm<M, L> as MultiExponentiate<Uint<$r>, [(ConstMontyForm<M, L>, Uint<$r>); 3]>>::multi_exponentiate(&a);
                        chk(rep, "ConstMontyForm::multi_exponentiate(array)", &ul(r.as_montgomery()), &ul(&r.retrieve()), &want, &mb);
                    }
                }
            };
        }
        with_exp!(1);
        with_exp!(2);
        with_exp!(4);
    }
}
fn c_multiexp_const(c: &Case, rep: &mut Rep) {
    bank_dispatch(c.s[2] as usize, &mut MultiConst { c, rep });
}

fn lincomb_oracle(c: &Case, n: usize, m: &BigUint) -> BigUint {
    let mut acc = BigUint::zero();
    for i in 0..n {
        acc += to_big(&c.a[1 + 2 * i]) * to_big(&c.a[2 + 2 * i]);
    }
    acc % m
}

fn class_lincomb(rep: &mut Rep, n: usize, m: &[u64]) {
    let lz = 64 * m.len() - bits_of(m);
    // one accumulation window holds 2^(leading zeros, clamped) terms
    let window = 1usize << lz.min(63).min(20);
    if n > window {
        rep.class("lincomb_terms_gt_window");
    }
    if n == 1 {
        rep.class("lincomb_single_term");
    }
    if lz == 0 {
        rep.class("lincomb_modulus_full_width");
    }
    if lz >= 63 {
        rep.class("lincomb_lz_ge_63");
    }
    rep.tally(&format!("lincomb_lz_{}", lz.min(64)));
}

fn lincomb_dyn<const L: usize>(c: &Case, rep: &mut Rep) {
    let m = &c.a[0];
    let n = c.s[0] as usize;
    tag_m1(m, rep);
    let mb = to_big(m);
    class_lincomb(rep, n, m);
    let params = MontyParams::<L>::new_vartime(od::<L>(m));
    let forms: Vec<(MontyForm<L>, MontyForm<L>)> = (0..n).map(|i| (MontyForm::new(&u::<L>(&c.a[1 + 2 * i]), params), MontyForm::new(&u::<L>(&c.a[2 + 2 * i]), params))).collect();
    let refs: Vec<(&MontyForm<L>, &MontyForm<L>)> = forms.iter().map(|(a, b)| (a, b)).collect();
    let want = lincomb_oracle(c, n, &mb);
    let r = MontyForm::lincomb_vartime(&refs);
    chk(rep, "MontyForm::lincomb_vartime", &ul(r.as_montgomery()), &ul(&r.retrieve()), &want, &mb);
    let r = <MontyForm<L> as Monty>::lincomb_vartime(&refs);
    chk(rep, "MontyForm::Monty::lincomb_vartime", &ul(r.as_montgomery()), &ul(&r.retrieve()), &want, &mb);
    // boxed twin
    let bp = BoxedMontyParams::new(odb(m));
    let bforms: Vec<(BoxedMontyForm, BoxedMontyForm)> = (0..n).map(|i| (BoxedMontyForm::new(bx(&c.a[1 + 2 * i]), bp.clone()), BoxedMontyForm::new(bx(&c.a[2 + 2 * i]), bp.clone()))).collect();
    let brefs: Vec<(&BoxedMontyForm, &BoxedMontyForm)> = bforms.iter().map(|(a, b)| (a, b)).collect();
    let br = BoxedMontyForm::lincomb_vartime(&brefs);
    chk(rep, "BoxedMontyForm::lincomb_vartime", &bl(br.as_montgomery()), &bl(&br.retrieve()), &want, &mb);
    if bl(br.as_montgomery()) != ul(r.as_montgomery()) {
        rep.fail("lincomb_vartime.dyn_eq_boxed", "runtime and boxed results differ".into());
    }
}
fn c_lincomb_dyn(c: &Case, rep: &mut Rep) {
    dispatch!(c.w[0], [1, 2, 4, 8, 16], lincomb_dyn(c, rep))
}

fn c_lincomb_boxed(c: &Case, rep: &mut Rep) {
    let m = &c.a[0];
    let n = c.s[0] as usize;
    tag_m1(m, rep);
    let mb = to_big(m);
    class_lincomb(rep, n, m);
    let bp = BoxedMontyParams::new(odb(m));
    let bforms: Vec<(BoxedMontyForm, BoxedMontyForm)> = (0..n).map(|i| (BoxedMontyForm::new(bx(&c.a[1 + 2 * i]), bp.clone()), BoxedMontyForm::new(bx(&c.a[2 + 2 * i]), bp.clone()))).collect();
    let brefs: Vec<(&BoxedMontyForm, &BoxedMontyForm)> = bforms.iter().map(|(a, b)| (a, b)).collect();
    let want = lincomb_oracle(c, n, &mb);
    let br = BoxedMontyForm::lincomb_vartime(&brefs);
    chk(rep, "BoxedMontyForm::lincomb_vartime", &bl(br.as_montgomery()), &bl(&br.retrieve()), &want, &mb);
    let br = <BoxedMontyForm as Monty>::lincomb_vartime(&brefs);
    chk(rep, "BoxedMontyForm::Monty::lincomb_vartime", &bl(br.as_montgomery()), &bl(&br.retrieve()), &want, &mb);
}

struct LincombConst<'a> {
    c: &'a Case,
    rep: &'a mut Rep,
}
impl BankVisitor for LincombConst<'_> {
    fn visit<M: ConstMontyParams<L>, const L: usize>(&mut self) {
        let (c, rep) = (self.c, &mut *self.rep);
        let m = &c.a[0];
        let n = c.s[0] as usize;
        let mb = to_big(m);
        rep.class("const_bank");
        class_lincomb(rep, n, m);
        let forms: Vec<(ConstMontyForm<M, L>, ConstMontyForm<M, L>)> = (0..n).map(|i| (ConstMontyForm::new(&u::<L>(&c.a[1 + 2 * i])), ConstMontyForm::new(&u::<L>(&c.a[2 + 2 * i])))).collect();
        let want = lincomb_oracle(c, n, &mb);
        let r = ConstMontyForm::<M, L>::lincomb_vartime(&forms);
        chk(rep, "ConstMontyForm::lincomb_vartime", &ul(r.as_montgomery()), &ul(&r.retrieve()), &want, &mb);
        // runtime twin built from the same compile-time parameters
        let p = MontyParams::<L>::from_const_params::<M>();
        let dforms: Vec<(MontyForm<L>, MontyForm<L>)> = (0..n).map(|i| (MontyForm::new(&u::<L>(&c.a[1 + 2 * i]), p), MontyForm::new(&u::<L>(&c.a[2 + 2 * i]), p))).collect();
        let drefs: Vec<(&MontyForm<L>, &MontyForm<L>)> = dforms.iter().map(|(a, b)| (a, b)).collect();
        let d = MontyForm::lincomb_vartime(&drefs);
        if ul(d.as_montgomery()) != ul(r.as_montgomery()) {
            rep.fail("lincomb_vartime.const_eq_dyn", "compile-time and runtime results differ".into());
        }
    }
}
fn c_lincomb_const(c: &Case, rep: &mut Rep) {
    bank_dispatch(c.s[1] as usize, &mut LincombConst { c, rep });
}

// ---------------------------------------------------------------------------------------------

fn gen_exp(r: &mut Rng, n: usize, k: u32) -> Vec<u64> {
    match r.below(10) {
        0 => gn::zero(n),
        1 => gn::one(n),
        2 => gn::max(n),
        3 => gn::single_bit(n, r.usize_below(64 * n)),
        4 | 5 => {
            // bits set just above the bound k (must be ignored) and at k-1
            let mut v = gn::uint(r, n);
            let bits = 64 * n;
            for d in 0..4usize {
                let p = k as usize + d;
                if p < bits {
                    v[p / 64] |= 1 << (p % 64);
                }
            }
            if k > 0 && r.bool() {
                let p = k as usize - 1;
                if p < bits {
                    v[p / 64] |= 1 << (p % 64);
                }
            }
            v
        }
        _ => gn::uint(r, n),
    }
}

fn ks_for(r: &mut Rng, ebits: u32) -> u32 {
    let special: Vec<u32> = vec![0, 1, 2, 3, 4, 5, 7, 8, 9, 63, 64, 65, 67, 68, 127, 128, 129, ebits.saturating_sub(1), ebits, ebits.saturating_sub(3), ebits.saturating_sub(4), ebits / 2, ebits / 2 + 1];
    if r.chance(3, 4) { (*r.pick(&special)).min(ebits) } else { r.below(ebits as u64 + 1) as u32 }
}

fn gen_base(r: &mut Rng, m: &BigUint, n: usize) -> Vec<u64> {
    from_big(&gn::below(r, m, n), n)
}

pub fn workload(ctx: &mut Ctx) {
    // pow: exhaustive k for 1-2 limb exponents at small widths
    for &(l, rl) in &[(1usize, 1usize), (2, 1), (1, 2), (2, 2), (4, 1)] {
        for k in 0..=(64 * rl as u32) {
            if !ctx.mine() {
                continue;
            }
            for _ in 0..(if ctx.tier == Tier::Thorough { 200 } else { 40 }) {
                let m = gn::modulus(&mut ctx.rng, l, true);
                let mb = to_big(&m);
                let b = gen_base(&mut ctx.rng, &mb, l);
                let e = gen_exp(&mut ctx.rng, rl, k);
                ctx.exec(Case::new("pow.dyn").w(l).w(rl).a(m).a(b).a(e).s(k as u64), c_pow_dyn);
            }
        }
    }
    for &l in &[1usize, 2, 4, 8, 16] {
        for &rl in &[1usize, 2, 4, 8] {
            let cnt = match l.max(rl) {
                1 | 2 => 40_000,
                4 => 15_000,
                8 => 3_000,
                _ => 600,
            };
            for _ in 0..ctx.iters(cnt) {
                let m = gn::modulus(&mut ctx.rng, l, true);
                let mb = to_big(&m);
                let b = gen_base(&mut ctx.rng, &mb, l);
                let k = ks_for(&mut ctx.rng, 64 * rl as u32);
                let e = gen_exp(&mut ctx.rng, rl, k);
                ctx.exec(Case::new("pow.dyn").w(l).w(rl).a(m).a(b).a(e).s(k as u64), c_pow_dyn);
            }
        }
    }
    // nilpotent bases: m = r^j (j >= 2, r odd), base = r*t, so base^e = 0 (mod m) for e >= j
    for _ in 0..ctx.iters(40_000) {
        let l = *ctx.rng.pick(&[1usize, 2, 4]);
        let sh = 4 + ctx.rng.below(12);
        let r = BigUint::from(3u64 + 2 * ctx.rng.below(1 << sh));
        let mut m = &r * &r;
        let mut j = 2u32;
        while fits(&(&m * &r), l) && ctx.rng.chance(2, 3) {
            m *= &r;
            j += 1;
        }
        let t = gn::below(&mut ctx.rng, &m, l);
        let base = (&r * (&t + 1u32)) % &m;
        let e = BigUint::from(j as u64 + ctx.rng.below(3));
        let rl = *ctx.rng.pick(&[1usize, 2]);
        let k = (e.bits() as u32 + ctx.rng.below(3) as u32).min(64 * rl as u32);
        let (mv, bv, ev) = (from_big(&m, l), from_big(&base, l), from_big(&e, rl));
        ctx.exec(Case::new("pow.dyn").w(l).w(rl).a(mv.clone()).a(bv.clone()).a(ev.clone()).s(k as u64), c_pow_dyn);
        ctx.exec(Case::new("pow.boxed").w(l).w(rl).a(mv).a(bv).a(ev).s(k as u64).s(0), c_pow_boxed);
    }
    // boxed pow 1..=17 limbs, exponent 1..=6 limbs
    for _ in 0..ctx.iters(120_000) {
        let n = 1 + if ctx.rng.chance(3, 4) { ctx.rng.usize_below(4) } else { ctx.rng.usize_below(17) };
        let en = 1 + ctx.rng.usize_below(if n > 8 { 2 } else { 6 });
        let m = gn::modulus(&mut ctx.rng, n, true);
        let mb = to_big(&m);
        let b = gen_base(&mut ctx.rng, &mb, n);
        let k = ks_for(&mut ctx.rng, 64 * en as u32);
        let e = gen_exp(&mut ctx.rng, en, k);
        let v = ctx.rng.below(2);
        ctx.exec(Case::new("pow.boxed").w(n).w(en).a(m).a(b).a(e).s(k as u64).s(v), c_pow_boxed);
    }
    // const bank pow / multiexp / lincomb
    for (i, (n, hexs)) in BANK.iter().enumerate() {
        let m = {
            let mut v = parse_hex(hexs);
            v.resize(*n, 0);
            v
        };
        let mb = to_big(&m);
        for _ in 0..ctx.iters(if *n <= 4 { 8_000 } else { 2_000 }) {
            let rl = *ctx.rng.pick(&[1usize, 2, 4, 8]);
            let b = gen_base(&mut ctx.rng, &mb, *n);
            let k = ks_for(&mut ctx.rng, 64 * rl as u32);
            let e = gen_exp(&mut ctx.rng, rl, k);
            ctx.exec(Case::new("pow.const").w(*n).w(rl).a(m.clone()).a(b).a(e).s(k as u64).s(i as u64), c_pow_const);
        }
        for _ in 0..ctx.iters(if *n <= 4 { 4_000 } else { 1_000 }) {
            let rl = *ctx.rng.pick(&[1usize, 2, 4]);
            let terms = 1 + ctx.rng.usize_below(5);
            let k = ks_for(&mut ctx.rng, 64 * rl as u32);
            let mut c = Case::new("multiexp.const").w(*n).w(rl).a(m.clone());
            for _ in 0..terms {
                c = c.a(gen_base(&mut ctx.rng, &mb, *n)).a(gen_exp(&mut ctx.rng, rl, k));
            }
            ctx.exec(c.s(k as u64).s(terms as u64).s(i as u64), c_multiexp_const);
        }
        for _ in 0..ctx.iters(if *n <= 4 { 8_000 } else { 2_000 }) {
            let cap = if ctx.rng.chance(1, 3) { 40 } else { 4 };
            let terms = 1 + ctx.rng.usize_below(cap);
            let mut c = Case::new("lincomb.const").w(*n).a(m.clone());
            for _ in 0..terms {
                let (a, b) = big_pair(&mut ctx.rng, &mb, *n);
                c = c.a(a).a(b);
            }
            ctx.exec(c.s(terms as u64).s(i as u64), c_lincomb_const);
        }
    }
    // multiexp dyn
    for &l in &[1usize, 2, 4, 8] {
        for &rl in &[1usize, 2, 4] {
            for _ in 0..ctx.iters(if l <= 2 { 12_000 } else { 3_000 }) {
                let m = gn::modulus(&mut ctx.rng, l, true);
                let mb = to_big(&m);
                let terms = 1 + ctx.rng.usize_below(6);
                let k = ks_for(&mut ctx.rng, 64 * rl as u32);
                let mut c = Case::new("multiexp.dyn").w(l).w(rl).a(m);
                for _ in 0..terms {
                    c = c.a(gen_base(&mut ctx.rng, &mb, l)).a(gen_exp(&mut ctx.rng, rl, k));
                }
                ctx.exec(c.s(k as u64).s(terms as u64), c_multiexp_dyn);
            }
        }
    }
    // lincomb: term counts 1..=40, moduli with every number of leading zero bits 0..=70
    for &l in &[1usize, 2, 4, 8, 16] {
        for _ in 0..ctx.iters(if l <= 4 { 120_000 } else { 20_000 }) {
            let m = lincomb_modulus(&mut ctx.rng, l);
            let mb = to_big(&m);
            let terms = if ctx.rng.chance(1, 3) { 1 + ctx.rng.usize_below(40) } else { 1 + ctx.rng.usize_below(5) };
            let mut c = Case::new("lincomb.dyn").w(l).a(m);
            for _ in 0..terms {
                let (a, b) = big_pair(&mut ctx.rng, &mb, l);
                c = c.a(a).a(b);
            }
            ctx.exec(c.s(terms as u64), c_lincomb_dyn);
        }
    }
    for _ in 0..ctx.iters(150_000) {
        let n = 1 + ctx.rng.usize_below(17);
        let m = lincomb_modulus(&mut ctx.rng, n);
        let mb = to_big(&m);
        let terms = if ctx.rng.chance(1, 3) { 1 + ctx.rng.usize_below(40) } else { 1 + ctx.rng.usize_below(5) };
        let mut c = Case::new("lincomb.boxed").w(n).a(m);
        for _ in 0..terms {
            let (a, b) = big_pair(&mut ctx.rng, &mb, n);
            c = c.a(a).a(b);
        }
        ctx.exec(c.s(terms as u64), c_lincomb_boxed);
    }
}

/// large operands (near m) so that accumulated products carry
fn big_pair(r: &mut Rng, m: &BigUint, n: usize) -> (Vec<u64>, Vec<u64>) {
    let pick = |r: &mut Rng| -> BigUint {
        match r.below(4) {
            0 => (m - 1u32) % m,
            1 => (m - 1u32 - BigUint::from(r.below(4)).min(m - 1u32)) % m,
            _ => gn::below(r, m, n),
        }
    };
    (from_big(&pick(r), n), from_big(&pick(r), n))
}

/// odd modulus with a chosen number of leading zero bits (0..=70, biased to 0, 1, 62, 63, 64)
fn lincomb_modulus(r: &mut Rng, n: usize) -> Vec<u64> {
    let bits = 64 * n;
    let lz = match r.below(8) {
        0 => 0,
        1 => 1,
        2 => 62,
        3 => 63,
        4 => 64,
        5 => r.usize_below(8),
        _ => r.usize_below(71),
    }
    .min(bits - 1);
    let used = bits - lz;
    let mut v = match r.below(3) {
        0 => gn::low_ones(n, used),
        _ => gn::uint_bits(r, n, used),
    };
    v[0] |= 1;
    if used >= 1 {
        v[(used - 1) / 64] |= 1 << ((used - 1) % 64);
    }
    v
}
