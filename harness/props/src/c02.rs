//! C02 — unsigned division and remainder are exact for every dividend and divisor.
use crate::util::*;
use crate::{dispatch, dispatch2};
use crypto_bigint::{
    BoxedUint, CheckedDiv, DivRemLimb, DivVartime, Limb, NonZero, Reciprocal, RemLimb, RemMixed, Uint,
    Wrapping,
};
use num_integer::Integer;

pub const DEF: PropDef = PropDef {
    id: "C02",
    workload,
    ops,
    mandatory: &["addback_digit", "qhat_capped", "div2by1_corr1", "dbits_mod64_zero", "single_limb_divisor_in_wide", "n_lt_d", "exact", "mixed_width", "zero_divisor_checked"],
    rule: "cases are (dividend, divisor) tuples from the structured generator (n=q*d+r constructions, add-back constructions n=Q*d*B^j-e, reciprocal corners, palette limbs) for fixed widths 1,2,3,4,6,8,16,32,64 and boxed 1..=70 limbs (equal and mixed); a case is non-trivial when the oracle-side classifier puts it into at least one named class (add-back digit, capped estimate, 2by1 correction, divisor bit length multiple of 64, single-limb divisor in wide type, n<d, exact, n=qd±1, mixed width, zero divisor for checked forms, rem2k grid); distinct = 64-bit hash of (op, widths, operands)",
};

pub fn ops() -> Vec<(&'static str, Checker)> {
    vec![
        ("uint.div_rem", c_uint_div),
        ("uint.div_rem_mixed", c_uint_div_mixed),
        ("uint.rem_wide", c_uint_rem_wide),
        ("uint.div_limb", c_uint_div_limb),
        ("uint.rem2k", c_uint_rem2k),
        ("boxed.div_rem", c_boxed_div),
        ("boxed.div_limb", c_boxed_div_limb),
        ("reciprocal.new", c_reciprocal),
    ]
}

// ------------------------------------------------------------------------------------------
// oracle-side classification

/// Möller–Granlund 2-by-1 with my own reciprocal; returns (q, r, corr1, corr2).
fn mg_2by1(u1: u64, u0: u64, d: u64) -> (u64, u64, bool, bool) {
    debug_assert!(d >> 63 == 1 && u1 < d);
    let v = ((u128::MAX / d as u128) - (1u128 << 64)) as u64;
    let q = (v as u128) * (u1 as u128) + (((u1 as u128) << 64) | u0 as u128);
    let mut q1 = ((q >> 64) as u64).wrapping_add(1);
    let q0 = q as u64;
    let mut r = u0.wrapping_sub(q1.wrapping_mul(d));
    let c1 = r > q0;
    if c1 {
        q1 = q1.wrapping_sub(1);
        r = r.wrapping_add(d);
    }
    let c2 = r >= d;
    if c2 {
        q1 = q1.wrapping_add(1);
        r = r.wrapping_sub(d);
    }
    (q1, r, c1, c2)
}

fn classify_limb_div(n: &[u64], d: u64, rep: &mut Rep) {
    if d == 0 {
        return;
    }
    let s = d.leading_zeros();
    let dn = d << s;
    // shifted dividend has n.len()+1 limbs
    let mut rem: u64 = if s == 0 { 0 } else { n[n.len() - 1] >> (64 - s) };
    for i in (0..n.len()).rev() {
        let lo = if s == 0 { n[i] } else { (n[i] << s) | if i > 0 { n[i - 1] >> (64 - s) } else { 0 } };
        let (_q, r, c1, c2) = mg_2by1(rem, lo, dn);
        if c1 {
            rep.class("div2by1_corr1");
        }
        if c2 {
            rep.class("div2by1_corr2");
        }
        rem = r;
    }
    if d == u64::MAX || d == 1 << 63 || d == (1 << 63) + 1 || d == u64::MAX - 1 {
        rep.class("reciprocal_corner");
    }
    if d.is_power_of_two() {
        rep.class("limb_divisor_pow2");
    }
}

/// Simulate Knuth D digit estimates (3-by-2) with BigUint to decide whether any digit needs the
/// add-back and whether the estimate was capped.
fn classify_knuth(n: &[u64], d: &[u64], rep: &mut Rep) {
    let dl = bits_of(d).div_ceil(64);
    let nl = n.len();
    if dl == 0 {
        return;
    }
    let db = to_big(d);
    let nb = to_big(n);
    if bits_of(d) % 64 == 0 {
        rep.class("dbits_mod64_zero");
    }
    if nb < db {
        rep.class("n_lt_d");
    }
    let (q, r) = nb.div_rem(&db);
    if r.is_zero() && !nb.is_zero() {
        rep.class("exact");
    }
    if !q.is_zero() && (&r + 1u32 == db) {
        rep.class("n_eq_qd_minus1");
    }
    if r.is_one() && !q.is_zero() {
        rep.class("n_eq_qd_plus1");
    }
    if db.is_one() {
        rep.class("d_eq_1");
    }
    if db.count_ones() == 1 {
        rep.class("d_pow2");
    }
    if dl == 1 {
        if nl > 1 {
            rep.class("single_limb_divisor_in_wide");
        }
        classify_limb_div(n, d[0], rep);
        return;
    }
    if dl > nl || nl > 20 {
        return;
    }
    let s = 64 * dl - bits_of(d);
    let v = &db << s;
    let vl = from_big(&v, dl);
    if vl[dl - 1] == u64::MAX {
        rep.class("norm_top_limb_max");
    }
    if vl[dl - 2] == 0 {
        rep.class("norm_second_limb_zero");
    }
    if vl[dl - 2] == u64::MAX {
        rep.class("norm_second_limb_max");
    }
    let v2 = (BigUint::from(vl[dl - 1]) << 64) + BigUint::from(vl[dl - 2]);
    let un = &nb << s;
    let ql = from_big(&q, nl);
    // R_j = un - (Q >> 64(j+1) << 64(j+1)) * v ; digits j = nl-dl .. 0
    for j in (0..=(nl - dl)).rev() {
        let qhi = (&q >> (64 * (j + 1))) << (64 * (j + 1));
        let rj = &un - &qhi * &v;
        let rl = from_big(&rj, nl + 2);
        let (u2, u1, u0) = (rl[j + dl], rl[j + dl - 1], rl[j + dl - 2]);
        let top3 = (BigUint::from(u2) << 128) + (BigUint::from(u1) << 64) + BigUint::from(u0);
        let mut qhat = &top3 / &v2;
        let cap = BigUint::from(u64::MAX);
        if u2 == vl[dl - 1] {
            rep.class("qhat_capped");
        }
        if qhat > cap {
            qhat = cap;
        }
        let qt = BigUint::from(ql[j]);
        if qhat == &qt + 1u32 {
            rep.class("addback_digit");
        } else if qhat != qt {
            rep.tally("classifier_estimate_off_by_more_than_1");
        }
    }
}

// ------------------------------------------------------------------------------------------
// checkers

fn ex<T: AsRef<[u64]>>(rep: &mut Rep, rel: &str, got: T, want: &[u64]) {
    if got.as_ref() != want {
        rep.fail(rel, format!("got {} want {}", hex(got.as_ref()), hex(want)));
    }
}

fn expect_panic<R>(rep: &mut Rep, rel: &str, should: bool, f: impl FnOnce() -> R) -> Option<R> {
    match catch(f) {
        Ok(r) => {
            if should {
                rep.fail(rel, "documented panic did not happen".into());
            }
            Some(r)
        }
        Err(m) => {
            if !should {
                rep.fail(&format!("{}:{}", rel, panic_sig(&m)), format!("unexpected panic: {}", m));
            }
            None
        }
    }
}

fn uint_div<const L: usize>(c: &Case, rep: &mut Rep) {
    let (n, d) = (&c.a[0], &c.a[1]);
    let (un, ud) = (u::<L>(n), u::<L>(d));
    let (nb, db) = (to_big(n), to_big(d));
    if is_zero(d) {
        rep.class("zero_divisor_checked");
        rep.expect("checked_div.none_iff_zero", ct(un.checked_div(&ud)).is_none(), || "some for d=0".into());
        rep.expect("checked_rem.none_iff_zero", ct(un.checked_rem(&ud)).is_none(), || "some for d=0".into());
        rep.expect("CheckedDiv.none_iff_zero", ct(CheckedDiv::checked_div(&un, &ud)).is_none(), || "some for d=0".into());
        rep.expect("NonZero::new.none_iff_zero", ct(NonZero::new(ud)).is_none(), || "NonZero(0)".into());
        expect_panic(rep, "op_div_uint.panic_iff_zero", true, || un / ud);
        expect_panic(rep, "op_rem_uint.panic_iff_zero", true, || un % ud);
        expect_panic(rep, "wrapping_rem_vartime.panic_iff_zero", true, || un.wrapping_rem_vartime(&ud));
        return;
    }
    classify_knuth(n, d, rep);
    let (q, r) = nb.div_rem(&db);
    let (qe, re) = (from_big(&q, L), from_big(&r, L));
    let nzd = nz::<L>(d);

    let (q1, r1) = un.div_rem(&nzd);
    ex(rep, "div_rem.q", q1.to_words(), &qe);
    ex(rep, "div_rem.r", r1.to_words(), &re);
    // identity through the crate's own multiply-add: n == q*d + r, r < d
    let (lo, hi) = q1.split_mul(&ud);
    let (sum, carry) = lo.adc(&r1, Limb::ZERO);
    if !(sum == un && carry.0 == 0 && hi == Uint::<L>::ZERO) {
        rep.fail("div_rem.identity_n_eq_qd_plus_r", format!("q={} r={}", hex(&ul(&q1)), hex(&ul(&r1))));
    }
    if !bool::from(subtle::ConstantTimeLess::ct_lt(&r1, &ud)) {
        rep.fail("div_rem.r_lt_d", format!("r={}", hex(&ul(&r1))));
    }
    let (q2, r2) = un.div_rem_vartime(&nzd);
    ex(rep, "div_rem_vartime.q", q2.to_words(), &qe);
    ex(rep, "div_rem_vartime.r", r2.to_words(), &re);
    ex(rep, "rem", un.rem(&nzd).to_words(), &re);
    ex(rep, "rem_vartime", un.rem_vartime(&nzd).to_words(), &re);
    ex(rep, "wrapping_div", un.wrapping_div(&nzd).to_words(), &qe);
    ex(rep, "wrapping_div_vartime", un.wrapping_div_vartime(&nzd).to_words(), &qe);
    ex(rep, "wrapping_rem_vartime", un.wrapping_rem_vartime(&ud).to_words(), &re);
    match ct(un.checked_div(&ud)) {
        Some(x) => ex(rep, "checked_div", x.to_words(), &qe),
        None => rep.fail("checked_div.none_iff_zero", "none for d != 0".into()),
    }
    match ct(un.checked_rem(&ud)) {
        Some(x) => ex(rep, "checked_rem", x.to_words(), &re),
        None => rep.fail("checked_rem.none_iff_zero", "none for d != 0".into()),
    }
    match ct(CheckedDiv::checked_div(&un, &ud)) {
        Some(x) => ex(rep, "CheckedDiv", x.to_words(), &qe),
        None => rep.fail("CheckedDiv.none_iff_zero", "none for d != 0".into()),
    }
    ex(rep, "DivVartime", DivVartime::div_vartime(&un, &nzd).to_words(), &qe);
    // operators
    ex(rep, "op_div_ref_ref", (&un / &nzd).to_words(), &qe);
    ex(rep, "op_div_val_ref", (un / &nzd).to_words(), &qe);
    ex(rep, "op_div_ref_val", (&un / nzd).to_words(), &qe);
    ex(rep, "op_div_val_val", (un / nzd).to_words(), &qe);
    ex(rep, "op_div_uint", (un / ud).to_words(), &qe);
    ex(rep, "op_div_ref_uint", (&un / ud).to_words(), &qe);
    ex(rep, "op_rem_ref_ref", (&un % &nzd).to_words(), &re);
    ex(rep, "op_rem_val_ref", (un % &nzd).to_words(), &re);
    ex(rep, "op_rem_ref_val", (&un % nzd).to_words(), &re);
    ex(rep, "op_rem_val_val", (un % nzd).to_words(), &re);
    ex(rep, "op_rem_uint", (un % ud).to_words(), &re);
    ex(rep, "op_rem_ref_uint", (&un % ud).to_words(), &re);
    let mut t = un;
    t /= &nzd;
    ex(rep, "op_div_assign_ref", t.to_words(), &qe);
    let mut t = un;
    t /= nzd;
    ex(rep, "op_div_assign", t.to_words(), &qe);
    let mut t = un;
    t %= &nzd;
    ex(rep, "op_rem_assign_ref", t.to_words(), &re);
    let mut t = un;
    t %= nzd;
    ex(rep, "op_rem_assign", t.to_words(), &re);
    // Wrapping<Uint>
    let wn = Wrapping(un);
    ex(rep, "wrapping_op_div", (wn / nzd).0.to_words(), &qe);
    ex(rep, "wrapping_op_div_ref", (&wn / &nzd).0.to_words(), &qe);
    ex(rep, "wrapping_op_div_ref_val", (&wn / nzd).0.to_words(), &qe);
    ex(rep, "wrapping_op_div_val_ref", (wn / &nzd).0.to_words(), &qe);
    ex(rep, "wrapping_op_rem", (wn % nzd).0.to_words(), &re);
    ex(rep, "wrapping_op_rem_ref", (&wn % &nzd).0.to_words(), &re);
    ex(rep, "wrapping_op_rem_ref_val", (&wn % nzd).0.to_words(), &re);
    ex(rep, "wrapping_op_rem_val_ref", (wn % &nzd).0.to_words(), &re);
    let mut t = wn;
    t /= nzd;
    ex(rep, "wrapping_op_div_assign", t.0.to_words(), &qe);
    let mut t = wn;
    t /= &nzd;
    ex(rep, "wrapping_op_div_assign_ref", t.0.to_words(), &qe);
    let mut t = wn;
    t %= nzd;
    ex(rep, "wrapping_op_rem_assign", t.0.to_words(), &re);
    let mut t = wn;
    t %= &nzd;
    ex(rep, "wrapping_op_rem_assign_ref", t.0.to_words(), &re);
}
fn c_uint_div(c: &Case, rep: &mut Rep) {
    dispatch!(c.w[0], [1, 2, 3, 4, 6, 8, 16, 32, 64], uint_div(c, rep))
}

fn uint_div_mixed<const L: usize, const R: usize>(c: &Case, rep: &mut Rep) {
    let (n, d) = (&c.a[0], &c.a[1]);
    if is_zero(d) {
        return;
    }
    rep.class("mixed_width");
    let mut dpad = d.clone();
    dpad.resize(L.max(R), 0);
    let mut npad = n.clone();
    npad.resize(L.max(R), 0);
    classify_knuth(&npad, &dpad, rep);
    let (un, nzd) = (u::<L>(n), nz::<R>(d));
    let (q, r) = to_big(n).div_rem(&to_big(d));
    let (qe, re) = (from_big(&q, L), from_big(&r, R));
    let (q1, r1) = un.div_rem_vartime(&nzd);
    ex(rep, "div_rem_vartime_mixed.q", q1.to_words(), &qe);
    ex(rep, "div_rem_vartime_mixed.r", r1.to_words(), &re);
    ex(rep, "wrapping_div_vartime_mixed", un.wrapping_div_vartime(&nzd).to_words(), &qe);
}
fn c_uint_div_mixed(c: &Case, rep: &mut Rep) {
    dispatch2!(c.w[0], c.w[1], [1, 2, 3, 4, 8, 16], [1, 2, 3, 4, 8, 16], uint_div_mixed(c, rep));
    // RemMixed trait impls exist for specific alias pairs
    let (n, d) = (&c.a[0], &c.a[1]);
    if is_zero(d) {
        return;
    }
    let re = from_big(&(to_big(n) % to_big(d)), c.w[1]);
    macro_rules! rm {
        ($l:literal, $r:literal) => {
            if c.w[0] == $l && c.w[1] == $r {
                let got: Uint<$r> = RemMixed::rem_mixed(&u::<$l>(n), &nz::<$r>(d));
                ex(rep, "RemMixed", got.to_words(), &re);
            }
        };
    }
    rm!(3, 1);
    rm!(3, 2);
    rm!(4, 1);
    rm!(4, 3);
    rm!(8, 1);
    rm!(8, 2);
    rm!(8, 3);
    rm!(16, 1);
    rm!(16, 2);
    rm!(16, 3);
    rm!(16, 4);
}

fn uint_rem_wide<const L: usize>(c: &Case, rep: &mut Rep) {
    let (lo, hi, d) = (&c.a[0], &c.a[1], &c.a[2]);
    if is_zero(d) {
        return;
    }
    let mut wide = lo.clone();
    wide.extend_from_slice(hi);
    let mut dpad = d.clone();
    dpad.resize(2 * L, 0);
    rep.class("wide_dividend");
    classify_knuth(&wide, &dpad, rep);
    let re = from_big(&(to_big(&wide) % to_big(d)), L);
    ex(rep, "rem_wide_vartime", Uint::<L>::rem_wide_vartime((u::<L>(lo), u::<L>(hi)), &nz::<L>(d)).to_words(), &re);
}
fn c_uint_rem_wide(c: &Case, rep: &mut Rep) {
    dispatch!(c.w[0], [1, 2, 3, 4, 6, 8, 16, 32], uint_rem_wide(c, rep))
}

fn uint_div_limb<const L: usize>(c: &Case, rep: &mut Rep) {
    let n = &c.a[0];
    let d = c.s[0];
    if d == 0 {
        rep.expect("Limb::to_nz.none_iff_zero", cct(Limb(d).to_nz()).is_none(), || "NonZero(0)".into());
        return;
    }
    classify_limb_div(n, d, rep);
    rep.nontrivial();
    let un = u::<L>(n);
    let (q, r) = to_big(n).div_rem(&BigUint::from(d));
    let qe = from_big(&q, L);
    let re = from_big(&r, 1)[0];
    let nzd = nzl(d);
    let rec = Reciprocal::new(nzd);
    macro_rules! pair {
        ($name:expr, $e:expr) => {{
            let (gq, gr) = $e;
            ex(rep, concat!($name, ".q"), gq.to_words(), &qe);
            if gr.0 != re {
                rep.fail(concat!($name, ".r"), format!("got {:x} want {:x}", gr.0, re));
            }
        }};
    }
    macro_rules! one {
        ($name:expr, $e:expr) => {{
            let gr: Limb = $e;
            if gr.0 != re {
                rep.fail($name, format!("got {:x} want {:x}", gr.0, re));
            }
        }};
    }
    pair!("div_rem_limb", un.div_rem_limb(nzd));
    pair!("div_rem_limb_with_reciprocal", un.div_rem_limb_with_reciprocal(&rec));
    one!("rem_limb", un.rem_limb(nzd));
    one!("rem_limb_with_reciprocal", un.rem_limb_with_reciprocal(&rec));
    pair!("DivRemLimb::div_rem_limb", DivRemLimb::div_rem_limb(&un, nzd));
    pair!("DivRemLimb::with_reciprocal", DivRemLimb::div_rem_limb_with_reciprocal(&un, &rec));
    one!("RemLimb::rem_limb", RemLimb::rem_limb(&un, nzd));
    one!("RemLimb::with_reciprocal", RemLimb::rem_limb_with_reciprocal(&un, &rec));
    ex(rep, "op_div_limb_ref_ref", (&un / &nzd).to_words(), &qe);
    ex(rep, "op_div_limb_val_ref", (un / &nzd).to_words(), &qe);
    ex(rep, "op_div_limb_ref_val", (&un / nzd).to_words(), &qe);
    ex(rep, "op_div_limb_val_val", (un / nzd).to_words(), &qe);
    one!("op_rem_limb_ref_ref", &un % &nzd);
    one!("op_rem_limb_val_ref", un % &nzd);
    one!("op_rem_limb_ref_val", &un % nzd);
    one!("op_rem_limb_val_val", un % nzd);
    let mut t = un;
    t /= nzd;
    ex(rep, "op_div_assign_limb", t.to_words(), &qe);
    let mut t = un;
    t /= &nzd;
    ex(rep, "op_div_assign_limb_ref", t.to_words(), &qe);
    let mut rl = vec![0u64; L];
    rl[0] = re;
    let mut t = un;
    t %= nzd;
    ex(rep, "op_rem_assign_limb", t.to_words(), &rl);
    let mut t = un;
    t %= &nzd;
    ex(rep, "op_rem_assign_limb_ref", t.to_words(), &rl);
    let wn = Wrapping(un);
    ex(rep, "wrapping_op_div_limb", (wn / nzd).0.to_words(), &qe);
    ex(rep, "wrapping_op_div_limb_ref_ref", (&wn / &nzd).0.to_words(), &qe);
    ex(rep, "wrapping_op_div_limb_ref_val", (&wn / nzd).0.to_words(), &qe);
    ex(rep, "wrapping_op_div_limb_val_ref", (wn / &nzd).0.to_words(), &qe);
    one!("wrapping_op_rem_limb", (wn % nzd).0);
    one!("wrapping_op_rem_limb_ref_ref", (&wn % &nzd).0);
    one!("wrapping_op_rem_limb_ref_val", (&wn % nzd).0);
    one!("wrapping_op_rem_limb_val_ref", (wn % &nzd).0);
    let mut t = wn;
    t /= nzd;
    ex(rep, "wrapping_op_div_assign_limb", t.0.to_words(), &qe);
    let mut t = wn;
    t /= &nzd;
    ex(rep, "wrapping_op_div_assign_limb_ref", t.0.to_words(), &qe);
    let mut t = wn;
    t %= nzd;
    ex(rep, "wrapping_op_rem_assign_limb", t.0.to_words(), &rl);
    let mut t = wn;
    t %= &nzd;
    ex(rep, "wrapping_op_rem_assign_limb_ref", t.0.to_words(), &rl);
}
fn c_uint_div_limb(c: &Case, rep: &mut Rep) {
    dispatch!(c.w[0], [1, 2, 3, 4, 6, 8, 16, 32, 64], uint_div_limb(c, rep))
}

fn c_reciprocal(c: &Case, rep: &mut Rep) {
    // Reciprocal::new for every divisor class, judged through its only observable: division of a
    // two-limb value; plus shift() == leading zeros.
    let d = c.s[0];
    if d == 0 {
        return;
    }
    rep.nontrivial();
    let rec = Reciprocal::new(nzl(d));
    if rec.shift() != d.leading_zeros() {
        rep.fail("Reciprocal::shift", format!("got {} want {}", rec.shift(), d.leading_zeros()));
    }
    let n = &c.a[0];
    classify_limb_div(n, d, rep);
    let (q, r) = to_big(n).div_rem(&BigUint::from(d));
    let (gq, gr) = u::<2>(n).div_rem_limb_with_reciprocal(&rec);
    ex(rep, "Reciprocal.div.q", gq.to_words(), &from_big(&q, 2));
    if BigUint::from(gr.0) != r {
        rep.fail("Reciprocal.div.r", format!("got {:x} want {}", gr.0, bhex(&r)));
    }
}

fn uint_rem2k<const L: usize>(c: &Case, rep: &mut Rep) {
    let n = &c.a[0];
    let k = c.s[0] as u32;
    rep.class("rem2k");
    let want = if (k as usize) >= 64 * L { to_big(n) } else { to_big(n) & mask(k as usize) };
    ex(rep, "rem2k_vartime", u::<L>(n).rem2k_vartime(k).to_words(), &from_big(&want, L));
}
fn c_uint_rem2k(c: &Case, rep: &mut Rep) {
    dispatch!(c.w[0], [1, 2, 3, 4, 6, 8, 16], uint_rem2k(c, rep))
}

fn exb(rep: &mut Rep, rel: &str, got: &BoxedUint, want: &BigUint, limbs: usize) {
    let g = bl(got);
    if g.len() != limbs {
        rep.fail(&format!("{}.precision", rel), format!("got {} limbs want {}", g.len(), limbs));
    }
    if &to_big(&g) != want {
        rep.fail(rel, format!("got {} want {}", hex(&g), bhex(want)));
    }
}

fn c_boxed_div(c: &Case, rep: &mut Rep) {
    let (n, d) = (&c.a[0], &c.a[1]);
    let (nl, dl) = (n.len(), d.len());
    let (bn, bd) = (bx(n), bx(d));
    let (nb, db) = (to_big(n), to_big(d));
    if is_zero(d) {
        rep.class("zero_divisor_checked");
        if nl == dl {
            rep.expect("boxed.checked_div.none_iff_zero", ct(bn.checked_div(&bd)).is_none(), || "some for d=0".into());
            rep.expect("boxed.CheckedDiv.none_iff_zero", ct(CheckedDiv::checked_div(&bn, &bd)).is_none(), || "some".into());
        }
        rep.expect("boxed.NonZero::new.none_iff_zero", ct(NonZero::new(bd.clone())).is_none(), || "NonZero(0)".into());
        return;
    }
    let m = nl.max(dl);
    let (mut np, mut dp) = (n.clone(), d.clone());
    np.resize(m, 0);
    dp.resize(m, 0);
    classify_knuth(&np, &dp, rep);
    let (q, r) = nb.div_rem(&db);
    let nzd = nzb(d);
    if nl != dl {
        rep.class("mixed_width");
        rep.class("boxed_mixed_precision");
    }
    // vartime forms accept mixed precisions: quotient in the dividend's precision, remainder in
    // the divisor's precision.
    let (q2, r2) = bn.div_rem_vartime(&nzd);
    exb(rep, "boxed.div_rem_vartime.q", &q2, &q, nl);
    exb(rep, "boxed.div_rem_vartime.r", &r2, &r, dl);
    exb(rep, "boxed.rem_vartime", &bn.rem_vartime(&nzd), &r, dl);
    exb(rep, "boxed.wrapping_div_vartime", &bn.wrapping_div_vartime(&nzd), &q, nl);
    exb(rep, "boxed.RemMixed", &RemMixed::rem_mixed(&bn, &nzd), &r, dl);
    exb(rep, "boxed.DivVartime", &DivVartime::div_vartime(&bn, &nzd), &q, nl);
    if nl == dl {
        let (q1, r1) = bn.div_rem(&nzd);
        exb(rep, "boxed.div_rem.q", &q1, &q, nl);
        exb(rep, "boxed.div_rem.r", &r1, &r, nl);
        // identity via the crate: q*d + r == n (widening boxed mul)
        let prod = q1.mul(&bd);
        let sum = prod.wrapping_add(&r1.widen(prod.bits_precision()));
        if bb(&sum) != nb {
            rep.fail("boxed.div_rem.identity_n_eq_qd_plus_r", format!("q*d+r={}", hex(&bl(&sum))));
        }
        exb(rep, "boxed.rem", &bn.rem(&nzd), &r, nl);
        exb(rep, "boxed.wrapping_div", &bn.wrapping_div(&nzd), &q, nl);
        match ct(bn.checked_div(&bd)) {
            Some(x) => exb(rep, "boxed.checked_div", &x, &q, nl),
            None => rep.fail("boxed.checked_div.none_iff_zero", "none for d != 0".into()),
        }
        match ct(CheckedDiv::checked_div(&bn, &bd)) {
            Some(x) => exb(rep, "boxed.CheckedDiv", &x, &q, nl),
            None => rep.fail("boxed.CheckedDiv.none_iff_zero", "none for d != 0".into()),
        }
        exb(rep, "boxed.op_div_ref_ref", &(&bn / &nzd), &q, nl);
        exb(rep, "boxed.op_div_val_ref", &(bn.clone() / &nzd), &q, nl);
        exb(rep, "boxed.op_div_ref_val", &(&bn / nzd.clone()), &q, nl);
        exb(rep, "boxed.op_div_val_val", &(bn.clone() / nzd.clone()), &q, nl);
        exb(rep, "boxed.op_rem_ref_ref", &(&bn % &nzd), &r, nl);
        exb(rep, "boxed.op_rem_val_ref", &(bn.clone() % &nzd), &r, nl);
        exb(rep, "boxed.op_rem_ref_val", &(&bn % nzd.clone()), &r, nl);
        exb(rep, "boxed.op_rem_val_val", &(bn.clone() % nzd.clone()), &r, nl);
        let mut t = bn.clone();
        t /= &nzd;
        exb(rep, "boxed.op_div_assign_ref", &t, &q, nl);
        let mut t = bn.clone();
        t /= nzd.clone();
        exb(rep, "boxed.op_div_assign", &t, &q, nl);
        let mut t = bn.clone();
        t %= &nzd;
        exb(rep, "boxed.op_rem_assign_ref", &t, &r, nl);
        let mut t = bn.clone();
        t %= nzd.clone();
        exb(rep, "boxed.op_rem_assign", &t, &r, nl);
        let wn = Wrapping(bn.clone());
        exb(rep, "boxed.wrapping_op_div", &(wn.clone() / nzd.clone()).0, &q, nl);
        exb(rep, "boxed.wrapping_op_div_ref_ref", &(&wn / &nzd).0, &q, nl);
        exb(rep, "boxed.wrapping_op_div_ref_val", &(&wn / nzd.clone()).0, &q, nl);
        exb(rep, "boxed.wrapping_op_div_val_ref", &(wn.clone() / &nzd).0, &q, nl);
        let mut t = wn.clone();
        t /= &nzd;
        exb(rep, "boxed.wrapping_op_div_assign_ref", &t.0, &q, nl);
        let mut t = wn.clone();
        t /= nzd.clone();
        exb(rep, "boxed.wrapping_op_div_assign", &t.0, &q, nl);
    }
}

fn c_boxed_div_limb(c: &Case, rep: &mut Rep) {
    let n = &c.a[0];
    let d = c.s[0];
    if d == 0 {
        return;
    }
    classify_limb_div(n, d, rep);
    rep.nontrivial();
    let bn = bx(n);
    let (q, r) = to_big(n).div_rem(&BigUint::from(d));
    let nzd = nzl(d);
    let rec = Reciprocal::new(nzd);
    let nl = n.len();
    macro_rules! pair {
        ($name:expr, $e:expr) => {{
            let (gq, gr) = $e;
            exb(rep, concat!($name, ".q"), &gq, &q, nl);
            if BigUint::from(gr.0) != r {
                rep.fail(concat!($name, ".r"), format!("got {:x} want {}", gr.0, bhex(&r)));
            }
        }};
    }
    macro_rules! one {
        ($name:expr, $e:expr) => {{
            let gr: Limb = $e;
            if BigUint::from(gr.0) != r {
                rep.fail($name, format!("got {:x} want {}", gr.0, bhex(&r)));
            }
        }};
    }
    pair!("boxed.div_rem_limb", bn.div_rem_limb(nzd));
    pair!("boxed.div_rem_limb_with_reciprocal", bn.div_rem_limb_with_reciprocal(&rec));
    one!("boxed.rem_limb", bn.rem_limb(nzd));
    one!("boxed.rem_limb_with_reciprocal", bn.rem_limb_with_reciprocal(&rec));
    pair!("boxed.DivRemLimb::div_rem_limb", DivRemLimb::div_rem_limb(&bn, nzd));
    pair!("boxed.DivRemLimb::with_reciprocal", DivRemLimb::div_rem_limb_with_reciprocal(&bn, &rec));
    one!("boxed.RemLimb::rem_limb", RemLimb::rem_limb(&bn, nzd));
    one!("boxed.RemLimb::with_reciprocal", RemLimb::rem_limb_with_reciprocal(&bn, &rec));
}

// ------------------------------------------------------------------------------------------
// generation

/// (n, d) of nl / dl limbs with the relation-based constructions of DESIGN §4 C02.
pub fn gen_pair(r: &mut Rng, nl: usize, dl: usize) -> (Vec<u64>, Vec<u64>) {
    let m = nl.min(dl);
    match r.below(16) {
        0..=5 => {
            // n := q*d + r with structured parts; d occupies `used` limbs
            let used = 1 + r.usize_below(m);
            let mut d = gn::uint(r, used);
            if r.chance(1, 3) {
                d[used - 1] |= 1 << 63; // bit length multiple of 64
            }
            if is_zero(&d) {
                d[0] = 1;
            }
            let qlen = nl - used + 1;
            let q = gn::uint(r, qlen);
            let db = to_big(&d);
            let rem = match r.below(4) {
                0 => BigUint::zero(),
                1 => BigUint::one() % &db,
                2 => &db - 1u32,
                _ => to_big(&gn::uint(r, used)) % &db,
            };
            let mut nb = to_big(&q) * &db + rem;
            if !fits(&nb, nl) {
                nb = nb & mask(64 * nl);
            }
            d.resize(dl, 0);
            (from_big(&nb, nl), d)
        }
        6..=9 if m >= 3 => {
            // add-back construction: n = (Q*d - e) * B^j + low, d with >= 3 limbs and a large low part
            let used = 3 + r.usize_below(m - 2);
            let mut d = gn::random(r, used);
            d[used - 1] = match r.below(3) {
                0 => u64::MAX,
                1 => 1 << 63,
                _ => r.u64() | (1 << 63 >> r.below(64)),
            };
            if d[used - 1] == 0 {
                d[used - 1] = 1;
            }
            for x in d.iter_mut().take(used - 2) {
                if r.bool() {
                    *x = u64::MAX;
                }
            }
            if r.chance(1, 4) {
                d[used - 2] = *r.pick(&[0, u64::MAX, 1]);
            }
            let db = to_big(&d);
            let qlen = nl - used + 1;
            let j = r.usize_below(qlen);
            let qd = 1 + r.usize_below(qlen - j);
            let mut q = gn::uint(r, qd);
            if is_zero(&q) {
                q[0] = 1 + (r.u64() >> 1);
            }
            let e = BigUint::from(1 + r.below(1 << 16));
            let low = to_big(&gn::uint(r, j.max(1))) & mask(64 * j);
            let mut nb = ((to_big(&q) * &db - e) << (64 * j)) + low;
            if !fits(&nb, nl) {
                nb = nb & mask(64 * nl);
            }
            d.resize(dl, 0);
            (from_big(&nb, nl), d)
        }
        10 => {
            // top dividend limbs equal to top divisor limbs (capped estimate)
            let used = 2 + if m > 2 { r.usize_below(m - 1) } else { 0 };
            let used = used.min(m).max(1);
            let mut d = gn::uint(r, used);
            d[used - 1] |= 1 << 63;
            let mut n = gn::uint(r, nl);
            let off = r.usize_below(nl - used + 1);
            for k in 1..used.min(3) {
                n[off + used - k] = d[used - k];
            }
            if used >= 1 {
                n[off + used - 1] = d[used - 1];
            }
            if off + used < nl {
                for x in n.iter_mut().skip(off + used) {
                    *x = 0;
                }
            }
            // make lower limbs smaller so that (u2,u1) == (v1, v0') with u < v at that alignment
            if used >= 2 && r.bool() {
                n[off + used - 2] = d[used - 2].wrapping_sub(1);
            }
            d.resize(dl, 0);
            (n, d)
        }
        11 => {
            let mut d = gn::zero(dl);
            d[0] = gn::limb(r);
            (gn::uint(r, nl), d)
        }
        12 => (gn::uint(r, nl), gn::single_bit(dl, r.usize_below(64 * m))),
        13 => {
            let n = gn::uint(r, nl);
            let mut d = n.clone();
            d.resize(dl, 0);
            let d = gn::related(r, &d);
            (n, d)
        }
        _ => (gn::uint(r, nl), gn::uint(r, dl)),
    }
}

const FIXED: [usize; 9] = [1, 2, 3, 4, 6, 8, 16, 32, 64];
const MIXED: [usize; 6] = [1, 2, 3, 4, 8, 16];

fn weight(l: usize) -> u64 {
    // nominal whole-run quick budget per width
    match l {
        0..=4 => 400_000,
        5..=8 => 200_000,
        9..=16 => 80_000,
        17..=32 => 20_000,
        _ => 5_000,
    }
}

pub fn workload(ctx: &mut Ctx) {
    // fixed, equal widths
    for &l in &FIXED {
        for _ in 0..ctx.iters(weight(l)) {
            let (n, d) = gen_pair(&mut ctx.rng, l, l);
            ctx.exec(Case::new("uint.div_rem").w(l).a(n).a(d), c_uint_div);
        }
        for _ in 0..ctx.iters(weight(l) / 3) {
            let n = gn::uint(&mut ctx.rng, l);
            let d = gn::limb(&mut ctx.rng);
            ctx.exec(Case::new("uint.div_limb").w(l).a(n).s(d), c_uint_div_limb);
        }
        if l <= 32 {
            for _ in 0..ctx.iters(weight(l) / 3) {
                let (n, d) = gen_pair(&mut ctx.rng, 2 * l, l);
                ctx.exec(Case::new("uint.rem_wide").w(l).a(n[..l].to_vec()).a(n[l..].to_vec()).a(d), c_uint_rem_wide);
            }
        }
    }
    // mixed widths
    for &l in &MIXED {
        for &r in &MIXED {
            for _ in 0..ctx.iters(30_000) {
                let (n, d) = gen_pair(&mut ctx.rng, l, r);
                ctx.exec(Case::new("uint.div_rem_mixed").w(l).w(r).a(n).a(d), c_uint_div_mixed);
            }
        }
    }
    // rem2k: exhaustive k in 0..=BITS+65 and u32::MAX, a handful of values per k
    for &l in &[1usize, 2, 3, 4, 6, 8, 16] {
        let bits = 64 * l as u64;
        let reps = if ctx.tier == Tier::Thorough { 8 } else { 2 };
        for k in (0..=bits + 65).chain([u32::MAX as u64, 1 << 31]) {
            if !ctx.mine() {
                continue;
            }
            for t in 0..reps {
                let n = if t == 0 { gn::max(l) } else { gn::uint(&mut ctx.rng, l) };
                ctx.exec(Case::new("uint.rem2k").w(l).a(n).s(k), c_uint_rem2k);
            }
        }
    }
    // reciprocal corners: every power of two, +-1, MAX.., palette; dividends from palette^2
    let mut divs: Vec<u64> = gn::PALETTE.to_vec();
    for k in 0..64 {
        divs.push(1 << k);
        divs.push((1u64 << k).wrapping_sub(1));
        divs.push((1u64 << k) + 1);
        divs.push(!((1u64 << k) - 1));
    }
    for &d in &divs {
        if d == 0 || !ctx.mine() {
            continue;
        }
        for &a in &gn::PALETTE {
            for &b in &gn::PALETTE {
                ctx.exec(Case::new("reciprocal.new").a(vec![a, b]).s(d), c_reciprocal);
            }
        }
        for _ in 0..4 {
            let n = vec![ctx.rng.u64(), ctx.rng.u64()];
            ctx.exec(Case::new("reciprocal.new").a(n).s(d), c_reciprocal);
        }
    }
    for _ in 0..ctx.iters(300_000) {
        let n = vec![gn::limb(&mut ctx.rng), gn::limb(&mut ctx.rng)];
        let d = gn::limb(&mut ctx.rng);
        ctx.exec(Case::new("reciprocal.new").a(n).s(d), c_reciprocal);
    }
    // boxed: 1..=70 limbs, equal and mixed
    let total = ctx.iters(500_000);
    for _ in 0..total {
        let nl = pick_boxed_len(&mut ctx.rng);
        let dl = if ctx.rng.chance(3, 5) { nl } else { pick_boxed_len(&mut ctx.rng) };
        let (n, d) = gen_pair(&mut ctx.rng, nl, dl);
        ctx.exec(Case::new("boxed.div_rem").w(nl).w(dl).a(n).a(d), c_boxed_div);
    }
    for _ in 0..ctx.iters(120_000) {
        let nl = pick_boxed_len(&mut ctx.rng);
        let n = gn::uint(&mut ctx.rng, nl);
        let d = gn::limb(&mut ctx.rng);
        ctx.exec(Case::new("boxed.div_limb").w(nl).a(n).s(d), c_boxed_div_limb);
    }
}

fn pick_boxed_len(r: &mut Rng) -> usize {
    match r.below(10) {
        0..=5 => 1 + r.usize_below(8),
        6..=8 => 1 + r.usize_below(24),
        _ => 1 + r.usize_below(70),
    }
}
