//! C18 — DER and RLP integer codecs are canonical and fail closed.
use crate::util::*;
use crypto_bigint::{Encoding, U64, U128, U192, U256, U384, U512, U1024, U2048, U8192, Uint};
use der::asn1::{AnyRef, UintRef};
use der::{Decode, Encode};

pub const DEF: PropDef = PropDef {
    id: "C18",
    workload,
    ops,
    mandatory: &["len_eq_cap", "len_eq_cap_plus_1_leading_zero", "oversize", "noncanonical_leading_zero", "negative", "bad_tag", "bad_length_field", "top_octet_0x80", "top_octet_0x7f", "zero_value", "rlp_single_byte_lt_0x80", "rlp_leading_zero", "rlp_oversize", "der_long_form_length", "truncated"],
    rule: "cases are (a) values for DER (U64..U8192) and RLP (U64..U256) encoders: 0, 1, 0x7f/0x80 boundary in the top octet at every octet count, 2^BITS-1, structured randoms — encoding must equal my own canonical DER INTEGER / RLP string encoder and decode back; (b) arbitrary byte strings for the decoders: every length around the capacity with leading 0x00 / 0x7f / 0x80 / 0xff octets, wrong tags, truncated / overlong / non-minimal length fields, mutations of valid encodings (truncate, extend, flip, splice) — the decoder must return Ok(v) exactly when the bytes are the canonical encoding of a v that fits, Err otherwise, and never panic. non-trivial = named class; distinct by hash",
};

pub fn ops() -> Vec<(&'static str, Checker)> {
    vec![("der.encode", c_der_encode), ("der.decode", c_der_decode), ("rlp.encode", c_rlp_encode), ("rlp.decode", c_rlp_decode)]
}

// ---------------------------------------------------------------------------------------------
// independent codecs

fn min_be(v: &BigUint) -> Vec<u8> {
    if v.is_zero() { vec![] } else { v.to_bytes_be() }
}

fn der_encode_oracle(v: &BigUint) -> Vec<u8> {
    let mut content = min_be(v);
    if content.is_empty() {
        content.push(0);
    }
    if content[0] & 0x80 != 0 {
        content.insert(0, 0);
    }
    let mut out = vec![0x02];
    let n = content.len();
    if n < 128 {
        out.push(n as u8);
    } else if n < 256 {
        out.extend_from_slice(&[0x81, n as u8]);
    } else if n < 65536 {
        out.extend_from_slice(&[0x82, (n >> 8) as u8, n as u8]);
    } else {
        out.extend_from_slice(&[0x83, (n >> 16) as u8, (n >> 8) as u8, n as u8]);
    }
    out.extend_from_slice(&content);
    out
}

#[derive(Debug, PartialEq)]
enum DerWhy {
    Ok(BigUint),
    BadTag,
    BadLength,
    Truncated,
    Trailing,
    Empty,
    Negative,
    LeadingZero,
}
/// Strict canonical DER INTEGER (non-negative) parser of a complete message.
fn der_decode_oracle(b: &[u8]) -> DerWhy {
    if b.is_empty() {
        return DerWhy::Truncated;
    }
    if b[0] != 0x02 {
        return DerWhy::BadTag;
    }
    if b.len() < 2 {
        return DerWhy::Truncated;
    }
    let (len, hdr) = if b[1] < 0x80 {
        (b[1] as usize, 2)
    } else {
        let k = (b[1] & 0x7f) as usize;
        if k == 0 || k > 4 {
            return DerWhy::BadLength; // indefinite or absurd
        }
        if b.len() < 2 + k {
            return DerWhy::Truncated;
        }
        let mut l = 0usize;
        for &x in &b[2..2 + k] {
            l = (l << 8) | x as usize;
        }
        // minimal: no leading zero octet in the length, and long form only when needed
        if b[2] == 0 || l < 128 {
            return DerWhy::BadLength;
        }
        (l, 2 + k)
    };
    if b.len() < hdr + len {
        return DerWhy::Truncated;
    }
    if b.len() > hdr + len {
        return DerWhy::Trailing;
    }
    let c = &b[hdr..];
    if c.is_empty() {
        return DerWhy::Empty;
    }
    if c[0] & 0x80 != 0 {
        return DerWhy::Negative;
    }
    if c.len() > 1 && c[0] == 0 && c[1] & 0x80 == 0 {
        return DerWhy::LeadingZero;
    }
    DerWhy::Ok(BigUint::from_bytes_be(c))
}

fn rlp_encode_oracle(v: &BigUint) -> Vec<u8> {
    let p = min_be(v);
    if p.len() == 1 && p[0] < 0x80 {
        return p;
    }
    let mut out = Vec::new();
    if p.len() <= 55 {
        out.push(0x80 + p.len() as u8);
    } else {
        let lb = min_be(&BigUint::from(p.len()));
        out.push(0xb7 + lb.len() as u8);
        out.extend_from_slice(&lb);
    }
    out.extend_from_slice(&p);
    out
}

#[derive(Debug, PartialEq)]
enum RlpWhy {
    Ok(BigUint),
    /// payload is a canonical integer but the framing is not the canonical one (long form for a
    /// short payload, trailing bytes): handled by the `rlp` crate, not by crypto-bigint
    FramingNonCanonical(BigUint),
    Bad,
}
fn rlp_decode_oracle(b: &[u8]) -> RlpWhy {
    if b.is_empty() {
        return RlpWhy::Bad;
    }
    let l = b[0];
    let (payload, consumed, long_form): (&[u8], usize, bool) = if l < 0x80 {
        (&b[..1], 1, false)
    } else if l <= 0xb7 {
        let n = (l - 0x80) as usize;
        if b.len() < 1 + n {
            return RlpWhy::Bad;
        }
        (&b[1..1 + n], 1 + n, false)
    } else if l <= 0xbf {
        let k = (l - 0xb7) as usize;
        if b.len() < 1 + k {
            return RlpWhy::Bad;
        }
        if b[1] == 0 {
            return RlpWhy::Bad;
        }
        let mut n = 0usize;
        for &x in &b[1..1 + k] {
            n = n.checked_mul(256).and_then(|t| t.checked_add(x as usize)).unwrap_or(usize::MAX / 2);
        }
        if b.len() < 1 + k || b.len() - (1 + k) < n {
            return RlpWhy::Bad;
        }
        (&b[1 + k..1 + k + n], 1 + k + n, true)
    } else {
        return RlpWhy::Bad; // a list
    };
    // canonical integer payload: no leading zero octet; a single octet < 0x80 must be itself
    if payload.first() == Some(&0) {
        return RlpWhy::Bad;
    }
    if l >= 0x80 && !long_form && payload.len() == 1 && payload[0] < 0x80 {
        return RlpWhy::Bad;
    }
    let v = BigUint::from_bytes_be(payload);
    let framing_ok = consumed == b.len() && !(long_form && payload.len() <= 55);
    if framing_ok { RlpWhy::Ok(v) } else { RlpWhy::FramingNonCanonical(v) }
}

// ---------------------------------------------------------------------------------------------
// checkers

macro_rules! for_der_width {
    ($w:expr, $f:ident, $($a:expr),*) => {
        match $w {
            1 => $f::<U64, 1>($($a),*),
            2 => $f::<U128, 2>($($a),*),
            3 => $f::<U192, 3>($($a),*),
            4 => $f::<U256, 4>($($a),*),
            6 => $f::<U384, 6>($($a),*),
            8 => $f::<U512, 8>($($a),*),
            16 => $f::<U1024, 16>($($a),*),
            32 => $f::<U2048, 32>($($a),*),
            128 => $f::<U8192, 128>($($a),*),
            w => panic!("harness: DER width {}", w),
        }
    };
}

trait DerInt<const L: usize>: Sized + for<'a> Decode<'a, Error = der::Error> + Encode + for<'a> TryFrom<AnyRef<'a>, Error = der::Error> + for<'a> TryFrom<UintRef<'a>, Error = der::Error> {
    fn limbs(&self) -> Vec<u64>;
    fn make(l: &[u64]) -> Self;
}
macro_rules! impl_derint {
    ($t:ty, $l:literal) => {
        impl DerInt<$l> for $t {
            fn limbs(&self) -> Vec<u64> {
                ul(self)
            }
            fn make(l: &[u64]) -> Self {
                u::<$l>(l)
            }
        }
    };
}
impl_derint!(U64, 1);
impl_derint!(U128, 2);
impl_derint!(U192, 3);
impl_derint!(U256, 4);
impl_derint!(U384, 6);
impl_derint!(U512, 8);
impl_derint!(U1024, 16);
impl_derint!(U2048, 32);
impl_derint!(U8192, 128);

fn class_value(v: &BigUint, nbytes: usize, rep: &mut Rep) {
    if v.is_zero() {
        rep.class("zero_value");
    }
    let b = min_be(v);
    if let Some(&t) = b.first() {
        if t == 0x80 {
            rep.class("top_octet_0x80");
        }
        if t == 0x7f {
            rep.class("top_octet_0x7f");
        }
        if b.len() == nbytes {
            rep.class("len_eq_cap");
            if t & 0x80 != 0 {
                rep.class("len_eq_cap_plus_1_leading_zero");
            }
        }
        if b.len() + (t >> 7) as usize >= 128 {
            rep.class("der_long_form_length");
        }
    }
    if b.len() == 1 && b[0] < 0x80 {
        rep.class("rlp_single_byte_lt_0x80");
    }
}

fn der_encode<T: DerInt<L>, const L: usize>(c: &Case, rep: &mut Rep) {
    let x = &c.a[0];
    let v = to_big(x);
    class_value(&v, 8 * L, rep);
    rep.nontrivial();
    let want = der_encode_oracle(&v);
    let t = T::make(x);
    match t.to_der() {
        Ok(got) => {
            if got != want {
                rep.fail("der.to_der.canonical", format!("got {} want {}", hexs(&got), hexs(&want)));
            }
            match T::from_der(&got) {
                Ok(back) => {
                    if back.limbs() != *x {
                        rep.fail("der.roundtrip", format!("decoded {}", hex(&back.limbs())));
                    }
                }
                Err(e) => rep.fail("der.roundtrip", format!("decode of own encoding failed: {}", e)),
            }
        }
        Err(e) => rep.fail("der.to_der", format!("encode failed: {}", e)),
    }
    let mut buf = vec![0u8; want.len() + 8];
    match t.encode_to_slice(&mut buf) {
        Ok(s) => {
            if s != want.as_slice() {
                rep.fail("der.encode_to_slice.canonical", format!("got {}", hexs(s)));
            }
        }
        Err(e) => rep.fail("der.encode_to_slice", format!("{}", e)),
    }
    match t.encoded_len() {
        Ok(l) => {
            if u32::from(l) as usize != want.len() {
                rep.fail("der.encoded_len", format!("got {} want {}", u32::from(l), want.len()));
            }
        }
        Err(e) => rep.fail("der.encoded_len", format!("{}", e)),
    }
    // a buffer one byte too small must give an error, not a truncated encoding or a panic
    let mut small = vec![0u8; want.len() - 1];
    if t.encode_to_slice(&mut small).is_ok() {
        rep.fail("der.encode_to_slice.short_buffer", "encoded into a buffer that is too small".into());
    }
}
fn c_der_encode(c: &Case, rep: &mut Rep) {
    for_der_width!(c.w[0], der_encode, c, rep)
}

fn hexs(b: &[u8]) -> String {
    b.iter().map(|x| format!("{:02x}", x)).collect()
}

fn der_decode<T: DerInt<L>, const L: usize>(c: &Case, rep: &mut Rep) {
    let bytes = &c.b[0];
    let nbytes = 8 * L;
    rep.nontrivial();
    let why = der_decode_oracle(bytes);
    match &why {
        DerWhy::Ok(v) => {
            class_value(v, nbytes, rep);
            if v.bits() as usize > 8 * nbytes {
                rep.class("oversize");
            }
        }
        DerWhy::BadTag => rep.class("bad_tag"),
        DerWhy::BadLength => rep.class("bad_length_field"),
        DerWhy::Truncated => rep.class("truncated"),
        DerWhy::Trailing => rep.class("trailing_bytes"),
        DerWhy::Empty => rep.class("empty_content"),
        DerWhy::Negative => rep.class("negative"),
        DerWhy::LeadingZero => rep.class("noncanonical_leading_zero"),
    }
    let want: Option<Vec<u64>> = match &why {
        DerWhy::Ok(v) if v.bits() as usize <= 8 * nbytes => Some(from_big(v, L)),
        _ => None,
    };
    let judge = |rep: &mut Rep, rel: &str, got: Result<Result<T, der::Error>, String>| match got {
        Err(m) => rep.fail(&format!("{}.{}", rel, panic_sig(&m)), format!("decoder panicked on {}: {}", hexs(bytes), m)),
        Ok(Ok(v)) => match &want {
            Some(w) => {
                if v.limbs() != *w {
                    rep.fail(rel, format!("{} decoded as {} want {}", hexs(bytes), hex(&v.limbs()), hex(w)));
                }
            }
            None => rep.fail(&format!("{}.fails_closed", rel), format!("accepted {} ({:?}) as {}", hexs(bytes), why, hex(&v.limbs()))),
        },
        Ok(Err(e)) => {
            if want.is_some() {
                rep.fail(&format!("{}.accepts_canonical", rel), format!("rejected canonical {}: {}", hexs(bytes), e));
            }
        }
    };
    judge(rep, "der.from_der", catch(|| T::from_der(bytes)));
    // through AnyRef (generic TLV) — same verdict required
    judge(rep, "der.TryFrom<AnyRef>", catch(|| AnyRef::from_der(bytes).and_then(|a| T::try_from(a))));
    // through UintRef on the raw content octets of a syntactically well-framed INTEGER
    if let Ok(u) = UintRef::from_der(bytes) {
        judge(rep, "der.TryFrom<UintRef>", catch(|| T::try_from(u)));
    }
}
fn c_der_decode(c: &Case, rep: &mut Rep) {
    for_der_width!(c.w[0], der_decode, c, rep)
}

macro_rules! for_rlp_width {
    ($w:expr, $f:ident, $($a:expr),*) => {
        match $w {
            1 => $f::<1>($($a),*),
            2 => $f::<2>($($a),*),
            3 => $f::<3>($($a),*),
            4 => $f::<4>($($a),*),
            w => panic!("harness: RLP width {}", w),
        }
    };
}

fn rlp_encode<const L: usize>(c: &Case, rep: &mut Rep)
where
    Uint<L>: rlp::Encodable + rlp::Decodable + Encoding,
{
    let x = &c.a[0];
    let v = to_big(x);
    class_value(&v, 8 * L, rep);
    rep.nontrivial();
    let want = rlp_encode_oracle(&v);
    let ux = u::<L>(x);
    let got = rlp::encode(&ux).to_vec();
    if got != want {
        rep.fail("rlp.encode.canonical", format!("got {} want {}", hexs(&got), hexs(&want)));
    }
    let mut st = rlp::RlpStream::new();
    st.append(&ux);
    if st.out().to_vec() != want {
        rep.fail("rlp.RlpStream::append.canonical", "mismatch".into());
    }
    match rlp::decode::<Uint<L>>(&got) {
        Ok(b) => {
            if ul(&b) != *x {
                rep.fail("rlp.roundtrip", format!("decoded {}", hex(&ul(&b))));
            }
        }
        Err(e) => rep.fail("rlp.roundtrip", format!("decode of own encoding failed: {:?}", e)),
    }
}
fn c_rlp_encode(c: &Case, rep: &mut Rep) {
    for_rlp_width!(c.w[0], rlp_encode, c, rep)
}

fn rlp_decode<const L: usize>(c: &Case, rep: &mut Rep)
where
    Uint<L>: rlp::Encodable + rlp::Decodable + Encoding,
{
    let bytes = &c.b[0];
    rep.nontrivial();
    let why = rlp_decode_oracle(bytes);
    let (want, framing): (Option<Vec<u64>>, bool) = match &why {
        RlpWhy::Ok(v) => {
            class_value(v, 8 * L, rep);
            if !fits(v, L) {
                rep.class("rlp_oversize");
            }
            (if fits(v, L) { Some(from_big(v, L)) } else { None }, false)
        }
        RlpWhy::FramingNonCanonical(v) => {
            rep.class("rlp_framing_noncanonical");
            (None, fits(v, L))
        }
        RlpWhy::Bad => {
            if bytes.len() >= 2 && bytes[0] > 0x80 && bytes[0] <= 0xb7 && bytes[1] == 0 {
                rep.class("rlp_leading_zero");
            }
            (None, false)
        }
    };
    if framing {
        // non-canonical framing is the `rlp` crate's business; keep its own signature
        rep.key_prefix = "framing:".into();
    }
    for (rel, got) in [("rlp.decode", catch(|| rlp::decode::<Uint<L>>(bytes))), ("rlp.Rlp::as_val", catch(|| rlp::Rlp::new(bytes).as_val::<Uint<L>>()))] {
        match got {
            Err(m) => rep.fail(&format!("{}.{}", rel, panic_sig(&m)), format!("decoder panicked on {}: {}", hexs(bytes), m)),
            Ok(Ok(v)) => match &want {
                Some(w) => {
                    if ul(&v) != *w {
                        rep.fail(rel, format!("{} decoded as {} want {}", hexs(bytes), hex(&ul(&v)), hex(w)));
                    }
                }
                None => rep.fail(&format!("{}.fails_closed", rel), format!("accepted {} ({:?}) as {}", hexs(bytes), why, hex(&ul(&v)))),
            },
            Ok(Err(e)) => {
                if want.is_some() {
                    rep.fail(&format!("{}.accepts_canonical", rel), format!("rejected canonical {}: {:?}", hexs(bytes), e));
                }
            }
        }
    }
}
fn c_rlp_decode(c: &Case, rep: &mut Rep) {
    for_rlp_width!(c.w[0], rlp_decode, c, rep)
}

// ---------------------------------------------------------------------------------------------

fn gen_value(r: &mut Rng, n: usize) -> Vec<u64> {
    let bits = 64 * n;
    let v = match r.below(10) {
        0 => BigUint::zero(),
        1 => BigUint::one(),
        2 => mask(bits),
        3..=6 => {
            // top octet 0x7f / 0x80 / 0xff / 0x01 at a chosen octet count
            let k = 1 + r.usize_below(8 * n);
            let top = *r.pick(&[0x7fu8, 0x80, 0xff, 0x01, 0x81]);
            let mut b = r.bytes(k);
            b[0] = top;
            if r.chance(1, 3) {
                for x in b.iter_mut().skip(1) {
                    *x = 0;
                }
            }
            BigUint::from_bytes_be(&b)
        }
        7 => BigUint::from(r.below(256)),
        _ => to_big(&gn::uint(r, n)),
    };
    from_big(&v, n)
}

fn mutate(r: &mut Rng, enc: &[u8]) -> Vec<u8> {
    let mut b = enc.to_vec();
    match r.below(10) {
        0 => {
            let k = r.usize_below(b.len() + 1);
            b.truncate(k);
        }
        1 => {
            let extra = 1 + r.usize_below(3);
            let tail = r.bytes(extra);
            b.extend_from_slice(&tail);
        }
        2 => {
            if !b.is_empty() {
                let p = r.usize_below(b.len());
                b[p] ^= 1 << r.below(8);
            }
        }
        3 => {
            if !b.is_empty() {
                let p = r.usize_below(b.len().min(4));
                b[p] = *r.pick(&[0x00u8, 0x01, 0x02, 0x03, 0x04, 0x22, 0x30, 0x7f, 0x80, 0x81, 0x82, 0xff]);
            }
        }
        4 => {
            // insert a superfluous leading zero octet in the content (fix the length octet when short form)
            if b.len() >= 3 && b[1] < 0x7f {
                b.insert(2, 0);
                b[1] += 1;
            }
        }
        5 => {
            // non-minimal long-form length for short content
            if b.len() >= 2 && b[1] < 0x80 {
                let l = b[1];
                b.splice(1..2, [0x81, l]);
            }
        }
        6 => {
            // leading-zero octet in a long-form length
            if b.len() >= 2 && b[1] < 0x80 {
                let l = b[1];
                b.splice(1..2, [0x82, 0x00, l]);
            }
        }
        7 => {
            // indefinite length / reserved
            if b.len() >= 2 {
                b[1] = *r.pick(&[0x80u8, 0xff, 0x84, 0x88]);
            }
        }
        8 => {
            // drop the padding zero of a value with the top bit set (=> negative)
            if b.len() >= 4 && b[2] == 0 && b[1] < 0x80 {
                b.remove(2);
                b[1] -= 1;
            }
        }
        _ => {
            let p = r.usize_below(b.len() + 1);
            let k = 1 + r.usize_below(2);
            let ins = r.bytes(k);
            b.splice(p..p, ins);
        }
    }
    b
}

/// hand-built DER messages around the capacity of an nbytes target
fn der_boundary(r: &mut Rng, nbytes: usize) -> Vec<u8> {
    let len = match r.below(6) {
        0 => nbytes,
        1 => nbytes + 1,
        2 => nbytes + 2,
        3 => nbytes.saturating_sub(1).max(1),
        4 => nbytes + 1 + r.usize_below(4),
        _ => 1 + r.usize_below(nbytes + 4),
    };
    let mut content = r.bytes(len);
    content[0] = *r.pick(&[0x00u8, 0x7f, 0x80, 0xff, 0x01]);
    if len > 1 && r.bool() {
        content[1] = *r.pick(&[0x00u8, 0x7f, 0x80, 0xff]);
    }
    let mut out = vec![0x02];
    if len < 128 {
        out.push(len as u8);
    } else if len < 256 {
        out.extend_from_slice(&[0x81, len as u8]);
    } else {
        out.extend_from_slice(&[0x82, (len >> 8) as u8, len as u8]);
    }
    out.extend_from_slice(&content);
    out
}

fn rlp_boundary(r: &mut Rng, nbytes: usize) -> Vec<u8> {
    let len = match r.below(5) {
        0 => nbytes,
        1 => nbytes + 1,
        2 => 1,
        3 => 0,
        _ => r.usize_below(nbytes + 4),
    };
    let mut p = r.bytes(len);
    if len > 0 {
        p[0] = *r.pick(&[0x00u8, 0x01, 0x7f, 0x80, 0xff]);
    }
    let mut out = Vec::new();
    match r.below(6) {
        0 if len == 1 => out.push(p[0]), // raw single byte (valid only if < 0x80)
        1 => {
            // long form even for a short payload
            out.push(0xb8);
            out.push(len as u8);
            out.extend_from_slice(&p);
        }
        2 => {
            // list prefix
            out.push(0xc0 + len.min(55) as u8);
            out.extend_from_slice(&p);
        }
        _ => {
            out.push(0x80 + len.min(55) as u8);
            out.extend_from_slice(&p);
        }
    }
    out
}

pub fn workload(ctx: &mut Ctx) {
    let der_widths = [1usize, 2, 3, 4, 6, 8, 16, 32, 128];
    for &l in &der_widths {
        let cnt = match l {
            1..=8 => 300_000,
            16 | 32 => 60_000,
            _ => 4_000,
        };
        // every octet count with every boundary top octet
        for k in 1..=(8 * l) {
            if !ctx.mine() {
                continue;
            }
            for top in [0x01u8, 0x7f, 0x80, 0xff] {
                let mut b = vec![0u8; k];
                b[0] = top;
                if k > 1 {
                    b[k - 1] = 1;
                }
                let x = from_big(&BigUint::from_bytes_be(&b), l);
                ctx.exec(Case::new("der.encode").w(l).a(x), c_der_encode);
            }
        }
        for _ in 0..ctx.iters(cnt) {
            let x = gen_value(&mut ctx.rng, l);
            let enc = der_encode_oracle(&to_big(&x));
            ctx.exec(Case::new("der.encode").w(l).a(x), c_der_encode);
            // the canonical encoding itself, mutations of it, and boundary constructions
            ctx.exec(Case::new("der.decode").w(l).b(enc.clone()), c_der_decode);
            let m = mutate(&mut ctx.rng, &enc);
            ctx.exec(Case::new("der.decode").w(l).b(m), c_der_decode);
            let b = der_boundary(&mut ctx.rng, 8 * l);
            ctx.exec(Case::new("der.decode").w(l).b(b), c_der_decode);
            if ctx.rng.chance(1, 8) {
                let n = ctx.rng.usize_below(12);
                let g = ctx.rng.bytes(n);
                ctx.exec(Case::new("der.decode").w(l).b(g), c_der_decode);
            }
        }
    }
    for &l in &[1usize, 2, 3, 4] {
        for k in 1..=(8 * l) {
            if !ctx.mine() {
                continue;
            }
            for top in [0x01u8, 0x7f, 0x80, 0xff] {
                let mut b = vec![0u8; k];
                b[0] = top;
                let x = from_big(&BigUint::from_bytes_be(&b), l);
                ctx.exec(Case::new("rlp.encode").w(l).a(x), c_rlp_encode);
            }
        }
        for _ in 0..ctx.iters(500_000) {
            let x = gen_value(&mut ctx.rng, l);
            let enc = rlp_encode_oracle(&to_big(&x));
            ctx.exec(Case::new("rlp.encode").w(l).a(x), c_rlp_encode);
            ctx.exec(Case::new("rlp.decode").w(l).b(enc.clone()), c_rlp_decode);
            let m = mutate(&mut ctx.rng, &enc);
            ctx.exec(Case::new("rlp.decode").w(l).b(m), c_rlp_decode);
            let b = rlp_boundary(&mut ctx.rng, 8 * l);
            ctx.exec(Case::new("rlp.decode").w(l).b(b), c_rlp_decode);
            if ctx.rng.chance(1, 8) {
                let n = ctx.rng.usize_below(10);
                let g = ctx.rng.bytes(n);
                ctx.exec(Case::new("rlp.decode").w(l).b(g), c_rlp_decode);
            }
        }
    }
}
