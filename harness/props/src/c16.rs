//! C16 — byte, hex, word and primitive conversions are lossless, positional and strict.
use crate::util::*;
use crate::{dispatch, dispatch2};
use crypto_bigint::{
    ArrayDecoding, ArrayEncoding, BoxedUint, DecodeError, Encoding, Int, Limb, Uint, U64, U128, U192, U256, U384, U512, U1024, U2048,
};

pub const DEF: PropDef = PropDef {
    id: "C16",
    workload,
    ops,
    mandatory: &["invalid_hex_adjacent", "hex_high_bit_byte", "hex_multibyte_utf8", "prec_not_mult_8", "prec_not_mult_64", "value_eq_2pow_prec", "len_eq_cap", "len_eq_cap_plus_1", "prec_0", "asymmetric_bytes", "resize_truncates", "hex_every_position"],
    rule: "cases: (1) values for every byte / hex / array / word / limb / serde / fmt form of Uint (1..8,16,32 limbs), Int and Limb with asymmetric contents (every byte distinct) so that byte order and position mistakes show; (2) hostile hex strings: every byte value 0x00..=0xff at every position of an otherwise valid string (exhaustive at 1 limb, sampled above) plus multi-byte UTF-8 and wrong lengths, for Uint/Int (documented panic iff malformed) and BoxedUint (none iff bad character, panic iff wrong length); (3) BoxedUint decoders for every bits_precision 0..=520 x every length 0..=precision/8+9 with contents that put the value just below / at / above 2^precision: Err(InputSize) iff len > ceil(prec/8), Err(Precision) iff value >= 2^prec; (4) primitive, concat/split, resize, widen/shorten conversions. non-trivial = named class; distinct by hash",
};

pub fn ops() -> Vec<(&'static str, Checker)> {
    vec![
        ("uint.bytes", c_uint_bytes),
        ("uint.hex_hostile", c_uint_hex_hostile),
        ("uint.prim", c_uint_prim),
        ("uint.concat_split", c_uint_concat_split),
        ("uint.resize", c_uint_resize),
        ("limb.encoding", c_limb),
        ("boxed.decode", c_boxed_decode),
        ("boxed.hex_hostile", c_boxed_hex_hostile),
        ("boxed.convert", c_boxed_convert),
        ("int.from_prim", crate::c13::c_from_prim),
        ("int.resize", crate::c13::c_resize),
    ]
}

fn be_bytes(x: &[u64]) -> Vec<u8> {
    x.iter().rev().flat_map(|l| l.to_be_bytes()).collect()
}
fn le_bytes(x: &[u64]) -> Vec<u8> {
    x.iter().flat_map(|l| l.to_le_bytes()).collect()
}
fn hex_lower(bytes: &[u8]) -> String {
    bytes.iter().map(|b| format!("{:02x}", b)).collect()
}
fn exb(rep: &mut Rep, rel: &str, got: &[u8], want: &[u8]) {
    if got != want {
        rep.fail(rel, format!("got {} want {}", hex_lower(got), hex_lower(want)));
    }
}
fn ex(rep: &mut Rep, rel: &str, got: &[u64], want: &[u64]) {
    if got != want {
        rep.fail(rel, format!("got {} want {}", hex(got), hex(want)));
    }
}

/// positional definition: big-endian byte i of an n-byte value x is floor(x / 256^(n-1-i)) mod 256
fn positional_be(x: &BigUint, n: usize) -> Vec<u8> {
    (0..n).map(|i| ((x >> (8 * (n - 1 - i))) & BigUint::from(255u32)).to_u64_digits().first().copied().unwrap_or(0) as u8).collect()
}

fn uint_bytes<const L: usize>(c: &Case, rep: &mut Rep) {
    let x = &c.a[0];
    let n = 8 * L;
    let xb = to_big(x);
    let be = positional_be(&xb, n);
    let le: Vec<u8> = be.iter().rev().copied().collect();
    if be != le {
        rep.class("asymmetric_bytes");
    }
    debug_assert_eq!(be, be_bytes(x));
    let ux = u::<L>(x);
    // slices
    ex(rep, "from_be_slice", &ul(&Uint::<L>::from_be_slice(&be)), x);
    ex(rep, "from_le_slice", &ul(&Uint::<L>::from_le_slice(&le)), x);
    // hex (const fns, both cases)
    let hx = hex_lower(&be);
    ex(rep, "from_be_hex", &ul(&Uint::<L>::from_be_hex(&hx)), x);
    ex(rep, "from_be_hex.upper", &ul(&Uint::<L>::from_be_hex(&hx.to_uppercase())), x);
    let hxl = hex_lower(&le);
    ex(rep, "from_le_hex", &ul(&Uint::<L>::from_le_hex(&hxl)), x);
    ex(rep, "from_le_hex.upper", &ul(&Uint::<L>::from_le_hex(&hxl.to_uppercase())), x);
    let ix = Int::<L>::from_be_hex(&hx);
    ex(rep, "Int::from_be_hex", &il(&ix), x);
    // words / limbs
    let mut w = [0u64; L];
    w.copy_from_slice(x);
    ex(rep, "from_words.to_words", &Uint::<L>::from_words(w).to_words(), x);
    ex(rep, "as_words", ux.as_words(), x);
    let limbs: Vec<u64> = ux.as_limbs().iter().map(|l| l.0).collect();
    ex(rep, "as_limbs", &limbs, x);
    let limbs: Vec<u64> = ux.to_limbs().iter().map(|l| l.0).collect();
    ex(rep, "to_limbs", &limbs, x);
    let back: [u64; L] = ux.into();
    ex(rep, "Into<[Word;L]>", &back, x);
    ex(rep, "From<[Word;L]>", &ul(&Uint::<L>::from(w)), x);
    let la: [Limb; L] = ux.into();
    ex(rep, "From<[Limb;L]>", &ul(&Uint::<L>::from(la)), x);
    ex(rep, "Uint::new", &ul(&Uint::<L>::new(la)), x);
    let mut t = Uint::<L>::ZERO;
    t.as_words_mut().copy_from_slice(x);
    ex(rep, "as_words_mut", &ul(&t), x);
    let mut t = Uint::<L>::ZERO;
    for (d, s) in t.as_limbs_mut().iter_mut().zip(x) {
        *d = Limb(*s);
    }
    ex(rep, "as_limbs_mut", &ul(&t), x);
    ex(rep, "as_int.as_uint", &ul(ux.as_int().as_uint()), x);
    // formatting
    let upper = hx.to_uppercase();
    let bin: String = be.iter().map(|b| format!("{:08b}", b)).collect();
    for (rel, got, want) in [
        ("fmt.LowerHex", format!("{:x}", ux), hx.clone()),
        ("fmt.UpperHex", format!("{:X}", ux), upper.clone()),
        ("fmt.LowerHex.alt", format!("{:#x}", ux), format!("0x{}", hx)),
        ("fmt.UpperHex.alt", format!("{:#X}", ux), format!("0x{}", upper)),
        ("fmt.Display", format!("{}", ux), upper.clone()),
        ("fmt.Debug", format!("{:?}", ux), format!("Uint(0x{})", upper)),
        ("fmt.Binary", format!("{:b}", ux), bin.clone()),
        ("fmt.Binary.alt", format!("{:#b}", ux), format!("0b{}", bin)),
    ] {
        if got != want {
            rep.fail(rel, format!("got {} want {}", got, want));
        }
    }
}

/// forms that exist only for the named aliases (inherent to_*_bytes, Encoding, ArrayEncoding, serde)
macro_rules! alias_forms {
    ($c:expr, $rep:expr, $alias:ty, $l:literal) => {{
        let c: &Case = $c;
        let rep: &mut Rep = $rep;
        if c.w[0] == $l {
            let x = &c.a[0];
            let be = be_bytes(x);
            let le = le_bytes(x);
            let ux: $alias = u::<$l>(x);
            exb(rep, "to_be_bytes", &ux.to_be_bytes(), &be);
            exb(rep, "to_le_bytes", &ux.to_le_bytes(), &le);
            exb(rep, "Encoding::to_be_bytes", Encoding::to_be_bytes(&ux).as_ref(), &be);
            exb(rep, "Encoding::to_le_bytes", Encoding::to_le_bytes(&ux).as_ref(), &le);
            let mut r: [u8; 8 * $l] = [0u8; 8 * $l];
            r.copy_from_slice(&be);
            ex(rep, "Encoding::from_be_bytes", &ul(&<$alias as Encoding>::from_be_bytes(r)), x);
            r.copy_from_slice(&le);
            ex(rep, "Encoding::from_le_bytes", &ul(&<$alias as Encoding>::from_le_bytes(r)), x);
            // serde: binary (bincode) and human-readable (JSON => hex string branch of serdect)
            match bincode::serialize(&ux) {
                Ok(bytes) => {
                    if !bytes.ends_with(&le) {
                        rep.fail("serde.bincode.layout", format!("serialized {} does not end with the LE bytes", hex_lower(&bytes)));
                    }
                    match bincode::deserialize::<$alias>(&bytes) {
                        Ok(v) => ex(rep, "serde.bincode.roundtrip", &ul(&v), x),
                        Err(e) => rep.fail("serde.bincode.roundtrip", format!("deserialize failed: {}", e)),
                    }
                    // truncated input must fail, not produce a value
                    if bincode::deserialize::<$alias>(&bytes[..bytes.len() - 1]).is_ok() {
                        rep.fail("serde.bincode.truncated_accepted", "truncated encoding accepted".into());
                    }
                }
                Err(e) => rep.fail("serde.bincode.serialize", format!("{}", e)),
            }
            match serde_json::to_string(&ux) {
                Ok(s) => {
                    let want = format!("\"{}\"", hex_lower(&le));
                    if s != want {
                        rep.fail("serde.json.hex", format!("got {} want {}", s, want));
                    }
                    match serde_json::from_str::<$alias>(&s) {
                        Ok(v) => ex(rep, "serde.json.roundtrip", &ul(&v), x),
                        Err(e) => rep.fail("serde.json.roundtrip", format!("{}", e)),
                    }
                    // one hex digit short / one non-hex character: must be rejected
                    let mut bad = s.clone();
                    bad.replace_range(1..2, "g");
                    if serde_json::from_str::<$alias>(&bad).is_ok() {
                        rep.fail("serde.json.nonhex_accepted", format!("accepted {}", bad));
                    }
                }
                Err(e) => rep.fail("serde.json.serialize", format!("{}", e)),
            }
        }
    }};
}
macro_rules! array_forms {
    ($c:expr, $rep:expr, $alias:ty, $l:literal) => {{
        let c: &Case = $c;
        let rep: &mut Rep = $rep;
        if c.w[0] == $l {
            let x = &c.a[0];
            let be = be_bytes(x);
            let le = le_bytes(x);
            let ux: $alias = u::<$l>(x);
            exb(rep, "ArrayEncoding::to_be_byte_array", &ux.to_be_byte_array(), &be);
            exb(rep, "ArrayEncoding::to_le_byte_array", &ux.to_le_byte_array(), &le);
            let mut a = crypto_bigint::ByteArray::<$alias>::default();
            a.copy_from_slice(&be);
            ex(rep, "ArrayEncoding::from_be_byte_array", &ul(&<$alias>::from_be_byte_array(a.clone())), x);
            ex(rep, "ArrayDecoding::into_uint_be", &ul(&a.into_uint_be()), x);
            let mut a = crypto_bigint::ByteArray::<$alias>::default();
            a.copy_from_slice(&le);
            ex(rep, "ArrayEncoding::from_le_byte_array", &ul(&<$alias>::from_le_byte_array(a.clone())), x);
            ex(rep, "ArrayDecoding::into_uint_le", &ul(&a.into_uint_le()), x);
        }
    }};
}

fn c_uint_bytes(c: &Case, rep: &mut Rep) {
    dispatch!(c.w[0], [1, 2, 3, 4, 5, 6, 7, 8, 16, 32], uint_bytes(c, rep));
    alias_forms!(c, rep, U64, 1);
    alias_forms!(c, rep, U128, 2);
    alias_forms!(c, rep, U192, 3);
    alias_forms!(c, rep, U256, 4);
    alias_forms!(c, rep, crypto_bigint::U320, 5);
    alias_forms!(c, rep, U384, 6);
    alias_forms!(c, rep, crypto_bigint::U448, 7);
    alias_forms!(c, rep, U512, 8);
    alias_forms!(c, rep, U1024, 16);
    alias_forms!(c, rep, U2048, 32);
    array_forms!(c, rep, U64, 1);
    array_forms!(c, rep, U128, 2);
    array_forms!(c, rep, U192, 3);
    array_forms!(c, rep, U256, 4);
    array_forms!(c, rep, U384, 6);
    array_forms!(c, rep, crypto_bigint::U448, 7);
    array_forms!(c, rep, U512, 8);
    array_forms!(c, rep, U1024, 16);
    array_forms!(c, rep, U2048, 32);
}

fn is_hex(b: u8) -> bool {
    b.is_ascii_hexdigit()
}
fn nib(b: u8) -> u8 {
    (b as char).to_digit(16).unwrap() as u8
}

/// oracle decode of a hex byte string (big-endian bytes), None if malformed
fn hex_decode(bytes: &[u8], nbytes: usize) -> Option<Vec<u8>> {
    if bytes.len() != 2 * nbytes || !bytes.iter().all(|&b| is_hex(b)) {
        return None;
    }
    Some(bytes.chunks(2).map(|p| nib(p[0]) << 4 | nib(p[1])).collect())
}

fn class_hex(bytes: &[u8], rep: &mut Rep) {
    for &b in bytes {
        if matches!(b, b'/' | b':' | b'@' | b'G' | b'`' | b'g') {
            rep.class("invalid_hex_adjacent");
        }
        if b >= 0x80 {
            rep.class("hex_high_bit_byte");
        }
    }
}

fn uint_hex_hostile<const L: usize>(c: &Case, rep: &mut Rep) {
    let raw = &c.b[0];
    rep.nontrivial();
    class_hex(raw, rep);
    let s = match std::str::from_utf8(raw) {
        Ok(s) => s,
        Err(_) => return, // not expressible as &str: out of the API's reach
    };
    if s.len() != s.chars().count() {
        rep.class("hex_multibyte_utf8");
    }
    let n = 8 * L;
    let want = hex_decode(raw, n);
    // big-endian
    match catch(|| Uint::<L>::from_be_hex(s)) {
        Ok(v) => match &want {
            Some(bytes) => ex(rep, "hostile.from_be_hex", &ul(&v), &ul(&Uint::<L>::from_be_slice(bytes))),
            None => rep.fail("hostile.from_be_hex.rejects_malformed.missing_panic", format!("accepted {:?} as {}", s, hex(&ul(&v)))),
        },
        Err(m) => {
            if want.is_some() {
                rep.fail("hostile.from_be_hex.accepts_wellformed", format!("panicked on {:?}: {}", s, m));
            }
        }
    }
    match catch(|| Uint::<L>::from_le_hex(s)) {
        Ok(v) => match &want {
            Some(bytes) => ex(rep, "hostile.from_le_hex", &ul(&v), &ul(&Uint::<L>::from_le_slice(bytes))),
            None => rep.fail("hostile.from_le_hex.rejects_malformed.missing_panic", format!("accepted {:?} as {}", s, hex(&ul(&v)))),
        },
        Err(m) => {
            if want.is_some() {
                rep.fail("hostile.from_le_hex.accepts_wellformed", format!("panicked on {:?}: {}", s, m));
            }
        }
    }
    match catch(|| Int::<L>::from_be_hex(s)) {
        Ok(v) => match &want {
            Some(bytes) => ex(rep, "hostile.Int::from_be_hex", &il(&v), &ul(&Uint::<L>::from_be_slice(bytes))),
            None => rep.fail("hostile.Int::from_be_hex.rejects_malformed.missing_panic", format!("accepted {:?}", s)),
        },
        Err(m) => {
            if want.is_some() {
                rep.fail("hostile.Int::from_be_hex.accepts_wellformed", format!("panicked: {}", m));
            }
        }
    }
    // slices of the wrong length: documented panic
    let k = raw.len().min(64);
    if k != n {
        if catch(|| Uint::<L>::from_be_slice(&raw[..k])).is_ok() {
            rep.fail("hostile.from_be_slice.wrong_length_panics", format!("accepted {} bytes", k));
        }
        if catch(|| Uint::<L>::from_le_slice(&raw[..k])).is_ok() {
            rep.fail("hostile.from_le_slice.wrong_length_panics", format!("accepted {} bytes", k));
        }
    }
}
fn c_uint_hex_hostile(c: &Case, rep: &mut Rep) {
    dispatch!(c.w[0], [1, 2, 4], uint_hex_hostile(c, rep))
}

fn uint_prim<const L: usize>(c: &Case, rep: &mut Rep) {
    let v: u128 = ((c.s[1] as u128) << 64) | c.s[0] as u128;
    rep.nontrivial();
    let lim = |v: u128| {
        let mut o = vec![0u64; L];
        o[0] = v as u64;
        if L > 1 {
            o[1] = (v >> 64) as u64;
        }
        o
    };
    macro_rules! prim {
        ($t:ty, $f:ident, $tag:expr) => {{
            let p = v as $t;
            ex(rep, concat!("from_", $tag), &ul(&Uint::<L>::$f(p)), &lim(p as u128));
            let got: Uint<L> = Uint::from(p);
            ex(rep, concat!("From<", $tag, ">"), &ul(&got), &lim(p as u128));
        }};
    }
    prim!(u8, from_u8, "u8");
    prim!(u16, from_u16, "u16");
    prim!(u32, from_u32, "u32");
    prim!(u64, from_u64, "u64");
    if L >= 2 {
        prim!(u128, from_u128, "u128");
        ex(rep, "from_wide_word", &ul(&Uint::<L>::from_wide_word(v)), &lim(v));
    }
    ex(rep, "from_word", &ul(&Uint::<L>::from_word(v as u64)), &lim(v as u64 as u128));
    let got: Uint<L> = Uint::from(Limb(v as u64));
    ex(rep, "From<Limb>", &ul(&got), &lim(v as u64 as u128));
}
fn c_uint_prim(c: &Case, rep: &mut Rep) {
    dispatch!(c.w[0], [1, 2, 3, 4, 8], uint_prim(c, rep));
    let v: u128 = ((c.s[1] as u128) << 64) | c.s[0] as u128;
    if c.w[0] == 1 {
        let back: u64 = U64::from_u64(v as u64).into();
        if back != v as u64 {
            rep.fail("Into<u64>", "value changed".into());
        }
    }
    if c.w[0] == 2 {
        let back: u128 = U128::from_u128(v).into();
        if back != v {
            rep.fail("Into<u128>", "value changed".into());
        }
    }
}

fn c_uint_concat_split(c: &Case, rep: &mut Rep) {
    let (lo, hi) = (&c.a[0], &c.a[1]);
    rep.nontrivial();
    let mut cat = lo.clone();
    cat.extend_from_slice(hi);
    macro_rules! even {
        ($h:literal, $w:literal) => {
            if c.w[0] == $h && c.w[1] == $h {
                let (ul_, uh) = (u::<$h>(lo), u::<$h>(hi));
                let got: Uint<$w> = ul_.concat(&uh);
                ex(rep, "concat", &ul(&got), &cat);
                let got: Uint<$w> = crypto_bigint::Concat::concat(&ul_, &uh);
                ex(rep, "Concat::concat", &ul(&got), &cat);
                let wide = u::<$w>(&cat);
                let (a, b): (Uint<$h>, Uint<$h>) = wide.split();
                ex(rep, "split.lo", &ul(&a), lo);
                ex(rep, "split.hi", &ul(&b), hi);
                let (a, b) = crypto_bigint::Split::split(&wide);
                ex(rep, "Split::split.lo", &ul(&a), lo);
                ex(rep, "Split::split.hi", &ul(&b), hi);
                let got: Uint<$w> = Uint::from((ul_, uh));
                ex(rep, "From<(lo,hi)>", &ul(&got), &cat);
                let got: Uint<$w> = Uint::from(&(ul_, uh));
                ex(rep, "From<&(lo,hi)>", &ul(&got), &cat);
                let (a, b): (Uint<$h>, Uint<$h>) = wide.into();
                ex(rep, "Into<(lo,hi)>.lo", &ul(&a), lo);
                ex(rep, "Into<(lo,hi)>.hi", &ul(&b), hi);
            }
        };
    }
    even!(1, 2);
    even!(2, 4);
    even!(3, 6);
    even!(4, 8);
    even!(8, 16);
    even!(16, 32);
    macro_rules! mixed {
        ($l:literal, $h:literal, $w:literal) => {
            if c.w[0] == $l && c.w[1] == $h {
                let (ul_, uh) = (u::<$l>(lo), u::<$h>(hi));
                let got: Uint<$w> = Uint::concat_mixed(&ul_, &uh);
                ex(rep, "concat_mixed", &ul(&got), &cat);
                let got: Uint<$w> = crypto_bigint::ConcatMixed::concat_mixed(&ul_, &uh);
                ex(rep, "ConcatMixed::concat_mixed", &ul(&got), &cat);
                let wide = u::<$w>(&cat);
                let (a, b): (Uint<$l>, Uint<$h>) = wide.split_mixed();
                ex(rep, "split_mixed.lo", &ul(&a), lo);
                ex(rep, "split_mixed.hi", &ul(&b), hi);
                let (a, b): (Uint<$l>, Uint<$h>) = crypto_bigint::SplitMixed::split_mixed(&wide);
                ex(rep, "SplitMixed::split_mixed.lo", &ul(&a), lo);
                ex(rep, "SplitMixed::split_mixed.hi", &ul(&b), hi);
            }
        };
    }
    mixed!(1, 2, 3);
    mixed!(2, 1, 3);
    mixed!(1, 3, 4);
    mixed!(3, 1, 4);
    mixed!(2, 3, 5);
    mixed!(4, 1, 5);
    mixed!(1, 7, 8);
    mixed!(5, 3, 8);
    mixed!(9, 7, 16);
}

fn uint_resize<const L: usize, const T: usize>(c: &Case, rep: &mut Rep) {
    let x = &c.a[0];
    rep.nontrivial();
    if T < L && !is_zero(&x[T..]) {
        rep.class("resize_truncates");
    }
    let mut want = x.clone();
    want.resize(T, 0);
    let ux = u::<L>(x);
    let got: Uint<T> = ux.resize::<T>();
    ex(rep, "resize", &ul(&got), &want);
    let got: Uint<T> = Uint::<T>::from(&ux);
    ex(rep, "From<&Uint>", &ul(&got), &want);
}
fn c_uint_resize(c: &Case, rep: &mut Rep) {
    dispatch2!(c.w[0], c.w[1], [1, 2, 3, 4, 8, 16], [1, 2, 3, 4, 8, 16], uint_resize(c, rep))
}

fn c_limb(c: &Case, rep: &mut Rep) {
    let v = c.s[0];
    rep.nontrivial();
    let l = Limb(v);
    exb(rep, "Limb::to_be_bytes", &Encoding::to_be_bytes(&l), &v.to_be_bytes());
    exb(rep, "Limb::to_le_bytes", &Encoding::to_le_bytes(&l), &v.to_le_bytes());
    if <Limb as Encoding>::from_be_bytes(v.to_be_bytes()).0 != v || <Limb as Encoding>::from_le_bytes(v.to_le_bytes()).0 != v {
        rep.fail("Limb::from_bytes", "round trip changed the value".into());
    }
    for (rel, got, want) in [
        ("Limb.fmt.LowerHex", format!("{:x}", l), format!("{:016x}", v)),
        ("Limb.fmt.UpperHex", format!("{:X}", l), format!("{:016X}", v)),
        ("Limb.fmt.LowerHex.alt", format!("{:#x}", l), format!("0x{:016x}", v)),
        ("Limb.fmt.Display", format!("{}", l), format!("{:016X}", v)),
        ("Limb.fmt.Binary", format!("{:b}", l), format!("{:064b}", v)),
        ("Limb.fmt.Debug", format!("{:?}", l), format!("Limb(0x{:016X})", v)),
    ] {
        if got != want {
            rep.fail(rel, format!("got {} want {}", got, want));
        }
    }
    let w: Limb = Limb::from(v);
    if w.0 != v || Limb::from(v as u8).0 != v as u8 as u64 || Limb::from(v as u16).0 != v as u16 as u64 || Limb::from(v as u32).0 != v as u32 as u64 {
        rep.fail("Limb::From<prim>", "mismatch".into());
    }
    match bincode::serialize(&l).and_then(|b| bincode::deserialize::<Limb>(&b)) {
        Ok(b) => {
            if b.0 != v {
                rep.fail("Limb.serde.bincode", "round trip changed the value".into());
            }
        }
        Err(e) => rep.fail("Limb.serde.bincode", format!("{}", e)),
    }
}

fn c_boxed_decode(c: &Case, rep: &mut Rep) {
    let bytes = &c.b[0];
    let prec = c.s[0] as u32;
    let cap = (prec as usize).div_ceil(8);
    let nlimbs = (prec as usize).div_ceil(64);
    if prec == 0 {
        rep.class("prec_0");
    }
    if prec % 8 != 0 {
        rep.class("prec_not_mult_8");
    }
    if prec % 64 != 0 {
        rep.class("prec_not_mult_64");
    }
    if bytes.len() == cap {
        rep.class("len_eq_cap");
    }
    if bytes.len() == cap + 1 {
        rep.class("len_eq_cap_plus_1");
    }
    for (order, rel) in [(0, "boxed.from_be_slice"), (1, "boxed.from_le_slice")] {
        let v = if order == 0 { BigUint::from_bytes_be(bytes) } else { BigUint::from_bytes_le(bytes) };
        if v == pow2(prec as usize) {
            rep.class("value_eq_2pow_prec");
        }
        let want: Result<BigUint, DecodeError> = if bytes.len() > cap {
            Err(DecodeError::InputSize)
        } else if v.bits() as u32 > prec {
            Err(DecodeError::Precision)
        } else {
            Ok(v.clone())
        };
        let got = if order == 0 { BoxedUint::from_be_slice(bytes, prec) } else { BoxedUint::from_le_slice(bytes, prec) };
        match (&got, &want) {
            (Ok(g), Ok(w)) => {
                if &bb(g) != w {
                    rep.fail(rel, format!("value {} want {}", hex(&bl(g)), bhex(w)));
                }
                if g.nlimbs() != nlimbs.max(if prec == 0 { g.nlimbs() } else { nlimbs }) && prec != 0 {
                    rep.fail(&format!("{}.precision", rel), format!("{} limbs want {}", g.nlimbs(), nlimbs));
                }
            }
            (Err(g), Err(w)) => {
                if g != w {
                    rep.fail(&format!("{}.error_kind", rel), format!("got {:?} want {:?}", g, w));
                }
            }
            (Ok(g), Err(w)) => rep.fail(&format!("{}.fails_closed", rel), format!("accepted as {} but must fail with {:?}", hex(&bl(g)), w)),
            (Err(g), Ok(_)) => rep.fail(&format!("{}.accepts_wellformed", rel), format!("rejected with {:?}", g)),
        }
    }
}

fn c_boxed_hex_hostile(c: &Case, rep: &mut Rep) {
    let raw = &c.b[0];
    let nl = c.w[0];
    rep.nontrivial();
    class_hex(raw, rep);
    let s = match std::str::from_utf8(raw) {
        Ok(s) => s,
        Err(_) => return,
    };
    if s.len() != s.chars().count() {
        rep.class("hex_multibyte_utf8");
    }
    let prec = 64 * nl as u32;
    let right_len = raw.len() == 16 * nl;
    let want = hex_decode(raw, 8 * nl);
    match catch(|| BoxedUint::from_be_hex(s, prec)) {
        Ok(r) => {
            if !right_len {
                // a string of the wrong length must be rejected (none; a panic is C11's business)
                if let Some(v) = ct(r) {
                    rep.fail("boxed.from_be_hex.rejects_wrong_length", format!("accepted {} characters as {}", raw.len(), hex(&bl(&v))));
                }
                return;
            }
            match (ct(r), &want) {
                (Some(v), Some(bytes)) => {
                    if bb(&v) != BigUint::from_bytes_be(bytes) || v.nlimbs() != nl {
                        rep.fail("boxed.from_be_hex", format!("got {}", hex(&bl(&v))));
                    }
                }
                (None, None) => {}
                (Some(v), None) => rep.fail("boxed.from_be_hex.rejects_nonhex", format!("accepted {:?} as {}", s, hex(&bl(&v)))),
                (None, Some(_)) => rep.fail("boxed.from_be_hex.accepts_wellformed", format!("rejected {:?}", s)),
            }
        }
        Err(m) => {
            if right_len {
                rep.fail(&format!("boxed.from_be_hex.{}", panic_sig(&m)), format!("panicked on a string of the right length: {}", m));
            }
        }
    }
}

fn c_boxed_convert(c: &Case, rep: &mut Rep) {
    let x = &c.a[0];
    let n = x.len();
    rep.nontrivial();
    let b = bx(x);
    exb(rep, "boxed.to_be_bytes", &b.to_be_bytes(), &be_bytes(x));
    exb(rep, "boxed.to_le_bytes", &b.to_le_bytes(), &le_bytes(x));
    ex(rep, "boxed.to_words", &b.to_words(), x);
    ex(rep, "boxed.as_words", b.as_words(), x);
    let l: Vec<u64> = b.as_limbs().iter().map(|l| l.0).collect();
    ex(rep, "boxed.as_limbs", &l, x);
    let l: Vec<u64> = b.to_limbs().iter().map(|l| l.0).collect();
    ex(rep, "boxed.to_limbs", &l, x);
    let l: Vec<u64> = b.clone().into_limbs().iter().map(|l| l.0).collect();
    ex(rep, "boxed.into_limbs", &l, x);
    if b.nlimbs() != n || b.bits_precision() != 64 * n as u32 {
        rep.fail("boxed.nlimbs", "precision mismatch".into());
    }
    let limbs: Vec<Limb> = x.iter().map(|&w| Limb(w)).collect();
    ex(rep, "boxed.From<&[Limb]>", &bl(&BoxedUint::from(limbs.as_slice())), x);
    ex(rep, "boxed.From<Box<[Limb]>>", &bl(&BoxedUint::from(limbs.clone().into_boxed_slice())), x);
    ex(rep, "boxed.From<Vec<Limb>>", &bl(&BoxedUint::from(limbs.clone())), x);
    ex(rep, "boxed.From<Vec<Word>>", &bl(&BoxedUint::from(x.clone())), x);
    let mut t = BoxedUint::zero_with_precision(64 * n as u32);
    t.as_words_mut().copy_from_slice(x);
    ex(rep, "boxed.as_words_mut", &bl(&t), x);
    let mut t = BoxedUint::zero_with_precision(64 * n as u32);
    for (d, s) in t.as_limbs_mut().iter_mut().zip(x) {
        *d = Limb(*s);
    }
    ex(rep, "boxed.as_limbs_mut", &bl(&t), x);
    // formatting
    let hx = hex_lower(&be_bytes(x));
    for (rel, got, want) in [
        ("boxed.fmt.LowerHex", format!("{:x}", b), hx.clone()),
        ("boxed.fmt.UpperHex", format!("{:X}", b), hx.to_uppercase()),
        ("boxed.fmt.LowerHex.alt", format!("{:#x}", b), format!("0x{}", hx)),
        ("boxed.fmt.Display", format!("{}", b), hx.to_uppercase()),
        ("boxed.fmt.Debug", format!("{:?}", b), format!("BoxedUint(0x{})", hx.to_uppercase())),
        ("boxed.fmt.Binary", format!("{:b}", b), be_bytes(x).iter().map(|b| format!("{:08b}", b)).collect::<String>()),
    ] {
        if got != want {
            rep.fail(rel, format!("got {} want {}", got, want));
        }
    }
    // widen / shorten: value preserved / truncated; documented panics in the wrong direction
    let target = c.s[0] as u32;
    // a BoxedUint always has at least one limb: a requested precision of 0 bits rounds up to one limb
    let tl = (target as usize).div_ceil(64).max(1);
    let cur = 64 * n as u32;
    if let Some(w) = panics_iff(rep, "boxed.widen", target < cur, || b.widen(target)) {
        let mut want = x.clone();
        want.resize(tl, 0);
        ex(rep, "boxed.widen", &bl(&w), &want);
    }
    if let Some(w) = panics_iff(rep, "boxed.shorten", target > cur, || b.shorten(target)) {
        let mut want = x.clone();
        want.truncate(tl);
        ex(rep, "boxed.shorten", &bl(&w), &want);
    }
    // fixed <-> boxed
    macro_rules! fixed {
        ($l:literal) => {
            if n == $l {
                let ux = u::<$l>(x);
                ex(rep, "boxed.From<Uint>", &bl(&BoxedUint::from(ux)), x);
                ex(rep, "boxed.From<&Uint>", &bl(&BoxedUint::from(&ux)), x);
            }
        };
    }
    fixed!(1);
    fixed!(2);
    fixed!(3);
    fixed!(4);
    fixed!(8);
    fixed!(16);
    // primitives
    let v: u128 = ((x.get(1).copied().unwrap_or(0) as u128) << 64) | x[0] as u128;
    if bb(&BoxedUint::from(v as u8)) != BigUint::from(v as u8) || bb(&BoxedUint::from(v as u16)) != BigUint::from(v as u16) || bb(&BoxedUint::from(v as u32)) != BigUint::from(v as u32) || bb(&BoxedUint::from(v as u64)) != BigUint::from(v as u64) || bb(&BoxedUint::from(v)) != BigUint::from(v) || bb(&BoxedUint::from(Limb(v as u64))) != BigUint::from(v as u64) {
        rep.fail("boxed.From<prim>", "mismatch".into());
    }
}

// ---------------------------------------------------------------------------------------------

/// value whose bytes are all distinct-ish (position errors show) or structured
fn gen_value(r: &mut Rng, n: usize) -> Vec<u64> {
    match r.below(4) {
        0 => {
            let start = r.below(256) as u8;
            let bytes: Vec<u8> = (0..8 * n).map(|i| start.wrapping_add((i as u8).wrapping_mul(7)).wrapping_add(1)).collect();
            bytes.chunks(8).map(|c| u64::from_le_bytes(c.try_into().unwrap())).collect()
        }
        1 => gn::uint(r, n),
        _ => gn::random(r, n),
    }
}

pub fn workload(ctx: &mut Ctx) {
    let widths = [1usize, 2, 3, 4, 5, 6, 7, 8, 16, 32];
    for &l in &widths {
        for _ in 0..ctx.iters(if l <= 8 { 150_000 } else { 30_000 }) {
            let x = gen_value(&mut ctx.rng, l);
            ctx.exec(Case::new("uint.bytes").w(l).a(x), c_uint_bytes);
        }
    }
    // hostile hex: every byte value at every position of a valid string (exhaustive at 1 limb)
    for &l in &[1usize, 2, 4] {
        let n = 16 * l;
        let base: Vec<u8> = hex_lower(&be_bytes(&gen_value(&mut Rng::new(7).fork(l as u64), l))).into_bytes();
        for pos in 0..n {
            for b in 0..=255u8 {
                if !ctx.mine() {
                    continue;
                }
                if l > 1 && b >= 0x80 && pos % 5 != 0 {
                    continue;
                }
                let mut s = base.clone();
                s[pos] = b;
                ctx.rep.tally("hex_every_position");
                ctx.exec(Case::new("uint.hex_hostile").w(l).b(s.clone()), c_uint_hex_hostile);
                if l <= 2 {
                    ctx.exec(Case::new("boxed.hex_hostile").w(l).b(s), c_boxed_hex_hostile);
                }
            }
        }
        // multi-byte UTF-8, wrong lengths, mixed case
        for _ in 0..ctx.iters(80_000) {
            let mut s = base.clone();
            match ctx.rng.below(5) {
                0 => {
                    let p = ctx.rng.usize_below(n - 1);
                    s.splice(p..p + 2, "é".bytes());
                }
                1 => {
                    let p = ctx.rng.usize_below(n - 2);
                    s.splice(p..p + 3, "€".bytes());
                }
                2 => {
                    let k = ctx.rng.usize_below(n + 4);
                    s.resize(k, b'0');
                }
                3 => {
                    for b in s.iter_mut() {
                        if ctx.rng.bool() {
                            *b = b.to_ascii_uppercase();
                        }
                    }
                }
                _ => {
                    let p = ctx.rng.usize_below(n);
                    s[p] = *ctx.rng.pick(&[b'/', b':', b'@', b'G', b'`', b'g', b' ', b'+', b'-', b'_', b'x', 0]);
                }
            }
            ctx.exec(Case::new("uint.hex_hostile").w(l).b(s.clone()), c_uint_hex_hostile);
            if l <= 2 {
                ctx.exec(Case::new("boxed.hex_hostile").w(l).b(s), c_boxed_hex_hostile);
            }
        }
    }
    for &l in &[1usize, 2, 3, 4, 8] {
        for _ in 0..ctx.iters(200_000) {
            let lo = gn::limb(&mut ctx.rng);
            let hi = gn::limb(&mut ctx.rng);
            ctx.exec(Case::new("uint.prim").w(l).s(lo).s(hi), c_uint_prim);
        }
    }
    for &(a, b) in &[(1usize, 1usize), (2, 2), (3, 3), (4, 4), (8, 8), (16, 16), (1, 2), (2, 1), (1, 3), (3, 1), (2, 3), (4, 1), (1, 7), (5, 3), (9, 7)] {
        for _ in 0..ctx.iters(60_000) {
            let lo = gen_value(&mut ctx.rng, a);
            let hi = gen_value(&mut ctx.rng, b);
            ctx.exec(Case::new("uint.concat_split").w(a).w(b).a(lo).a(hi), c_uint_concat_split);
        }
    }
    for &l in &[1usize, 2, 3, 4, 8, 16] {
        for &t in &[1usize, 2, 3, 4, 8, 16] {
            for _ in 0..ctx.iters(40_000) {
                let x = gen_value(&mut ctx.rng, l);
                ctx.exec(Case::new("uint.resize").w(l).w(t).a(x), c_uint_resize);
            }
        }
    }
    // signed conversions (sign extension / truncation) share their checkers with C13
    for &l in &[1usize, 2, 3, 4, 8, 16] {
        for _ in 0..ctx.iters(60_000) {
            let v = match ctx.rng.below(5) {
                0 => (i64::MIN as i128) as u128,
                1 => i128::MIN as u128,
                2 => (-1i128) as u128,
                3 => ((((ctx.rng.u64() as u128) << 64 | ctx.rng.u64() as u128) as i128) >> ctx.rng.below(120)) as u128,
                _ => ((ctx.rng.u64() as u128) << 64) | ctx.rng.u64() as u128,
            };
            ctx.exec(Case::new("int.from_prim").w(l).s(v as u64).s((v >> 64) as u64), crate::c13::c_from_prim);
            let t = *ctx.rng.pick(&[1usize, 2, 3, 4, 8, 16]);
            let mut x = gen_value(&mut ctx.rng, l);
            if ctx.rng.bool() {
                x[l - 1] |= 1 << 63;
            }
            ctx.exec(Case::new("int.resize").w(l).w(t).a(x), crate::c13::c_resize);
        }
    }
    for _ in 0..ctx.iters(400_000) {
        let v = gn::limb(&mut ctx.rng);
        ctx.exec(Case::new("limb.encoding").s(v), c_limb);
    }
    // boxed decoders: every precision 0..=520, every length 0..=cap+9
    let reps = if ctx.tier == Tier::Thorough { 40 } else { 8 };
    for prec in 0..=520u32 {
        let cap = (prec as usize).div_ceil(8);
        for len in 0..=cap + 9 {
            if !ctx.mine() {
                continue;
            }
            for t in 0..reps {
                let mut bytes: Vec<u8> = match t {
                    0 => vec![0xff; len],
                    1 => vec![0; len],
                    _ => ctx.rng.bytes(len),
                };
                // put the value just below / at / above 2^prec (both byte orders get hit over the runs)
                if len > 0 && t >= 1 && prec > 0 {
                    let top_bits = prec % 8;
                    let be = ctx.rng.bool();
                    let idx_top = if len >= cap { len - cap } else { 0 };
                    let pos = if be { idx_top.min(len - 1) } else { (cap - 1).min(len - 1) };
                    match ctx.rng.below(4) {
                        0 if top_bits != 0 => bytes[pos] = 1 << top_bits,          // exactly 2^prec (if aligned in that order)
                        1 if top_bits != 0 => bytes[pos] = (1 << top_bits) - 1,    // just below
                        2 => bytes[pos] = 0x80,
                        _ => {}
                    }
                    if ctx.rng.chance(1, 3) {
                        // exactly 2^prec: a single set bit
                        let v = pow2(prec as usize);
                        let raw = if be { v.to_bytes_be() } else { v.to_bytes_le() };
                        if raw.len() <= len {
                            let mut z = vec![0u8; len];
                            if be {
                                z[len - raw.len()..].copy_from_slice(&raw);
                            } else {
                                z[..raw.len()].copy_from_slice(&raw);
                            }
                            bytes = z;
                        }
                    }
                }
                ctx.exec(Case::new("boxed.decode").b(bytes).s(prec as u64), c_boxed_decode);
            }
        }
    }
    for _ in 0..ctx.iters(400_000) {
        let cap = if ctx.rng.chance(3, 4) { 8 } else { 20 };
        let n = 1 + ctx.rng.usize_below(cap);
        let x = gen_value(&mut ctx.rng, n);
        let target = match ctx.rng.below(4) {
            0 => 64 * n as u64,
            1 => 64 * (n as u64 + ctx.rng.below(3)),
            2 => (64 * n as u64).saturating_sub(64 * ctx.rng.below(n as u64)),
            _ => ctx.rng.below(64 * (n as u64 + 2) + 1),
        };
        ctx.exec(Case::new("boxed.convert").w(n).a(x).s(target), c_boxed_convert);
    }
}
