#!/usr/bin/env python3
"""Independently confirms seeded changes produced by sub-agents and files them under /verif/seeded/<id>/.

usage: confirm_mutants.py C02 [C03 ...]      (reads /tmp/mut/<P>-out/m<k>.{diff,json}, m<k>_demo.rs)

For each change, in ONE scratch worktree of /repo HEAD (outside /repo and /verif, removed at the end):
  1. git apply the patch                       -> must apply
  2. cargo test --offline (default features)   -> existing suite must pass
  3. copy the demo into tests/, run it         -> must FAIL with the change
  4. revert the patch, run the demo            -> must PASS without the change
Only changes for which all four hold are kept (patch.diff, demo.rs, meta.json).
"""
import json, os, re, shutil, subprocess, sys, glob

WT = os.environ.get("CONFIRM_WT", "/tmp/confirm_wt")
ENV = dict(os.environ, CARGO_NET_OFFLINE="true")
ENV.pop("RUST_BACKTRACE", None)


def sh(cmd, cwd=WT, timeout=3600):
    p = subprocess.run(cmd, cwd=cwd, shell=True, env=ENV, stdout=subprocess.PIPE, stderr=subprocess.STDOUT, text=True, timeout=timeout)
    return p.returncode, p.stdout


def main():
    props = sys.argv[1:]
    if os.environ.get("CONFIRM_REUSE") and os.path.isdir(WT):
        pass  # an existing scratch worktree of /repo HEAD (warm target dir); reset per change below
    else:
        if os.path.exists(WT):
            sh("git -C /repo worktree remove --force %s" % WT, cwd="/")
        rc, out = sh("git -C /repo worktree add -q --detach %s HEAD" % WT, cwd="/")
        assert rc == 0, out
    head = sh("git rev-parse --short HEAD")[1].strip()
    try:
        for P in props:
            for meta_path in sorted(glob.glob("/tmp/mut/%s-out/m*.json" % P)):
                mm = re.search(r"/m(\d+)\.json$", meta_path)
                if not mm:
                    continue
                k = mm.group(1)
                mid = "%s-m%s" % (P, k)
                dst = "/verif/seeded/%s" % mid
                if os.path.exists(os.path.join(dst, "meta.json")) and json.load(open(os.path.join(dst, "meta.json"))).get("confirmed"):
                    print(mid, "already confirmed")
                    continue
                diff = "/tmp/mut/%s-out/m%s.diff" % (P, k)
                demo = "/tmp/mut/%s-out/m%s_demo.rs" % (P, k)
                try:
                    meta = json.load(open(meta_path))
                except Exception as e:
                    print(mid, "bad meta json", e)
                    meta = {"property": P, "summary": "?", "needs": "?", "features": ""}
                feats = (meta.get("features") or "").strip()
                feats = re.sub(r"[^a-z_,\- ]", "", feats.lower()).replace(" ", ",").strip(",")
                feats = ",".join(f for f in feats.split(",") if f in ("alloc", "rand_core", "rand", "serde", "der", "rlp", "hybrid-array", "zeroize", "extra-sizes"))
                fflag = ("--features " + feats) if feats else ""
                sh("git reset -q --hard HEAD && git clean -fdq -e target")
                log = {}
                rc, out = sh("git apply %s" % diff)
                log["applies"] = rc == 0
                if rc != 0:
                    print(mid, "patch does not apply:", out[-300:])
                    continue
                rc2, out2 = sh("cargo test --offline -j 4 > %s.suite.log 2>&1; echo rc=$?" % WT)
                ok_suite = "rc=0" in out2
                log["suite_passes_with_change"] = ok_suite
                shutil.copy(demo, os.path.join(WT, "tests", "zz_seeded_demo.rs"))
                _, o = sh("cargo test --offline -j 4 --test zz_seeded_demo %s > %s.demo.log 2>&1; echo rc=$?" % (fflag, WT))
                demo_fails = "rc=0" not in o
                txt = open("%s.demo.log" % WT).read()
                compiled = "error: could not compile" not in txt and "error[E" not in txt
                log["demo_fails_with_change"] = demo_fails and compiled
                sh("git apply -R %s" % diff)
                _, o = sh("cargo test --offline -j 4 --test zz_seeded_demo %s > %s.demo2.log 2>&1; echo rc=$?" % (fflag, WT))
                log["demo_passes_without_change"] = "rc=0" in o
                os.remove(os.path.join(WT, "tests", "zz_seeded_demo.rs"))
                confirmed = all(log.values())
                print(mid, "CONFIRMED" if confirmed else "NOT CONFIRMED", log)
                if not confirmed:
                    continue
                os.makedirs(dst, exist_ok=True)
                shutil.copy(diff, os.path.join(dst, "patch.diff"))
                shutil.copy(demo, os.path.join(dst, "demo.rs"))
                json.dump({
                    "id": mid,
                    "property": P,
                    "summary": meta.get("summary"),
                    "needs": meta.get("needs"),
                    "demo_features": feats,
                    "author": "fresh sub-agent given only the property text and its own scratch worktree",
                    "confirmed": True,
                    "confirmed_against_repo_commit": head,
                    "ran": [
                        "git apply patch.diff (scratch worktree of /repo HEAD %s, outside /repo and /verif)" % head,
                        "cargo test --offline  -> existing suite passes with the change",
                        "cargo test --offline --test zz_seeded_demo %s -> fails with the change" % fflag,
                        "git apply -R patch.diff; same demo -> passes without the change",
                    ],
                    "checks": log,
                }, open(os.path.join(dst, "meta.json"), "w"), indent=1)
    finally:
        sh("git -C /repo worktree remove --force %s" % WT, cwd="/")


if __name__ == "__main__":
    main()
