#!/bin/bash
# usage: try_mutant.sh <prop> <diff> [tier]   — applies a seeded change to /repo, runs the check, restores /repo.
set -u
prop=$1; diff=$2; tier=${3:-quick}
cd /repo || exit 2
if ! git diff --quiet; then echo "/repo has uncommitted changes"; exit 2; fi
if ! git apply --3way "$diff" 2>/dev/null && ! git apply "$diff"; then echo "patch does not apply"; git reset -q --hard HEAD; exit 2; fi
cd /verif
out=$(./check "$prop" --tier "$tier" 2>&1); rc=$?
git -C /repo reset -q --hard HEAD
echo "$out" > /tmp/try_mutant_last.log
echo "$out" | grep -E "^(VIOLATION|INCONCLUSIVE|MACHINERY|C[0-9]+ tier)|^  key=" | head -${LINES_MAX:-14}
echo "exit=$rc"
