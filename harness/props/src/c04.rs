//! C04 — addition, subtraction, negation: exact result and exact carry/overflow report.
use crate::dispatch;
use crate::util::*;
use crypto_bigint::{
    BoxedUint, Checked, CheckedAdd, CheckedSub, ConstChoice, Limb, Uint, Wrapping, WrappingAdd, WrappingNeg,
    WrappingSub,
};

pub const DEF: PropDef = PropDef {
    id: "C04",
    workload,
    ops,
    mandatory: &["full_ripple", "result_eq_2powBITS", "result_eq_2powBITS_minus1", "carry_in_2", "carry_in_max", "rhs_wider_than_receiver", "alternating", "borrow_full_ripple", "limb_palette"],
    rule: "cases are (a, b, carry-in) tuples for Limb (palette^3 exhaustive for adc/sbb plus structured), Uint 1..12,16,32 limbs, BoxedUint 1..=40 limbs with equal / narrower / wider right-hand sides, Uint<N> and u8..u128 right-hand sides; operands from the structured generator plus relation constructions a+b = 2^BITS+{-1,0,1}, a-b in {-1,0,1}, alternating 0/MAX limbs, MAX+1, 0-1; non-trivial = oracle-side class (carry ripples across every limb, sum exactly 2^BITS or 2^BITS-1, carry-in 2 or MAX, borrow mask set, rhs wider than receiver, alternating limbs); distinct by 64-bit hash",
};

pub fn ops() -> Vec<(&'static str, Checker)> {
    vec![
        ("limb.addsub", c_limb),
        ("uint.addsub", c_uint),
        ("uint.neg", c_uint_neg),
        ("boxed.addsub", c_boxed),
        ("boxed.addsub_uint", c_boxed_uint),
        ("boxed.addsub_prim", c_boxed_prim),
        ("boxed.neg", c_boxed_neg),
    ]
}

fn ex(rep: &mut Rep, rel: &str, got: &[u64], want: &[u64]) {
    if got != want {
        rep.fail(rel, format!("got {} want {}", hex(got), hex(want)));
    }
}


fn c_limb(c: &Case, rep: &mut Rep) {
    let (a, b, cin) = (c.s[0], c.s[1], c.s[2]);
    rep.class("limb_palette");
    let (la, lb) = (Limb(a), Limb(b));
    // adc: exact for every word value of the incoming carry
    let want = a as u128 + b as u128 + cin as u128;
    let (lo, hi) = la.adc(lb, Limb(cin));
    if ((hi.0 as u128) << 64 | lo.0 as u128) != want {
        rep.fail("Limb::adc", format!("got ({:x},{:x}) want {:x}", lo.0, hi.0, want));
    }
    if cin == 2 {
        rep.class("carry_in_2");
    }
    if cin == u64::MAX {
        rep.class("carry_in_max");
    }
    let s = a as u128 + b as u128;
    let ovf = s >> 64 != 0;
    let (lo, hi) = la.overflowing_add(lb);
    if lo.0 != s as u64 || hi.0 != (s >> 64) as u64 {
        rep.fail("Limb::overflowing_add", format!("got ({:x},{:x})", lo.0, hi.0));
    }
    if la.wrapping_add(lb).0 != s as u64 || WrappingAdd::wrapping_add(&la, &lb).0 != s as u64 {
        rep.fail("Limb::wrapping_add", "mismatch".into());
    }
    if la.saturating_add(lb).0 != if ovf { u64::MAX } else { s as u64 } {
        rep.fail("Limb::saturating_add", "mismatch".into());
    }
    if ct(CheckedAdd::checked_add(&la, &lb)).map(|x| x.0) != if ovf { None } else { Some(s as u64) } {
        rep.fail("Limb::checked_add", "mismatch".into());
    }
    if let Some(v) = panics_iff(rep, "Limb.op_add", ovf, || la + lb) {
        if v.0 != s as u64 {
            rep.fail("Limb.op_add", "mismatch".into());
        }
    }
    // sbb with borrow masks 0 / MAX
    for bin in [0u64, u64::MAX] {
        let want = (a as i128) - (b as i128) - (bin & 1) as i128;
        let (lo, bo) = la.sbb(lb, Limb(bin));
        let wlo = want as u64;
        let wbo = if want < 0 { u64::MAX } else { 0 };
        if lo.0 != wlo || bo.0 != wbo {
            rep.fail("Limb::sbb", format!("borrow_in={:x} got ({:x},{:x}) want ({:x},{:x})", bin, lo.0, bo.0, wlo, wbo));
        }
    }
    let d = a.wrapping_sub(b);
    let under = a < b;
    if la.wrapping_sub(lb).0 != d || WrappingSub::wrapping_sub(&la, &lb).0 != d {
        rep.fail("Limb::wrapping_sub", "mismatch".into());
    }
    if la.saturating_sub(lb).0 != if under { 0 } else { d } {
        rep.fail("Limb::saturating_sub", "mismatch".into());
    }
    if ct(CheckedSub::checked_sub(&la, &lb)).map(|x| x.0) != if under { None } else { Some(d) } {
        rep.fail("Limb::checked_sub", "mismatch".into());
    }
    if let Some(v) = panics_iff(rep, "Limb.op_sub", under, || la - lb) {
        if v.0 != d {
            rep.fail("Limb.op_sub", "mismatch".into());
        }
    }
    if let Some(v) = panics_iff(rep, "Limb.op_sub_ref", under, || la - &lb) {
        if v.0 != d {
            rep.fail("Limb.op_sub_ref", "mismatch".into());
        }
    }
    if la.wrapping_neg().0 != a.wrapping_neg() || WrappingNeg::wrapping_neg(&la).0 != a.wrapping_neg() {
        rep.fail("Limb::wrapping_neg", "mismatch".into());
    }
    // Wrapping / Checked wrappers
    let (wa, wb) = (Wrapping(la), Wrapping(lb));
    let mut t = wa;
    t += wb;
    let mut t2 = wa;
    t2 += &wb;
    if (wa + wb).0.0 != s as u64 || t.0.0 != s as u64 || t2.0.0 != s as u64 {
        rep.fail("Wrapping<Limb>.add", "mismatch".into());
    }
    let mut t = wa;
    t -= wb;
    let mut t2 = wa;
    t2 -= &wb;
    if (wa - wb).0.0 != d || t.0.0 != d || t2.0.0 != d {
        rep.fail("Wrapping<Limb>.sub", "mismatch".into());
    }
    if (-wa).0.0 != a.wrapping_neg() {
        rep.fail("Wrapping<Limb>.neg", "mismatch".into());
    }
    let (ca, cb) = (Checked::new(la), Checked::new(lb));
    let mut t = ca;
    t += cb;
    let mut t2 = ca;
    t2 += &cb;
    for (n, r) in [("Checked<Limb>.add", ca + cb), ("Checked<Limb>.add_assign", t), ("Checked<Limb>.add_assign_ref", t2)] {
        if ct(r.0).map(|x: Limb| x.0) != if ovf { None } else { Some(s as u64) } {
            rep.fail(n, "mismatch".into());
        }
    }
    let mut t = ca;
    t -= cb;
    let mut t2 = ca;
    t2 -= &cb;
    for (n, r) in [("Checked<Limb>.sub", ca - cb), ("Checked<Limb>.sub_assign", t), ("Checked<Limb>.sub_assign_ref", t2)] {
        if ct(r.0).map(|x: Limb| x.0) != if under { None } else { Some(d) } {
            rep.fail(n, "mismatch".into());
        }
    }
    let none = Checked::<Limb>(subtle::CtOption::new(lb, 0.into()));
    crate::sticky_none!(rep, "Checked<Limb>.add", ca, none, +, +=);
    crate::sticky_none!(rep, "Checked<Limb>.sub", ca, none, -, -=);
}

fn classify_add(a: &[u64], b: &[u64], cin: u64, bits: usize, rep: &mut Rep) {
    let s = to_big(a) + to_big(b) + BigUint::from(cin);
    if s == pow2(bits) {
        rep.class("result_eq_2powBITS");
    }
    if &s + 1u32 == pow2(bits) {
        rep.class("result_eq_2powBITS_minus1");
    }
    // carry crosses every limb: a + b (without cin) has carry out of every limb position
    let n = bits / 64;
    if n >= 2 && a.len() >= n && b.len() >= 1 {
        let mut carry = cin.min(1) as u128;
        let mut all = true;
        let mut c = (a[0] as u128 + *b.first().unwrap_or(&0) as u128 + cin as u128) >> 64;
        if c == 0 {
            all = false;
        }
        for i in 1..n {
            let t = a[i] as u128 + *b.get(i).unwrap_or(&0) as u128 + c;
            c = t >> 64;
            if c == 0 {
                all = false;
            }
        }
        let _ = &mut carry;
        if all {
            rep.class("full_ripple");
        }
    }
    if a.len() >= 2 && a.iter().enumerate().all(|(i, &x)| x == if i % 2 == 0 { 0 } else { u64::MAX } || x == if i % 2 == 0 { u64::MAX } else { 0 }) && !is_zero(a) {
        rep.class("alternating");
    }
    if cin == 2 {
        rep.class("carry_in_2");
    }
    if cin == u64::MAX {
        rep.class("carry_in_max");
    }
}

fn classify_sub(a: &[u64], b: &[u64], rep: &mut Rep) {
    // borrow ripples across every limb
    let n = a.len();
    if n >= 2 {
        let mut borrow = 0i128;
        let mut all = true;
        for i in 0..n {
            let t = a[i] as i128 - *b.get(i).unwrap_or(&0) as i128 - borrow;
            borrow = (t < 0) as i128;
            if borrow == 0 {
                all = false;
            }
        }
        if all {
            rep.class("borrow_full_ripple");
        }
    }
    if to_big(a) == to_big(b) {
        rep.class("a_eq_b");
    }
}

fn uint_addsub<const L: usize>(c: &Case, rep: &mut Rep) {
    let (a, b) = (&c.a[0], &c.a[1]);
    let cin = c.s[0];
    let bits = 64 * L;
    classify_add(a, b, cin, bits, rep);
    classify_sub(a, b, rep);
    let (ua, ubb) = (u::<L>(a), u::<L>(b));
    let (ba, bbig) = (to_big(a), to_big(b));
    // adc with arbitrary carry-in
    let s = &ba + &bbig + BigUint::from(cin);
    let (r, co) = ua.adc(&ubb, Limb(cin));
    ex(rep, "adc.value", &ul(&r), &from_big(&s, L));
    if BigUint::from(co.0) != &s >> bits {
        rep.fail("adc.carry", format!("carry {:x} want {}", co.0, bhex(&(&s >> bits))));
    }
    let s0 = &ba + &bbig;
    let sum = from_big(&s0, L);
    let ovf = !fits(&s0, L);
    ex(rep, "wrapping_add", &ul(&ua.wrapping_add(&ubb)), &sum);
    ex(rep, "WrappingAdd", &ul(&WrappingAdd::wrapping_add(&ua, &ubb)), &sum);
    ex(rep, "saturating_add", &ul(&ua.saturating_add(&ubb)), &if ovf { vec![u64::MAX; L] } else { sum.clone() });
    if ct(CheckedAdd::checked_add(&ua, &ubb)).map(|x| ul(&x)) != if ovf { None } else { Some(sum.clone()) } {
        rep.fail("checked_add", format!("ovf={}", ovf));
    }
    if let Some(v) = panics_iff(rep, "op_add", ovf, || ua + ubb) {
        ex(rep, "op_add", &ul(&v), &sum);
    }
    if let Some(v) = panics_iff(rep, "op_add_ref", ovf, || ua + &ubb) {
        ex(rep, "op_add_ref", &ul(&v), &sum);
    }
    if let Some(v) = panics_iff(rep, "op_add_assign", ovf, || {
        let mut t = ua;
        t += ubb;
        t
    }) {
        ex(rep, "op_add_assign", &ul(&v), &sum);
    }
    if let Some(v) = panics_iff(rep, "op_add_assign_ref", ovf, || {
        let mut t = ua;
        t += &ubb;
        t
    }) {
        ex(rep, "op_add_assign_ref", &ul(&v), &sum);
    }
    // sbb with borrow masks
    for bin in [0u64, u64::MAX] {
        let want = BigInt::from(ba.clone()) - BigInt::from(bbig.clone()) - BigInt::from(bin & 1);
        let (r, bo) = ua.sbb(&ubb, Limb(bin));
        ex(rep, "sbb.value", &ul(&r), &from_bigint(&want, L));
        let wbo = if want < BigInt::zero() { u64::MAX } else { 0 };
        if bo.0 != wbo {
            rep.fail("sbb.borrow", format!("borrow_in={:x} got {:x} want {:x}", bin, bo.0, wbo));
        }
    }
    let under = ba < bbig;
    let diff = from_bigint(&(BigInt::from(ba.clone()) - BigInt::from(bbig.clone())), L);
    ex(rep, "wrapping_sub", &ul(&ua.wrapping_sub(&ubb)), &diff);
    ex(rep, "WrappingSub", &ul(&WrappingSub::wrapping_sub(&ua, &ubb)), &diff);
    ex(rep, "saturating_sub", &ul(&ua.saturating_sub(&ubb)), &if under { vec![0; L] } else { diff.clone() });
    if ct(CheckedSub::checked_sub(&ua, &ubb)).map(|x| ul(&x)) != if under { None } else { Some(diff.clone()) } {
        rep.fail("checked_sub", format!("under={}", under));
    }
    if let Some(v) = panics_iff(rep, "op_sub", under, || ua - ubb) {
        ex(rep, "op_sub", &ul(&v), &diff);
    }
    if let Some(v) = panics_iff(rep, "op_sub_ref", under, || ua - &ubb) {
        ex(rep, "op_sub_ref", &ul(&v), &diff);
    }
    if let Some(v) = panics_iff(rep, "op_sub_assign", under, || {
        let mut t = ua;
        t -= ubb;
        t
    }) {
        ex(rep, "op_sub_assign", &ul(&v), &diff);
    }
    if let Some(v) = panics_iff(rep, "op_sub_assign_ref", under, || {
        let mut t = ua;
        t -= &ubb;
        t
    }) {
        ex(rep, "op_sub_assign_ref", &ul(&v), &diff);
    }
    // Wrapping / Checked
    let (wa, wb) = (Wrapping(ua), Wrapping(ubb));
    ex(rep, "Wrapping.add", &ul(&(wa + wb).0), &sum);
    ex(rep, "Wrapping.add_val_ref", &ul(&(wa + &wb).0), &sum);
    ex(rep, "Wrapping.add_ref_val", &ul(&(&wa + wb).0), &sum);
    ex(rep, "Wrapping.add_ref_ref", &ul(&(&wa + &wb).0), &sum);
    let mut t = wa;
    t += wb;
    ex(rep, "Wrapping.add_assign", &ul(&t.0), &sum);
    let mut t = wa;
    t += &wb;
    ex(rep, "Wrapping.add_assign_ref", &ul(&t.0), &sum);
    ex(rep, "Wrapping.sub", &ul(&(wa - wb).0), &diff);
    ex(rep, "Wrapping.sub_val_ref", &ul(&(wa - &wb).0), &diff);
    ex(rep, "Wrapping.sub_ref_val", &ul(&(&wa - wb).0), &diff);
    ex(rep, "Wrapping.sub_ref_ref", &ul(&(&wa - &wb).0), &diff);
    let mut t = wa;
    t -= wb;
    ex(rep, "Wrapping.sub_assign", &ul(&t.0), &diff);
    let mut t = wa;
    t -= &wb;
    ex(rep, "Wrapping.sub_assign_ref", &ul(&t.0), &diff);
    let (ca, cb) = (Checked::new(ua), Checked::new(ubb));
    let mut t = ca;
    t += cb;
    let mut t2 = ca;
    t2 += &cb;
    for (n, r) in [("Checked.add", ca + cb), ("Checked.add_val_ref", ca + &cb), ("Checked.add_ref_val", &ca + cb), ("Checked.add_ref_ref", &ca + &cb), ("Checked.add_assign", t), ("Checked.add_assign_ref", t2)] {
        if ct(r.0).map(|x: Uint<L>| ul(&x)) != if ovf { None } else { Some(sum.clone()) } {
            rep.fail(n, format!("ovf={}", ovf));
        }
    }
    let mut t = ca;
    t -= cb;
    let mut t2 = ca;
    t2 -= &cb;
    for (n, r) in [("Checked.sub", ca - cb), ("Checked.sub_val_ref", ca - &cb), ("Checked.sub_ref_val", &ca - cb), ("Checked.sub_ref_ref", &ca - &cb), ("Checked.sub_assign", t), ("Checked.sub_assign_ref", t2)] {
        if ct(r.0).map(|x: Uint<L>| ul(&x)) != if under { None } else { Some(diff.clone()) } {
            rep.fail(n, format!("under={}", under));
        }
    }
    // sticky none, every form, either side
    let none = Checked::<Uint<L>>(subtle::CtOption::new(ubb, 0.into()));
    crate::sticky_none!(rep, "Checked.add", ca, none, +, +=);
    crate::sticky_none!(rep, "Checked.sub", ca, none, -, -=);
}
fn c_uint(c: &Case, rep: &mut Rep) {
    dispatch!(c.w[0], [1, 2, 3, 4, 5, 6, 7, 8, 9, 10, 11, 12, 16, 32], uint_addsub(c, rep))
}

fn uint_neg<const L: usize>(c: &Case, rep: &mut Rep) {
    let a = &c.a[0];
    let ua = u::<L>(a);
    let want = from_bigint(&-BigInt::from(to_big(a)), L);
    if is_zero(a) {
        rep.class("neg_of_zero");
    } else {
        rep.nontrivial();
    }
    ex(rep, "wrapping_neg", &ul(&ua.wrapping_neg()), &want);
    ex(rep, "WrappingNeg", &ul(&WrappingNeg::wrapping_neg(&ua)), &want);
    let (v, carry) = ua.carrying_neg();
    ex(rep, "carrying_neg.value", &ul(&v), &want);
    if bool::from(carry) != is_zero(a) {
        rep.fail("carrying_neg.carry_iff_zero", format!("carry={}", bool::from(carry)));
    }
    ex(rep, "wrapping_neg_if.true", &ul(&ua.wrapping_neg_if(ConstChoice::TRUE)), &want);
    ex(rep, "wrapping_neg_if.false", &ul(&ua.wrapping_neg_if(ConstChoice::FALSE)), a);
    ex(rep, "Wrapping.neg", &ul(&(-Wrapping(ua)).0), &want);
    ex(rep, "Wrapping.neg_ref", &ul(&(-&Wrapping(ua)).0), &want);
}
fn c_uint_neg(c: &Case, rep: &mut Rep) {
    dispatch!(c.w[0], [1, 2, 3, 4, 5, 6, 7, 8, 9, 10, 11, 12, 16, 32], uint_neg(c, rep))
}

/// A boxed result must have exactly `limbs` limbs and value `want`.
fn exb(rep: &mut Rep, rel: &str, got: &BoxedUint, want: &BigUint, limbs: usize) {
    let g = bl(got);
    if g.len() != limbs {
        rep.fail(&format!("{}.precision", rel), format!("{} limbs want {}", g.len(), limbs));
    }
    if &to_big(&g) != want {
        rep.fail(rel, format!("got {} want {}", hex(&g), bhex(want)));
    }
}

/// Operator-style boxed op: returned value must be the exact result (no silent wrap); a panic is
/// only allowed when the true result does not fit the receiver.
fn boxed_op(rep: &mut Rep, rel: &str, want: &BigInt, recv_limbs: usize, rhs_limbs: usize, f: impl FnOnce() -> BoxedUint) {
    boxed_op_(rep, rel, want, recv_limbs, rhs_limbs, true, f)
}

/// `wider_rhs_may_panic`: the assigning forms and the boxed-with-fixed / boxed-with-primitive forms
/// work in place and document a panic for a right-hand side of larger precision than the receiver.
/// The non-assigning BoxedUint-BoxedUint operators widen to the wider operand (`checked_add` /
/// `checked_sub`), so for them a panic although the result fits the receiver is a violation.
fn boxed_op_(rep: &mut Rep, rel: &str, want: &BigInt, recv_limbs: usize, rhs_limbs: usize, wider_rhs_may_panic: bool, f: impl FnOnce() -> BoxedUint) {
    // a right-hand side of larger precision than the receiver may be refused (documented panic of
    // the in-place primitives); what may never happen is a silently wrong value.
    let out_of_range = (wider_rhs_may_panic && rhs_limbs > recv_limbs)
        || want.sign() == num_bigint::Sign::Minus
        || !fits(&want.to_biguint().unwrap_or_default(), recv_limbs);
    match catch(f) {
        Ok(v) => {
            if want.sign() == num_bigint::Sign::Minus || BigInt::from(bb(&v)) != *want {
                rep.fail(rel, format!("returned {} ({} limbs) but the true result is {}", hex(&bl(&v)), v.nlimbs(), want));
            }
        }
        Err(m) => {
            if !out_of_range {
                rep.fail(&format!("{}.panic_iff_overflow", rel), format!("panic although the result fits: {}", m));
            }
        }
    }
}

fn c_boxed(c: &Case, rep: &mut Rep) {
    let (a, b) = (&c.a[0], &c.a[1]);
    let cin = c.s[0];
    let (nl, rl) = (a.len(), b.len());
    let m = nl.max(rl);
    if rl > nl {
        rep.class("rhs_wider_than_receiver");
    }
    if rl < nl {
        rep.class("rhs_narrower_than_receiver");
    }
    let mut ap = a.clone();
    ap.resize(m, 0);
    classify_add(&ap, b, cin, 64 * m, rep);
    classify_sub(&ap, b, rep);
    let (xa, xb) = (bx(a), bx(b));
    let (ba, bbig) = (to_big(a), to_big(b));
    // adc / sbb / wrapping_* / checked_*: documented to be widened to the widest input
    let s = &ba + &bbig + BigUint::from(cin);
    let (r, co) = xa.adc(&xb, Limb(cin));
    exb(rep, "boxed.adc.value", &r, &(&s & mask(64 * m)), m);
    if BigUint::from(co.0) != &s >> (64 * m) {
        rep.fail("boxed.adc.carry", format!("carry {:x}", co.0));
    }
    let s0 = &ba + &bbig;
    let ovf = !fits(&s0, m);
    exb(rep, "boxed.wrapping_add", &xa.wrapping_add(&xb), &(&s0 & mask(64 * m)), m);
    exb(rep, "boxed.WrappingAdd", &WrappingAdd::wrapping_add(&xa, &xb), &(&s0 & mask(64 * m)), m);
    match ct(CheckedAdd::checked_add(&xa, &xb)) {
        Some(v) => {
            if ovf {
                rep.fail("boxed.checked_add.some_iff_fits", "some on overflow".into());
            } else {
                exb(rep, "boxed.checked_add", &v, &s0, m);
            }
        }
        None => {
            if !ovf {
                rep.fail("boxed.checked_add.some_iff_fits", "none without overflow".into());
            }
        }
    }
    for bin in [0u64, u64::MAX] {
        let want = BigInt::from(ba.clone()) - BigInt::from(bbig.clone()) - BigInt::from(bin & 1);
        let (r, bo) = xa.sbb(&xb, Limb(bin));
        exb(rep, "boxed.sbb.value", &r, &to_big(&from_bigint(&want, m)), m);
        let wbo = if want < BigInt::zero() { u64::MAX } else { 0 };
        if bo.0 != wbo {
            rep.fail("boxed.sbb.borrow", format!("got {:x} want {:x}", bo.0, wbo));
        }
    }
    let d = BigInt::from(ba.clone()) - BigInt::from(bbig.clone());
    let under = d < BigInt::zero();
    let dw = to_big(&from_bigint(&d, m));
    exb(rep, "boxed.wrapping_sub", &xa.wrapping_sub(&xb), &dw, m);
    exb(rep, "boxed.WrappingSub", &WrappingSub::wrapping_sub(&xa, &xb), &dw, m);
    match ct(CheckedSub::checked_sub(&xa, &xb)) {
        Some(v) => {
            if under {
                rep.fail("boxed.checked_sub.some_iff_fits", "some on underflow".into());
            } else {
                exb(rep, "boxed.checked_sub", &v, &dw, m);
            }
        }
        None => {
            if !under {
                rep.fail("boxed.checked_sub.some_iff_fits", "none without underflow".into());
            }
        }
    }
    // in-place forms: documented to panic when rhs is wider than self; otherwise exact with carry
    if rl <= nl {
        let mut t = xa.clone();
        let co = t.adc_assign(&xb, Limb(cin));
        exb(rep, "boxed.adc_assign.value", &t, &(&s & mask(64 * nl)), nl);
        if BigUint::from(co.0) != &s >> (64 * nl) {
            rep.fail("boxed.adc_assign.carry", format!("carry {:x}", co.0));
        }
        let mut t = xa.clone();
        let bo = t.sbb_assign(&xb, Limb::ZERO);
        exb(rep, "boxed.sbb_assign.value", &t, &dw, nl);
        if bo.0 != if under { u64::MAX } else { 0 } {
            rep.fail("boxed.sbb_assign.borrow", format!("got {:x}", bo.0));
        }
    } else {
        // documented panic ("Panics if rhs has a larger precision than self")
        let r = catch(|| {
            let mut t = xa.clone();
            t.adc_assign(&xb, Limb::ZERO);
            t
        });
        if r.is_ok() {
            rep.fail("boxed.adc_assign.documented_panic_wider_rhs", "no panic although rhs has a larger precision than self".into());
        }
        let r = catch(|| {
            let mut t = xa.clone();
            t.sbb_assign(&xb, Limb::ZERO);
            t
        });
        if r.is_ok() {
            rep.fail("boxed.sbb_assign.documented_panic_wider_rhs", "no panic although rhs has a larger precision than self".into());
        }
    }
    // operators: exact value or panic (panic only if out of the receiver's range)
    let sw = BigInt::from(s0.clone());
    boxed_op_(rep, "boxed.op_add_val_val", &sw, nl, rl, false, || xa.clone() + xb.clone());
    boxed_op_(rep, "boxed.op_add_val_ref", &sw, nl, rl, false, || xa.clone() + &xb);
    boxed_op_(rep, "boxed.op_add_ref_val", &sw, nl, rl, false, || &xa + xb.clone());
    boxed_op_(rep, "boxed.op_add_ref_ref", &sw, nl, rl, false, || &xa + &xb);
    boxed_op(rep, "boxed.op_add_assign", &sw, nl, rl, || {
        let mut t = xa.clone();
        t += xb.clone();
        t
    });
    boxed_op(rep, "boxed.op_add_assign_ref", &sw, nl, rl, || {
        let mut t = xa.clone();
        t += &xb;
        t
    });
    boxed_op_(rep, "boxed.op_sub_val_val", &d, nl, rl, false, || xa.clone() - xb.clone());
    boxed_op_(rep, "boxed.op_sub_val_ref", &d, nl, rl, false, || xa.clone() - &xb);
    boxed_op_(rep, "boxed.op_sub_ref_val", &d, nl, rl, false, || &xa - xb.clone());
    boxed_op_(rep, "boxed.op_sub_ref_ref", &d, nl, rl, false, || &xa - &xb);
    boxed_op(rep, "boxed.op_sub_assign", &d, nl, rl, || {
        let mut t = xa.clone();
        t -= xb.clone();
        t
    });
    boxed_op(rep, "boxed.op_sub_assign_ref", &d, nl, rl, || {
        let mut t = xa.clone();
        t -= &xb;
        t
    });
    // Wrapping<BoxedUint>: result modulo 2^BITS of the receiver (equal precisions only: the wider
    // case goes through adc_assign's documented panic)
    if rl == nl {
        let (wa, wb) = (Wrapping(xa.clone()), Wrapping(xb.clone()));
        let sm = &s0 & mask(64 * nl);
        exb(rep, "boxed.Wrapping.add", &(wa.clone() + wb.clone()).0, &sm, nl);
        exb(rep, "boxed.Wrapping.add_ref_ref", &(&wa + &wb).0, &sm, nl);
        let mut t = wa.clone();
        t += wb.clone();
        exb(rep, "boxed.Wrapping.add_assign", &t.0, &sm, nl);
        let mut t = wa.clone();
        t += &wb;
        exb(rep, "boxed.Wrapping.add_assign_ref", &t.0, &sm, nl);
        exb(rep, "boxed.Wrapping.sub", &(wa.clone() - wb.clone()).0, &dw, nl);
        exb(rep, "boxed.Wrapping.sub_ref_ref", &(&wa - &wb).0, &dw, nl);
        let mut t = wa.clone();
        t -= wb.clone();
        exb(rep, "boxed.Wrapping.sub_assign", &t.0, &dw, nl);
        let mut t = wa.clone();
        t -= &wb;
        exb(rep, "boxed.Wrapping.sub_assign_ref", &t.0, &dw, nl);
    }
}

fn boxed_uint<const R: usize>(c: &Case, rep: &mut Rep) {
    let (a, b) = (&c.a[0], &c.a[1]);
    let nl = a.len();
    if R > nl {
        rep.class("rhs_wider_than_receiver");
    }
    let mut ap = a.clone();
    ap.resize(nl.max(R), 0);
    classify_add(&ap, b, 0, 64 * nl.max(R), rep);
    rep.class("boxed_with_fixed_rhs");
    let xa = bx(a);
    let ub_ = u::<R>(b);
    let s = BigInt::from(to_big(a) + to_big(b));
    let d = BigInt::from(to_big(a)) - BigInt::from(to_big(b));
    boxed_op(rep, "boxed.op_add_uint_val_val", &s, nl, R, || xa.clone() + ub_);
    boxed_op(rep, "boxed.op_add_uint_val_ref", &s, nl, R, || xa.clone() + &ub_);
    boxed_op(rep, "boxed.op_add_uint_ref_val", &s, nl, R, || &xa + ub_);
    boxed_op(rep, "boxed.op_add_uint_ref_ref", &s, nl, R, || &xa + &ub_);
    boxed_op(rep, "boxed.op_add_assign_uint", &s, nl, R, || {
        let mut t = xa.clone();
        t += ub_;
        t
    });
    boxed_op(rep, "boxed.op_add_assign_uint_ref", &s, nl, R, || {
        let mut t = xa.clone();
        t += &ub_;
        t
    });
    boxed_op(rep, "boxed.op_sub_uint_val_val", &d, nl, R, || xa.clone() - ub_);
    boxed_op(rep, "boxed.op_sub_uint_val_ref", &d, nl, R, || xa.clone() - &ub_);
    boxed_op(rep, "boxed.op_sub_uint_ref_val", &d, nl, R, || &xa - ub_);
    boxed_op(rep, "boxed.op_sub_uint_ref_ref", &d, nl, R, || &xa - &ub_);
    boxed_op(rep, "boxed.op_sub_assign_uint", &d, nl, R, || {
        let mut t = xa.clone();
        t -= ub_;
        t
    });
    boxed_op(rep, "boxed.op_sub_assign_uint_ref", &d, nl, R, || {
        let mut t = xa.clone();
        t -= &ub_;
        t
    });
}
fn c_boxed_uint(c: &Case, rep: &mut Rep) {
    dispatch!(c.w[1], [1, 2, 3, 4, 8], boxed_uint(c, rep))
}

fn c_boxed_prim(c: &Case, rep: &mut Rep) {
    let a = &c.a[0];
    let nl = a.len();
    let kind = c.s[0];
    let v: u128 = ((c.s[2] as u128) << 64) | c.s[1] as u128;
    let xa = bx(a);
    rep.class("boxed_with_primitive_rhs");
    let (val, bytes): (u128, usize) = match kind {
        0 => (v as u8 as u128, 1),
        1 => (v as u16 as u128, 2),
        2 => (v as u32 as u128, 4),
        3 => (v as u64 as u128, 8),
        _ => (v, 16),
    };
    if bytes * 8 > 64 * nl {
        rep.class("rhs_wider_than_receiver");
    }
    let mut bl_ = vec![val as u64, (val >> 64) as u64];
    bl_.resize(nl.max(2), 0);
    let mut ap = a.clone();
    ap.resize(nl.max(2), 0);
    classify_add(&ap, &bl_, 0, 64 * nl.max(if kind == 4 { 2 } else { 1 }), rep);
    let s = BigInt::from(to_big(a) + BigUint::from(val));
    let d = BigInt::from(to_big(a)) - BigInt::from(val);
    macro_rules! prim {
        ($t:ty, $tag:expr) => {{
            let p = val as $t;
            boxed_op(rep, concat!("boxed.op_add_", $tag), &s, nl, core::mem::size_of::<$t>().div_ceil(8), || xa.clone() + p);
            boxed_op(rep, concat!("boxed.op_add_ref_", $tag), &s, nl, core::mem::size_of::<$t>().div_ceil(8), || &xa + p);
            boxed_op(rep, concat!("boxed.op_add_assign_", $tag), &s, nl, core::mem::size_of::<$t>().div_ceil(8), || {
                let mut t = xa.clone();
                t += p;
                t
            });
            boxed_op(rep, concat!("boxed.op_sub_", $tag), &d, nl, core::mem::size_of::<$t>().div_ceil(8), || xa.clone() - p);
            boxed_op(rep, concat!("boxed.op_sub_ref_", $tag), &d, nl, core::mem::size_of::<$t>().div_ceil(8), || &xa - p);
            boxed_op(rep, concat!("boxed.op_sub_assign_", $tag), &d, nl, core::mem::size_of::<$t>().div_ceil(8), || {
                let mut t = xa.clone();
                t -= p;
                t
            });
        }};
    }
    match kind {
        0 => prim!(u8, "u8"),
        1 => prim!(u16, "u16"),
        2 => prim!(u32, "u32"),
        3 => prim!(u64, "u64"),
        _ => prim!(u128, "u128"),
    }
}

fn c_boxed_neg(c: &Case, rep: &mut Rep) {
    let a = &c.a[0];
    let nl = a.len();
    if is_zero(a) {
        rep.class("neg_of_zero");
    } else {
        rep.nontrivial();
    }
    let want = to_big(&from_bigint(&-BigInt::from(to_big(a)), nl));
    let xa = bx(a);
    exb(rep, "boxed.wrapping_neg", &xa.wrapping_neg(), &want, nl);
    exb(rep, "boxed.WrappingNeg", &WrappingNeg::wrapping_neg(&xa), &want, nl);
    exb(rep, "boxed.Wrapping.neg", &(-Wrapping(xa.clone())).0, &want, nl);
}

// -------------------------------------------------------------------------------------------

fn gen_pair(r: &mut Rng, nl: usize, rl: usize) -> (Vec<u64>, Vec<u64>) {
    let a = match r.below(8) {
        0 => gn::max(nl),
        1 => (0..nl).map(|i| if i % 2 == 0 { 0 } else { u64::MAX }).collect(),
        2 => (0..nl).map(|i| if i % 2 == 0 { u64::MAX } else { 0 }).collect(),
        _ => gn::uint(r, nl),
    };
    let mut ap = a.clone();
    ap.resize(rl, 0);
    let b = match r.below(10) {
        0..=3 => {
            let mut v = gn::related(r, &ap);
            v.resize(rl, 0);
            v
        }
        4 => gn::one(rl),
        5 => {
            // a + b = 2^BITS(receiver) + {-1, 0, 1} where representable
            let t = pow2(64 * nl) + BigUint::from(r.below(3)) - 1u32;
            let ab = to_big(&a);
            if t >= ab && fits(&(&t - &ab), rl) { from_big(&(&t - &ab), rl) } else { gn::uint(r, rl) }
        }
        _ => gn::uint(r, rl),
    };
    (a, b)
}

const WIDTHS: [usize; 14] = [1, 2, 3, 4, 5, 6, 7, 8, 9, 10, 11, 12, 16, 32];
const CARRIES: [u64; 4] = [0, 1, 2, u64::MAX];

pub fn workload(ctx: &mut Ctx) {
    // Limb: palette^3 exhaustive (16*16*16) with carry palette, plus structured random
    let cins: Vec<u64> = gn::PALETTE.to_vec();
    for &a in &gn::PALETTE {
        for &b in &gn::PALETTE {
            if !ctx.mine() {
                continue;
            }
            for &c in &cins {
                ctx.exec(Case::new("limb.addsub").s(a).s(b).s(c), c_limb);
            }
        }
    }
    for _ in 0..ctx.iters(400_000) {
        let a = gn::limb(&mut ctx.rng);
        let b = match ctx.rng.below(4) {
            0 => a,
            1 => !a,
            2 => (!a).wrapping_add(1),
            _ => gn::limb(&mut ctx.rng),
        };
        let c = if ctx.rng.bool() { *ctx.rng.pick(&CARRIES) } else { gn::limb(&mut ctx.rng) };
        ctx.exec(Case::new("limb.addsub").s(a).s(b).s(c), c_limb);
    }
    for &l in &WIDTHS {
        let n = if l <= 12 { 150_000 } else { 60_000 };
        for _ in 0..ctx.iters(n) {
            let (a, b) = gen_pair(&mut ctx.rng, l, l);
            let cin = *ctx.rng.pick(&CARRIES);
            ctx.exec(Case::new("uint.addsub").w(l).a(a).a(b).s(cin), c_uint);
        }
        for _ in 0..ctx.iters(n / 4) {
            let a = gn::uint(&mut ctx.rng, l);
            ctx.exec(Case::new("uint.neg").w(l).a(a), c_uint_neg);
        }
    }
    for _ in 0..ctx.iters(600_000) {
        let nl = 1 + if ctx.rng.chance(3, 4) { ctx.rng.usize_below(8) } else { ctx.rng.usize_below(40) };
        let rl = match ctx.rng.below(4) {
            0 | 1 => nl,
            2 => 1 + ctx.rng.usize_below(nl),
            _ => (nl + 1 + ctx.rng.usize_below(3)).min(40),
        };
        let (a, b) = gen_pair(&mut ctx.rng, nl, rl);
        let cin = *ctx.rng.pick(&CARRIES);
        ctx.exec(Case::new("boxed.addsub").w(nl).w(rl).a(a).a(b).s(cin), c_boxed);
    }
    for _ in 0..ctx.iters(250_000) {
        let nl = 1 + ctx.rng.usize_below(10);
        let rl = *ctx.rng.pick(&[1usize, 2, 3, 4, 8]);
        let (a, b) = gen_pair(&mut ctx.rng, nl, rl);
        ctx.exec(Case::new("boxed.addsub_uint").w(nl).w(rl).a(a).a(b), c_boxed_uint);
    }
    for _ in 0..ctx.iters(250_000) {
        let nl = 1 + ctx.rng.usize_below(6);
        let a = match ctx.rng.below(4) {
            0 => gn::max(nl),
            1 => gn::zero(nl),
            _ => gn::uint(&mut ctx.rng, nl),
        };
        let kind = ctx.rng.below(5);
        let (lo, hi) = match ctx.rng.below(4) {
            0 => (u64::MAX, u64::MAX),
            1 => (1, 0),
            2 => {
                // make a + v hit 2^BITS exactly when possible
                let t = pow2(64 * nl) - to_big(&a);
                let l = from_big(&t, 2);
                (l[0], l[1])
            }
            _ => (gn::limb(&mut ctx.rng), gn::limb(&mut ctx.rng)),
        };
        ctx.exec(Case::new("boxed.addsub_prim").w(nl).a(a).s(kind).s(lo).s(hi), c_boxed_prim);
    }
    for _ in 0..ctx.iters(100_000) {
        let nl = 1 + ctx.rng.usize_below(40);
        let a = gn::uint(&mut ctx.rng, nl);
        ctx.exec(Case::new("boxed.neg").w(nl).a(a), c_boxed_neg);
    }
}
