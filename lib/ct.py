"""C01 — secret-independent execution: drivers of the trace monitors.

M2 (deciding): valgrind lackey on the uninstrumented optimised ct_target, 16 shards in parallel, every
secret variant of a cell compared with variant 0 (ct_reader does the streaming comparison).
M1: SanitizerCoverage build of the same target, in-process comparison over many more variants.
M3: gdb breakpoints on the hardware-division instructions executed inside regions (operands).
"""
import fnmatch
import json
import os
import re
import subprocess
import time
from concurrent.futures import ThreadPoolExecutor

NSHARDS = 16
DIV_OPERANDS = {}


def _build(drv, profile, extra=None, env=None, target=None):
    drv.cargo_build(profile, package="ct", extra_args=extra, extra_env=env)
    base = os.path.join(drv.TARGET, target, profile) if target else os.path.join(drv.TARGET, profile)
    return os.path.join(base, "ct_target"), os.path.join(base, "ct_reader")


def static_info(binary):
    nm = subprocess.run(["nm", binary], stdout=subprocess.PIPE, text=True).stdout
    anchor = None
    for line in nm.splitlines():
        parts = line.split()
        if len(parts) == 3 and parts[2] == "ct_anchor":
            anchor = parts[0]
    dis = subprocess.run(["objdump", "-d", "--no-show-raw-insn", binary], stdout=subprocess.PIPE, text=True).stdout
    divs = []
    for line in dis.splitlines():
        m = re.match(r"\s*([0-9a-f]+):\s+(div|idiv)[a-z]*\s+(\S+)", line)
        if m:
            divs.append(m.group(1))
            DIV_OPERANDS[(binary, m.group(1))] = m.group(3)
    return anchor, divs


def bt_reg_forms(binary):
    """Addresses of register-form bt/bts/btr/btc: valgrind emulates them through stack memory indexed
    by the bit number, which is not an access of the real instruction."""
    dis = subprocess.run(["objdump", "-d", "--no-show-raw-insn", binary], stdout=subprocess.PIPE, text=True).stdout
    out = []
    for line in dis.splitlines():
        m = re.match(r"\s*([0-9a-f]+):\s+(bt|bts|btr|btc)[lqw]?\s+(\S+)$", line)
        if m and "(" not in m.group(3):
            out.append(m.group(1))
    return out


_DEM = [("$LT$", "<"), ("$GT$", ">"), ("$u20$", " "), ("$C$", ","), ("$u7b$", "{"), ("$u7d$", "}"), ("$u5b$", "["), ("$u5d$", "]"),
        ("$RF$", "&"), ("$BP$", "*"), ("$u27$", "'"), ("$LP$", "("), ("$RP$", ")"), ("..", "::")]


def demangle(name):
    for a, b in _DEM:
        name = name.replace(a, b)
    name = re.sub(r" \(\.llvm\.\d+\)$", "", name)
    name = re.sub(r"\.llvm\.\d+$", "", name)
    name = re.sub(r"::h[0-9a-f]{16}$", "", name)
    if name.startswith("_<"):
        name = name[1:]
    return name


def short(name):
    """Function name without impl blocks / generic arguments: stable across widths and edits."""
    name = demangle(name)
    # drop `<impl ...>::` and `<T as Trait>::` segments (balanced angle brackets)
    out, depth = [], 0
    for ch in name:
        if ch == "<":
            depth += 1
        elif ch == ">":
            depth -= 1
        elif depth == 0:
            out.append(ch)
    name = "".join(out)
    name = re.sub(r"::+", "::", name).strip(":")
    name = name.replace("_::", "")
    return name.replace("crypto_bigint::", "")


def symbolize(binary, addrs):
    """addr (hex string) -> list of frames (innermost first) as (function, file:line)."""
    addrs = sorted(set(addrs))
    res = {}
    if not addrs:
        return res
    for i in range(0, len(addrs), 2000):
        chunk = addrs[i:i + 2000]
        p = subprocess.run(["llvm-symbolizer-14", "--obj=" + binary, "--inlines"], input="".join("0x%s\n" % a for a in chunk),
                           stdout=subprocess.PIPE, text=True)
        blocks = p.stdout.split("\n\n")
        for a, b in zip(chunk, blocks):
            lines = [l for l in b.strip().splitlines() if l]
            frames = []
            for k in range(0, len(lines) - 1, 2):
                frames.append((lines[k], lines[k + 1]))
            res[a] = frames
    return res


def crate_frames(frames):
    """(innermost in-crate function, outermost in-crate function) of an inline stack, or harness/std names."""
    inner = outer = None
    for fn, loc in frames:
        if "/repo/src/" in loc:
            s = short(fn)
            if inner is None:
                inner = s
            outer = s
    if inner is None:
        if frames:
            s = short(frames[0][0])
            return s, s
        return "?", "?"
    return inner, outer


def run_shards(drv, target, reader, tier, nvar, seed, tag, only=None, anchor=None, divs=None):
    os.makedirs(drv.OUTDIR, exist_ok=True)
    divfile = os.path.join(drv.OUTDIR, "C01-divs-%s.txt" % tag)
    with open(divfile, "w") as f:
        f.write("\n".join(divs or []))

    btfile = os.path.join(drv.OUTDIR, "C01-bt-%s.txt" % tag)
    with open(btfile, "w") as f:
        f.write("\n".join(bt_reg_forms(target)))

    def one(i):
        out = os.path.join(drv.OUTDIR, "C01-%s-%d.json" % (tag, i))
        if os.path.exists(out):
            os.remove(out)
        cmd = [reader, "--target", target, "--out", out]
        if anchor:
            cmd += ["--anchor-vaddr", anchor, "--divs", divfile, "--ignore-data", btfile]
        cmd += ["--", "run", "--tier", tier, "--variants", str(nvar), "--seed", str(seed), "--shard", "%d/%d" % (i, NSHARDS)]
        if only:
            cmd += ["--only", only]
        try:
            p = subprocess.run(cmd, cwd=drv.HARNESS, env=drv.ENV, stdout=subprocess.PIPE, stderr=subprocess.STDOUT, text=True, timeout=3 * 3600)
        except subprocess.TimeoutExpired:
            return {"_failed": "shard %d: watchdog fired" % i}
        if p.returncode != 0 or not os.path.exists(out):
            return {"_failed": "shard %d: reader exited %s: %s" % (i, p.returncode, p.stdout[-500:])}
        return json.load(open(out))

    with ThreadPoolExecutor(NSHARDS) as ex:
        return list(ex.map(one, range(NSHARDS)))


def load_known_c01(drv):
    out = []
    if not os.path.exists(drv.KNOWN):
        return out
    for line in open(drv.KNOWN):
        line = line.strip()
        if not line.startswith("known:") or "property=C01" not in line:
            continue
        body, _, text = line[len("known:"):].partition(" :: ")
        f = {}
        for tok in body.split():
            if "=" in tok:
                k, _, v = tok.partition("=")
                f[k] = v
        if "key" in f:
            out.append({"key": f["key"], "allowed": set(x for x in f.get("allowed", "").split(",") if x), "text": text.strip()})
    return out


def analyse(drv, binary, shards, tag):
    """Turn shard outputs into a vprops-like result dict (violations keyed by op and root function)."""
    res = {"evaluations": 0, "distinct_nontrivial": 0, "ops": {}, "classes": {}, "violations": [], "inconclusive": [], "mandatory_missing": [],
           "samples": [], "notes": {}}
    diverged = []
    aa_ok = aa_bad = 0
    records = 0
    cells = set()
    div_regions = 0
    div_sites = {}
    trunc = 0
    for sh in shards:
        if "_failed" in sh:
            res["inconclusive"].append("%s: %s" % (tag, sh["_failed"]))
            continue
        if sh.get("exit") != 0:
            res["inconclusive"].append("%s: target exited %s" % (tag, sh.get("exit")))
        records += sh.get("total_records", 0)
        idx = {e["seq"]: e for e in sh["index"] if "seq" in e}
        footer = [e for e in sh["index"] if e.get("footer")]
        if not footer or footer[0].get("regions") != len(sh["regions"]):
            res["inconclusive"].append("%s: region count mismatch (target %s, tracer %d)" % (tag, footer[0].get("regions") if footer else None, len(sh["regions"])))
            continue
        bad_cells = set()
        base_class = {}
        for r in sh["regions"]:
            e = idx.get(r["seq"])
            if e is None or e["kind"] == "warm":
                continue
            ck = (e["op"], e["width"], e["public"])
            cells.add(ck)
            if r.get("truncated"):
                trunc += 1
                bad_cells.add(ck)
            for site, n in r.get("hw_div", []):
                div_sites[site] = div_sites.get(site, 0) + n
            if r.get("hw_div"):
                div_regions += 1
            if e["kind"] == "base":
                base_class[ck] = (e["secret"], r)
                continue
            if e["kind"] == "aa":
                if r.get("equal"):
                    aa_ok += 1
                else:
                    aa_bad += 1
                    bad_cells.add(ck)
                    res["inconclusive"].append("%s: A/A control failed for %s w=%s %s (same input, different trace)" % (tag, e["op"], e["width"], e["public"]))
                continue
            if ck in bad_cells:
                continue
            res["evaluations"] += 1
            res["ops"][e["op"]] = res["ops"].get(e["op"], 0) + 1
            res["classes"]["width_%s" % e["width"]] = res["classes"].get("width_%s" % e["width"], 0) + 1
            bsec = base_class.get(ck, ({}, None))[0]
            if bsec.get("class") != e["secret"].get("class"):
                res["distinct_nontrivial"] += 1
            if r.get("equal") is False:
                diverged.append((e, bsec, r))
            if len(res["samples"]) < 6 and r.get("equal"):
                res["samples"].append({"op": e["op"], "width": e["width"], "public": e["public"], "secret_a": bsec, "secret_b": e["secret"],
                                       "trace_records": r["count"], "trace_hash": r["hash"], "equal": True})
    # symbolise everything that diverged
    addrs = set()
    for e, b, r in diverged:
        fd = r.get("first_diff") or {}
        for a in (fd.get("insn"), fd.get("base_insn")):
            if a and a != "0":
                addrs.add(a)
        addrs.update(r.get("cf_insns", []))
        addrs.update(r.get("addr_insns", []))
    sym = symbolize(binary, addrs)
    known = load_known_c01(drv)
    agg = {}
    for e, b, r in diverged:
        fd = r.get("first_diff") or {}
        cands = [a for a in (fd.get("insn"), fd.get("base_insn")) if a and a != "0"]
        roots = sorted(set("%s<%s" % crate_frames(sym.get(a, [])) for a in cands)) or ["?"]
        # the two differing instructions usually sit in the same function; prefer one with an
        # in-crate frame, then the lexicographically first, for a stable key
        incrate = [x for x in roots if not x.startswith(("ct_target::", "core::", "alloc::", "std::", "?"))]
        root = (incrate or roots)[0]
        cf = sorted(set(crate_frames(sym.get(a, []))[0] for a in r.get("cf_insns", [])))
        ad = sorted(set(crate_frames(sym.get(a, []))[0] for a in r.get("addr_insns", [])))
        key = "%s|vary=%s|root=%s" % (e["op"], e.get("vary", "all"), root)
        # known-finding containment: a listed root only covers the listed functions
        for k in known:
            if fnmatch.fnmatchcase(key, k["key"]):
                extra = sorted(f for f in (set(cf) | set(ad)) if not any(fnmatch.fnmatchcase(f, g) for g in k["allowed"]))
                if extra:
                    key = key + ";extra=" + ",".join(extra[:6])
                break
        locs = sorted(set(sym[a][0][1] for a in cands if sym.get(a)))
        detail = ("trace differs from variant 0 of the same cell (width %s, public [%s]) at record %s: %d vs %d records; first differing instruction in %s (%s); "
                  "functions with different execution counts: %s; functions with equal counts but different data addresses: %s; secret A %s; secret B %s"
                  % (e["width"], e["public"], fd.get("index"), r["count"], r.get("base_count", 0), roots, ", ".join(locs), cf[:12], ad[:12],
                     json.dumps(b)[:300], json.dumps(e["secret"])[:300]))
        a = agg.setdefault(key, {"key": key, "detail": detail, "count": 0, "case": {"op": e["op"], "width": e["width"], "public": e["public"], "secret_a": b, "secret_b": e["secret"], "binary": tag, "vary": e.get("vary", "all")},
                                 "property": "C01", "cf": set(), "addr": set()})
        a["count"] += 1
        a["cf"].update(cf)
        a["addr"].update(ad)
    summary = {}
    for a in agg.values():
        a["case"]["cf_functions"] = sorted(a.pop("cf"))
        a["case"]["addr_functions"] = sorted(a.pop("addr"))
        root = a["key"].split("|root=")[1]
        s = summary.setdefault(root, {"ops": [], "cf": set(), "addr": set()})
        s["ops"].append(a["key"].split("|")[0] + " x%d" % a["count"])
        s["cf"].update(a["case"]["cf_functions"])
        s["addr"].update(a["case"]["addr_functions"])
    with open(os.path.join(drv.OUTDIR, "C01-summary-%s.json" % tag), "w") as f:
        json.dump({k: {"ops": v["ops"], "cf": sorted(v["cf"]), "addr": sorted(v["addr"])} for k, v in summary.items()}, f, indent=1)
    res["violations"] = list(agg.values())
    res["notes"] = {"cells": len(cells), "aa_controls_passed": aa_ok, "aa_controls_failed": aa_bad, "trace_records": records,
                    "regions_diverged": len(diverged), "regions_truncated": trunc, "regions_executing_hw_division": div_regions,
                    "hw_division_sites_executed": {k: v for k, v in sorted(div_sites.items())}}
    res["classes"]["cells"] = len(cells)
    res["classes"]["aa_controls_passed"] = aa_ok
    if aa_ok == 0:
        res["inconclusive"].append("%s: no A/A control passed" % tag)
    return res


def gdb_stage(drv, target, anchor, tier, nvar, seed, lackey_res, shards):
    """M3: operands of the hardware divisions executed inside compared regions, captured with gdb
    breakpoints (only for the operations whose regions executed a division in the lackey stage)."""
    res = {"evaluations": 0, "distinct_nontrivial": 0, "ops": {}, "classes": {}, "violations": [], "inconclusive": [], "mandatory_missing": [],
           "samples": [], "notes": {}}
    sites = sorted(lackey_res["notes"].get("hw_division_sites_executed", {}).keys())
    ops = set()
    for sh in shards:
        if "_failed" in sh:
            continue
        idx = {e["seq"]: e for e in sh["index"] if "seq" in e}
        for r in sh["regions"]:
            if r.get("hw_div") and r["seq"] in idx and idx[r["seq"]]["kind"] != "warm":
                ops.add(idx[r["seq"]]["op"])
    res["notes"] = {"division_sites": sites, "operations_executing_divisions": sorted(ops)}
    if not sites or not ops:
        res["evaluations"] = 1
        res["classes"]["no_hw_division_executed_in_any_region"] = 1
        return res
    opsfile = os.path.join(drv.OUTDIR, "C01-gdb-ops.txt")
    with open(opsfile, "w") as f:
        f.write("\n".join(sorted(ops)))
    out = os.path.join(drv.OUTDIR, "C01-gdb-hits.jsonl")
    idxf = os.path.join(drv.OUTDIR, "C01-gdb-index.jsonl")
    env = dict(drv.ENV)
    env["CT_DIV_SITES"] = ",".join("%s:%s" % (s_, DIV_OPERANDS.get((target, s_), "?")) for s_ in sites)
    env["CT_DIV_OUT"] = out
    env["CT_ANCHOR"] = anchor
    nm = subprocess.run(["nm", target], stdout=subprocess.PIPE, text=True).stdout
    for line in nm.splitlines():
        parts = line.split()
        if len(parts) == 3 and parts[2] in ("CT_ACTIVE", "CT_SEQ"):
            env["%s_VADDR" % parts[2]] = parts[0]
    cmd = ["gdb", "-q", "-batch", "-x", os.path.join(drv.ROOT, "lib", "gdb_div.py"), "--args", target, "run", "--tier", tier, "--variants", str(nvar),
           "--seed", str(seed), "--shard", "0/1", "--ops-file", opsfile]
    try:
        with open(idxf, "w") as fo:
            p = subprocess.run(cmd, cwd=drv.HARNESS, env=env, stdout=fo, stderr=subprocess.PIPE, text=True, timeout=3600)
    except subprocess.TimeoutExpired:
        res["inconclusive"].append("gdb stage: watchdog fired")
        return res
    if not os.path.exists(out):
        res["inconclusive"].append("gdb stage produced no log: %s" % p.stderr[-400:])
        return res
    index = {}
    for l in open(idxf):
        if l.startswith("{"):
            try:
                j = json.loads(l)
            except ValueError:
                continue
            if "seq" in j:
                index[j["seq"]] = j
    hits = {}
    for l in open(out):
        j = json.loads(l)
        hits.setdefault(j["seq"], []).append((j["site"], j["rax"], j["rdx"], j["divisor"]))
    if not index:
        res["inconclusive"].append("gdb stage: no region index (target did not run): %s" % p.stderr[-400:])
        return res
    sym = symbolize(target, sites)
    base = {}
    agg = {}
    nhits = 0
    for seq in sorted(index):
        e = index[seq]
        ck = (e["op"], e["width"], e["public"])
        h = hits.get(seq, [])
        nhits += len(h)
        if e["kind"] == "base":
            base[ck] = (h, e["secret"])
            continue
        if e["kind"] != "var" or ck not in base:
            continue
        res["evaluations"] += 1
        res["ops"][e["op"]] = res["ops"].get(e["op"], 0) + 1
        bh, bsec = base[ck]
        if h != bh:
            first = next((i for i, (a, b) in enumerate(zip(h, bh)) if a != b), min(len(h), len(bh)))
            site = (h[first] if first < len(h) else bh[first])[0]
            fn = crate_frames(sym.get(site, []))[0]
            key = "%s|vary=%s|root=hwdiv:%s" % (e["op"], e.get("vary", "all"), fn)
            detail = ("operands of a hardware division differ from variant 0 (width %s, public [%s]): hit %d at %s in %s: (rax, rdx, divisor) = %s vs %s; %d vs %d divisions; secret A %s; secret B %s"
                      % (e["width"], e["public"], first, site, fn, h[first][1:] if first < len(h) else None, bh[first][1:] if first < len(bh) else None, len(h), len(bh),
                         json.dumps(bsec)[:300], json.dumps(e["secret"])[:300]))
            a = agg.setdefault(key, {"key": key, "detail": detail, "count": 0, "property": "C01",
                                     "case": {"op": e["op"], "width": e["width"], "public": e["public"], "secret_a": bsec, "secret_b": e["secret"], "binary": "vrel",
                                              "vary": e.get("vary", "all"), "monitor": "gdb-div"}})
            a["count"] += 1
    res["violations"] = list(agg.values())
    res["notes"]["division_hits_logged"] = nhits
    res["classes"]["hw_division_hits"] = nhits
    return res


SANCOV_FLAGS = ("-Cpasses=sancov-module -Cllvm-args=-sanitizer-coverage-level=3 -Cllvm-args=-sanitizer-coverage-trace-pc-guard "
                "-Cllvm-args=-sanitizer-coverage-trace-divs -Cllvm-args=-sanitizer-coverage-trace-geps "
                "-Cllvm-args=-sanitizer-coverage-trace-loads -Cllvm-args=-sanitizer-coverage-trace-stores")
COV_TRIPLE = "x86_64-unknown-linux-gnu"


def cov_stage(drv, tier, seed):
    """M1: SanitizerCoverage build, in-process comparison of many more secret variants per cell."""
    drv.cargo_build("vrel", package="ct", extra_args=["--features", "cov", "--target", COV_TRIPLE], extra_env={"RUSTFLAGS": SANCOV_FLAGS})
    target = os.path.join(drv.TARGET, COV_TRIPLE, "vrel", "ct_target")
    anchor, _ = static_info(target)
    nvar = 256 if tier == "quick" else 4096
    res = {"evaluations": 0, "distinct_nontrivial": 0, "ops": {}, "classes": {}, "violations": [], "inconclusive": [], "mandatory_missing": [],
           "samples": [], "notes": {}}

    def one(i):
        cmd = [target, "cov", "--tier", tier, "--variants", str(nvar), "--seed", str(seed), "--shard", "%d/%d" % (i, NSHARDS)]
        try:
            p = subprocess.run(cmd, cwd=drv.HARNESS, env=drv.ENV, stdout=subprocess.PIPE, stderr=subprocess.PIPE, text=True, timeout=3600)
        except subprocess.TimeoutExpired:
            return None, "cov shard %d: watchdog fired" % i
        if p.returncode != 0:
            return None, "cov shard %d exited %s: %s" % (i, p.returncode, p.stderr[-400:])
        return [json.loads(l) for l in p.stdout.splitlines() if l.startswith("{")], None

    with ThreadPoolExecutor(NSHARDS) as ex:
        outs = list(ex.map(one, range(NSHARDS)))
    cells = []
    pcs = set()
    events = 0
    aa_ok = 0
    div_events = 0
    for lines, err in outs:
        if err:
            res["inconclusive"].append(err)
            continue
        bias = 0
        for j in lines:
            if j.get("header"):
                bias = j["anchor"] - int(anchor, 16)
            if "cell" not in j:
                continue
            j["_bias"] = bias
            cells.append(j)
            if not j["aa_ok"]:
                res["inconclusive"].append("cov: A/A control failed for %s w=%s %s" % (j["op"], j["width"], j["public"]))
                continue
            aa_ok += 1
            events += j["events"] * j["variants"]
            div_events += j.get("div_events", 0)
            res["evaluations"] += j["variants"] - 1
            res["distinct_nontrivial"] += len(set(j.get("classes", []))) - 1
            res["ops"][j["op"]] = res["ops"].get(j["op"], 0) + j["variants"] - 1
            for d in j["diverged"]:
                for ev in (d.get("event_a"), d.get("event_b")):
                    if ev:
                        pcs.add("%x" % (ev["pc"] - bias - 1))
                for pc in d.get("cf_pcs", []) + d.get("addr_pcs", []):
                    pcs.add("%x" % (pc - bias - 1))
    sym = symbolize(target, pcs)
    known = load_known_c01(drv)
    agg = {}
    for j in cells:
        bias = j["_bias"]
        for d in j["diverged"]:
            if d.get("unlocated"):
                continue
            cands = ["%x" % (ev["pc"] - bias - 1) for ev in (d.get("event_a"), d.get("event_b")) if ev]
            roots = sorted(set("%s<%s" % crate_frames(sym.get(a, [])) for a in cands)) or ["?"]
            incrate = [x for x in roots if not x.startswith(("ct_target::", "core::", "alloc::", "std::", "?"))]
            root = (incrate or roots)[0]
            cf = sorted(set(crate_frames(sym.get("%x" % (pc - bias - 1), []))[0] for pc in d.get("cf_pcs", [])))
            ad = sorted(set(crate_frames(sym.get("%x" % (pc - bias - 1), []))[0] for pc in d.get("addr_pcs", [])))
            key = "%s|vary=%s|root=%s" % (j["op"], d.get("vary", "all"), root)
            for k in known:
                if fnmatch.fnmatchcase(key, k["key"]):
                    extra = sorted(f for f in (set(cf) | set(ad)) if not any(fnmatch.fnmatchcase(f, g) for g in k["allowed"]))
                    if extra:
                        key = key + ";extra=" + ",".join(extra[:6])
                    break
            kinds = {1: "edge", 2: "div-operand", 3: "gep-index", 4: "load-address", 5: "store-address"}
            ea, eb = d.get("event_a") or {}, d.get("event_b") or {}
            detail = ("IR-level event trace differs from variant 0 (width %s, public [%s]) at event %s (%d vs %d events): A %s %#x, B %s %#x in %s; "
                      "functions with different event counts: %s; equal counts but different values: %s; division operands differ: %s; secret A %s; secret B %s"
                      % (j["width"], j["public"], d.get("first_index"), d.get("len_a", 0), d.get("len_b", 0), kinds.get(ea.get("kind")), ea.get("val", 0),
                         kinds.get(eb.get("kind")), eb.get("val", 0), roots, cf[:12], ad[:12], d.get("div_operands_differ"),
                         json.dumps(d.get("secret_a"))[:300], json.dumps(d.get("secret_b"))[:300]))
            a = agg.setdefault(key, {"key": key, "detail": detail, "count": 0, "property": "C01",
                                     "case": {"op": j["op"], "width": j["width"], "public": j["public"], "secret_a": d.get("secret_a"), "secret_b": d.get("secret_b"),
                                              "binary": "vrel", "vary": d.get("vary", "all"), "monitor": "sancov", "cf_functions": cf, "addr_functions": ad}})
            a["count"] += 1
    res["violations"] = list(agg.values())
    res["classes"]["cov_cells"] = len(cells)
    res["classes"]["cov_aa_controls_passed"] = aa_ok
    res["notes"] = {"cells": len(cells), "variants_per_cell": nvar, "events_compared": events, "ir_division_events_in_base_runs": div_events}
    return res


def c01(drv, prop, tier, seed):
    t0 = time.time()
    results = []
    nvar = 8 if tier == "quick" else 24
    target, reader = _build(drv, "vrel")
    anchor, divs = static_info(target)
    shards = run_shards(drv, target, reader, tier, nvar, seed, "vrel", anchor=anchor, divs=divs)
    lres = analyse(drv, target, shards, "vrel")
    results.append(("lackey/vrel", lres))
    results.append(("gdb-div/vrel", gdb_stage(drv, target, anchor, tier, nvar, seed, lres, shards)))
    results.append(("sancov/vrel", cov_stage(drv, tier, seed)))
    if tier == "thorough":
        target2, reader2 = _build(drv, "vlto")
        anchor2, divs2 = static_info(target2)
        shards = run_shards(drv, target2, reader2, tier, nvar, seed, "vlto", anchor=anchor2, divs=divs2)
        results.append(("lackey/vlto", analyse(drv, target2, shards, "vlto")))
    return drv.finish(prop, tier, seed, t0, results, assumptions=[
        "leakage model of the property: executed instruction sequence (control-flow edges) and every data address read or written, as recorded by valgrind lackey on the unmodified optimised binary; hardware-division operands are observed only as 'which division instructions executed'",
        "secret variants are sampled from the property's classes (0, 1, MAX, powers of two, limb-boundary bit lengths, equal operands, modulus-1, random); a secret-dependent path taken by none of the sampled variants is not observed",
        "roles (which operand is secret / public) are transcribed from the crate documentation in harness/ct/src/ops.rs",
        "one compiler (the pinned rustc), optimisation profiles vrel (and vlto in the thorough tier), x86-64",
    ])


def replay(drv, path):
    v = json.load(open(path))
    case = v.get("case", v)
    profile = case.get("binary", "vrel")
    target, reader = _build(drv, profile)
    anchor, divs = static_info(target)
    pf = os.path.join(drv.OUTDIR, "C01-pair.json")
    json.dump(case, open(pf, "w"))
    out = os.path.join(drv.OUTDIR, "C01-pair-out.json")
    btfile = os.path.join(drv.OUTDIR, "C01-bt-replay.txt")
    with open(btfile, "w") as f:
        f.write("\n".join(bt_reg_forms(target)))
    p = subprocess.run([reader, "--target", target, "--out", out, "--anchor-vaddr", anchor, "--ignore-data", btfile, "--", "pair", pf], cwd=drv.HARNESS, env=drv.ENV)
    if p.returncode != 0:
        print("replay: machinery failure")
        return 2
    sh = json.load(open(out))
    res = analyse(drv, target, [sh], profile)
    if res["violations"]:
        for x in res["violations"]:
            print("replay: FAIL key=%s\n  %s" % (x["key"], x["detail"]))
        return 1
    print("replay: traces equal (%d regions compared)" % res["evaluations"])
    return 0
