"""Checks that need more than one vprops run (C01 trace monitors, C11 two profiles + Miri, ...)."""
import json
import os
import subprocess
import time

SWEEP = ["C02", "C03", "C04", "C05", "C06", "C07", "C08", "C09", "C10", "C12", "C13", "C14", "C15", "C16", "C17", "C18",
         "C19", "C20"]


def _panic_only(r, sub):
    """Keep only panic-class verdicts of another property's workload and re-label its counters."""
    if "_failed" in r:
        return r
    keep = [v for v in r.get("violations", []) if "panic" in v["key"]]
    out = {
        "evaluations": r.get("evaluations", 0),
        "distinct_nontrivial": r.get("distinct_nontrivial", 0),
        "ops": {"%s/%s" % (sub, k): v for k, v in r.get("ops", {}).items()},
        "classes": {"sweep_cases_%s" % sub: r.get("evaluations", 0)},
        "violations": keep,
        "inconclusive": r.get("inconclusive", []),
        "mandatory_missing": [],
        "samples": r.get("samples", [])[:1],
        "notes": {"debug_assertions": r.get("debug_assertions"),
                  "non_panic_verdicts_ignored_here": len(r.get("violation_keys", {})) - len({v["key"] for v in keep})},
    }
    return out


def c11(drv, prop, tier, seed):
    t0 = time.time()
    results = []
    sub_tier = "lite" if tier == "quick" else "quick"
    for profile in ("vrel", "vdbg"):
        drv.cargo_build(profile)
        r = drv.run_vprops("C11", profile, tier, seed, timeout=7200)
        if "_failed" not in r and r.get("debug_assertions") != (profile == "vdbg"):
            r = {"_failed": "profile %s was built with debug_assertions=%s" % (profile, r.get("debug_assertions"))}
        results.append(("%s/own" % profile, r))
        for sub in SWEEP:
            r = drv.run_vprops("C11", profile, sub_tier, seed, sub=sub, timeout=7200)
            results.append(("%s/%s" % (profile, sub), _panic_only(r, sub)))
    extra = {}
    if tier == "thorough":
        m = miri(drv, seed)
        if isinstance(m, dict):
            m = [m]
        for k, r in enumerate(m):
            results.append(("miri/%d" % k, r))
    return drv.finish(prop, tier, seed, t0, results, extra_cov=extra, assumptions=[
        "a panic, failed assertion, arithmetic-overflow trap or out-of-bounds index surfaces as an unwinding panic that catch_unwind observes (both profiles are built with panic=unwind)",
        "non-termination is bounded only by a wall-clock watchdog whose firing is reported as inconclusive, not as a violation",
        "held on the executions observed only; the hostile-argument workload samples values, the sweep re-runs the other properties' workloads at reduced budget",
    ])


def miri(drv, seed, nproc=8):
    """Single-threaded passes of the (reduced) hostile-argument workload under Miri, one process per
    seed: undefined behaviour in the few unsafe casts, plus debug assertions and overflow checks at
    opt-level 0.  Results of the processes are merged."""
    os.makedirs(drv.OUTDIR, exist_ok=True)
    env = dict(drv.ENV)
    env["MIRIFLAGS"] = "-Zmiri-disable-isolation"
    env["CARGO_TARGET_DIR"] = os.path.join(drv.TARGET, "miri")
    base = ["cargo", "+nightly", "miri", "run", "--offline", "-p", "props", "--"]
    p = subprocess.run(base + ["list"], cwd=drv.HARNESS, env=env, stdout=subprocess.PIPE, stderr=subprocess.STDOUT, text=True)
    if p.returncode != 0:
        return {"_failed": "miri build/list failed: %s" % p.stdout[-1500:]}

    def one(k):
        out = os.path.join(drv.OUTDIR, "C11-miri-%d.json" % k)
        if os.path.exists(out):
            os.remove(out)
        cmd = base + ["run", "C11", "--tier", "miri", "--seed", str(seed * 100 + k), "--threads", "1", "--out", out]
        try:
            p = subprocess.run(cmd, cwd=drv.HARNESS, env=env, stdout=subprocess.PIPE, stderr=subprocess.STDOUT, text=True, timeout=3600)
        except subprocess.TimeoutExpired:
            return {"_failed": "miri watchdog fired — inconclusive"}
        if p.returncode != 0 or not os.path.exists(out):
            tail = p.stdout[-3000:]
            if "Undefined Behavior" in tail:
                # a Miri UB report aborts the interpreter: surface it as a violation with the report as detail
                return {"evaluations": 1, "violations": [{"key": "miri|undefined_behavior", "detail": tail, "case": {}, "count": 1}]}
            return {"_failed": "miri run exited %s: %s" % (p.returncode, tail[-1500:])}
        r = json.load(open(out))
        r["mandatory_missing"] = []
        r["classes"] = {"miri_calls": r.get("classes", {}).get("calls", 0)}
        return r

    from concurrent.futures import ThreadPoolExecutor
    with ThreadPoolExecutor(nproc) as ex:
        rs = list(ex.map(one, range(nproc)))
    return rs


def c01(drv, prop, tier, seed):
    import ct
    return ct.c01(drv, prop, tier, seed)


SPECIAL = {"C11": c11, "C01": c01}


def setup(drv):
    drv.cargo_build("vrel")
    drv.cargo_build("vdbg")
    drv.cargo_build("vrel", package="ct")
    return 0
