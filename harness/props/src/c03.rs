//! C03 — multiplication and squaring return the exact product for all widths.
use crate::util::*;
use crate::{dispatch, dispatch2};
use crypto_bigint::{
    BoxedUint, Checked, CheckedMul, ConcatMixed, Limb, Uint, WideningMul, Wrapping, WrappingMul,
};

pub const DEF: PropDef = PropDef {
    id: "C03",
    workload,
    ops,
    mandatory: &[
        "kara16_top_all9", "kara32_top_all9", "kara64_top_all9", "kara128_top_all9", "boxed_kara_top_all9",
        "overflow_exact_boundary", "max_carry_chain", "boxed_unequal_len", "boxed_odd_len", "mac_palette",
    ],
    rule: "cases are operand tuples for every multiplication/squaring form: fixed widths 1..12,16,32,64,128 (equal) and {1,2,3,4,8,16}^2 (mixed), boxed 1..=140 limbs equal/unequal; operands come from the structured generator plus Karatsuba-targeted constructions that force every sign combination of (x0-x1, y1-y0) in {<,=,>}^2 at the top and second recursion level; non-trivial = the oracle-side classifier puts the case in a named class (Karatsuba sign combination, all-ones carry chain, product at the 2^BITS boundary, zero half, single bits, unequal/odd boxed lengths, palette mac); distinct by 64-bit hash of (op, widths, operands)",
};

pub fn ops() -> Vec<(&'static str, Checker)> {
    vec![
        ("limb.mul", c_limb_mul),
        ("limb.mac", c_limb_mac),
        ("uint.mul", c_uint_mul),
        ("uint.mul_mixed", c_uint_mul_mixed),
        ("uint.square", c_uint_square),
        ("boxed.mul", c_boxed_mul),
        ("boxed.square", c_boxed_square),
    ]
}

fn ex(rep: &mut Rep, rel: &str, got: &[u64], want: &[u64]) {
    if got != want {
        rep.fail(rel, format!("got {} want {}", hex(got), hex(want)));
    }
}


// -------------------------------------------------------------------------------------------
// classification

fn cmp_limbs(a: &[u64], b: &[u64]) -> std::cmp::Ordering {
    for i in (0..a.len()).rev() {
        if a[i] != b[i] {
            return a[i].cmp(&b[i]);
        }
    }
    std::cmp::Ordering::Equal
}

fn sign_code(o: std::cmp::Ordering) -> char {
    match o {
        std::cmp::Ordering::Less => 'n',
        std::cmp::Ordering::Equal => 'z',
        std::cmp::Ordering::Greater => 'p',
    }
}

/// Karatsuba sign class of (x0 - x1, y1 - y0) for equal-length operands split in half.
fn kara_class(x: &[u64], y: &[u64]) -> String {
    let h = x.len() / 2;
    let sx = sign_code(cmp_limbs(&x[..h], &x[h..2 * h]));
    let sy = sign_code(cmp_limbs(&y[h..2 * h], &y[..h]));
    format!("{}{}", sx, sy)
}

fn classify_mul(prefix: &str, x: &[u64], y: &[u64], rep: &mut Rep) {
    let n = x.len();
    if n == y.len() && n >= 2 && n % 2 == 0 {
        rep.class(&format!("{}_top_{}", prefix, kara_class(x, y)));
        let h = n / 2;
        if h >= 2 && h % 2 == 0 {
            // second level: the z0 sub-product (x0*y0)
            rep.tally(&format!("{}_l2_{}", prefix, kara_class(&x[..h], &y[..h])));
        }
    }
    if x.iter().all(|&l| l == u64::MAX) || y.iter().all(|&l| l == u64::MAX) {
        rep.class("max_carry_chain");
    }
    if n >= 2 && (is_zero(&x[..n / 2]) || is_zero(&x[n / 2..])) && !is_zero(x) {
        rep.class("zero_half");
    }
    let (bx_, by_) = (to_big(x), to_big(y));
    if bx_.count_ones() == 1 && by_.count_ones() == 1 {
        rep.class("single_bits");
    }
    let p = &bx_ * &by_;
    let bits = 64 * n;
    if p == pow2(bits) || p + 1u32 == pow2(bits) {
        rep.class("overflow_exact_boundary");
    }
}

// -------------------------------------------------------------------------------------------
// checkers

fn c_limb_mac(c: &Case, rep: &mut Rep) {
    let (a, b, cc, carry) = (c.s[0], c.s[1], c.s[2], c.s[3]);
    rep.class("mac_palette");
    let want = a as u128 + (b as u128) * (cc as u128) + carry as u128;
    let (lo, hi) = Limb(a).mac(Limb(b), Limb(cc), Limb(carry));
    let got = ((hi.0 as u128) << 64) | lo.0 as u128;
    if got != want {
        rep.fail("Limb::mac", format!("got {:x} want {:x}", got, want));
    }
}

fn c_limb_mul(c: &Case, rep: &mut Rep) {
    let (a, b) = (c.s[0], c.s[1]);
    let p = (a as u128) * (b as u128);
    let ovf = p >> 64 != 0;
    if ovf {
        rep.class("limb_overflow");
    } else {
        rep.class("limb_fits");
    }
    if p == 1u128 << 64 || p == (1u128 << 64) - 1 {
        rep.class("overflow_exact_boundary");
    }
    let (la, lb) = (Limb(a), Limb(b));
    let lo = p as u64;
    if la.wrapping_mul(lb).0 != lo {
        rep.fail("Limb::wrapping_mul", format!("got {:x}", la.wrapping_mul(lb).0));
    }
    if WrappingMul::wrapping_mul(&la, &lb).0 != lo {
        rep.fail("Limb::WrappingMul", "mismatch".into());
    }
    let sat = if ovf { u64::MAX } else { lo };
    if la.saturating_mul(lb).0 != sat {
        rep.fail("Limb::saturating_mul", format!("got {:x} want {:x}", la.saturating_mul(lb).0, sat));
    }
    match ct(CheckedMul::checked_mul(&la, &lb)) {
        Some(x) => {
            if ovf || x.0 != lo {
                rep.fail("Limb::checked_mul", format!("some({:x}) ovf={}", x.0, ovf));
            }
        }
        None => {
            if !ovf {
                rep.fail("Limb::checked_mul", "none without overflow".into());
            }
        }
    }
    for (name, r) in [
        ("Limb.op_mul_val_val", panics_iff(rep, "Limb.op_mul_val_val", ovf, || la * lb)),
        ("Limb.op_mul_val_ref", panics_iff(rep, "Limb.op_mul_val_ref", ovf, || la * &lb)),
        ("Limb.op_mul_ref_val", panics_iff(rep, "Limb.op_mul_ref_val", ovf, || &la * lb)),
        ("Limb.op_mul_ref_ref", panics_iff(rep, "Limb.op_mul_ref_ref", ovf, || &la * &lb)),
    ] {
        if let Some(x) = r {
            if x.0 != lo {
                rep.fail(name, format!("got {:x} want {:x}", x.0, lo));
            }
        }
    }
    let (wa, wb) = (Wrapping(la), Wrapping(lb));
    if (wa * wb).0.0 != lo || (wa * &wb).0.0 != lo || (&wa * wb).0.0 != lo || (&wa * &wb).0.0 != lo {
        rep.fail("Wrapping<Limb>.op_mul", "mismatch".into());
    }
    let mut t = wa;
    t *= wb;
    let mut t2 = wa;
    t2 *= &wb;
    if t.0.0 != lo || t2.0.0 != lo {
        rep.fail("Wrapping<Limb>.op_mul_assign", "mismatch".into());
    }
    let (ca, cb) = (Checked::new(la), Checked::new(lb));
    let mut t = ca;
    t *= cb;
    let mut t2 = ca;
    t2 *= &cb;
    for (name, r) in [
        ("Checked<Limb>.op_mul", ca * cb),
        ("Checked<Limb>.op_mul_val_ref", ca * &cb),
        ("Checked<Limb>.op_mul_ref_val", &ca * cb),
        ("Checked<Limb>.op_mul_ref_ref", &ca * &cb),
        ("Checked<Limb>.op_mul_assign", t),
        ("Checked<Limb>.op_mul_assign_ref", t2),
    ] {
        let got: Option<Limb> = ct(r.0);
        if got.map(|x| x.0) != if ovf { None } else { Some(lo) } {
            rep.fail(name, format!("got {:?} ovf={}", got.map(|x| x.0), ovf));
        }
    }
    let none = Checked::<Limb>(subtle::CtOption::new(lb, 0.into()));
    crate::sticky_none!(rep, "Checked<Limb>.mul", ca, none, *, *=);
}

/// all forms available for two operands of width L and R (results in width L, hi in width R)
fn mul_forms<const L: usize, const R: usize>(c: &Case, rep: &mut Rep, tag: &str) {
    let (x, y) = (&c.a[0], &c.a[1]);
    let (ux, uy) = (u::<L>(x), u::<R>(y));
    let p = to_big(x) * to_big(y);
    let lo = from_big(&p, L);
    let hi = from_big(&(&p >> (64 * L)), R);
    let ovf = !fits(&p, L);
    if ovf {
        rep.tally("overflow");
    } else {
        rep.tally("fits");
    }
    let k = |s: &str| format!("{}{}", tag, s);
    let (glo, ghi) = ux.split_mul(&uy);
    ex(rep, &k("split_mul.lo"), &ul(&glo), &lo);
    ex(rep, &k("split_mul.hi"), &ul(&ghi), &hi);
    ex(rep, &k("wrapping_mul"), &ul(&ux.wrapping_mul(&uy)), &lo);
    let sat = if ovf { vec![u64::MAX; L] } else { lo.clone() };
    ex(rep, &k("saturating_mul"), &ul(&ux.saturating_mul(&uy)), &sat);
    match ct(CheckedMul::checked_mul(&ux, &uy)) {
        Some(v) => {
            if ovf {
                rep.fail(&k("checked_mul.some_iff_fits"), "some on overflow".into());
            } else {
                ex(rep, &k("checked_mul"), &ul(&v), &lo);
            }
        }
        None => {
            if !ovf {
                rep.fail(&k("checked_mul.some_iff_fits"), "none without overflow".into());
            }
        }
    }
    if let Some(v) = panics_iff(rep, &k("op_mul_val_val"), ovf, || ux * uy) {
        ex(rep, &k("op_mul_val_val"), &ul(&v), &lo);
    }
    if let Some(v) = panics_iff(rep, &k("op_mul_val_ref"), ovf, || ux * &uy) {
        ex(rep, &k("op_mul_val_ref"), &ul(&v), &lo);
    }
    if let Some(v) = panics_iff(rep, &k("op_mul_ref_val"), ovf, || &ux * uy) {
        ex(rep, &k("op_mul_ref_val"), &ul(&v), &lo);
    }
    if let Some(v) = panics_iff(rep, &k("op_mul_ref_ref"), ovf, || &ux * &uy) {
        ex(rep, &k("op_mul_ref_ref"), &ul(&v), &lo);
    }
    if let Some(v) = panics_iff(rep, &k("op_mul_assign"), ovf, || {
        let mut t = ux;
        t *= uy;
        t
    }) {
        ex(rep, &k("op_mul_assign"), &ul(&v), &lo);
    }
    if let Some(v) = panics_iff(rep, &k("op_mul_assign_ref"), ovf, || {
        let mut t = ux;
        t *= &uy;
        t
    }) {
        ex(rep, &k("op_mul_assign_ref"), &ul(&v), &lo);
    }
}

fn uint_mul<const L: usize>(c: &Case, rep: &mut Rep) {
    let (x, y) = (&c.a[0], &c.a[1]);
    match L {
        16 => classify_mul("kara16", x, y, rep),
        32 => classify_mul("kara32", x, y, rep),
        64 => classify_mul("kara64", x, y, rep),
        128 => classify_mul("kara128", x, y, rep),
        _ => classify_mul("school", x, y, rep),
    }
    mul_forms::<L, L>(c, rep, "");
    let (ux, uy) = (u::<L>(x), u::<L>(y));
    let p = to_big(x) * to_big(y);
    let lo = from_big(&p, L);
    let ovf = !fits(&p, L);
    ex(rep, "WrappingMul", &ul(&WrappingMul::wrapping_mul(&ux, &uy)), &lo);
    let (wa, wb) = (Wrapping(ux), Wrapping(uy));
    ex(rep, "Wrapping.op_mul", &ul(&(wa * wb).0), &lo);
    ex(rep, "Wrapping.op_mul_val_ref", &ul(&(wa * &wb).0), &lo);
    ex(rep, "Wrapping.op_mul_ref_val", &ul(&(&wa * wb).0), &lo);
    ex(rep, "Wrapping.op_mul_ref_ref", &ul(&(&wa * &wb).0), &lo);
    let mut t = wa;
    t *= wb;
    ex(rep, "Wrapping.op_mul_assign", &ul(&t.0), &lo);
    let mut t = wa;
    t *= &wb;
    ex(rep, "Wrapping.op_mul_assign_ref", &ul(&t.0), &lo);
    let (ca, cb) = (Checked::new(ux), Checked::new(uy));
    let mut t = ca;
    t *= cb;
    let mut t2 = ca;
    t2 *= &cb;
    for (name, r) in [
        ("Checked.op_mul", ca * cb),
        ("Checked.op_mul_val_ref", ca * &cb),
        ("Checked.op_mul_ref_val", &ca * cb),
        ("Checked.op_mul_ref_ref", &ca * &cb),
        ("Checked.op_mul_assign", t),
        ("Checked.op_mul_assign_ref", t2),
    ] {
        let got: Option<Uint<L>> = ct(r.0);
        let want = if ovf { None } else { Some(lo.clone()) };
        if got.map(|v| ul(&v)) != want {
            rep.fail(name, format!("some={} ovf={}", got.is_some(), ovf));
        }
    }
    // sticky none, every form, either side
    let none = Checked::<Uint<L>>(subtle::CtOption::new(uy, 0.into()));
    crate::sticky_none!(rep, "Checked.mul", ca, none, *, *=);
}
fn c_uint_mul(c: &Case, rep: &mut Rep) {
    dispatch!(c.w[0], [1, 2, 3, 4, 5, 6, 7, 8, 9, 10, 11, 12, 16, 32, 64, 128], uint_mul(c, rep));
    // widening forms exist where ConcatMixed is implemented
    let (x, y) = (&c.a[0], &c.a[1]);
    let p = to_big(x) * to_big(y);
    macro_rules! wide {
        ($l:literal, $w:literal) => {
            if c.w[0] == $l {
                let (ux, uy) = (u::<$l>(x), u::<$l>(y));
                let want = from_big(&p, $w);
                let got: Uint<$w> = ux.widening_mul(&uy);
                ex(rep, "widening_mul", &ul(&got), &want);
                let got: Uint<$w> = WideningMul::widening_mul(&ux, uy);
                ex(rep, "WideningMul", &ul(&got), &want);
                let got: Uint<$w> = WideningMul::widening_mul(&ux, &uy);
                ex(rep, "WideningMul_ref", &ul(&got), &want);
            }
        };
    }
    wide!(1, 2);
    wide!(2, 4);
    wide!(3, 6);
    wide!(4, 8);
    wide!(5, 10);
    wide!(6, 12);
    wide!(7, 14);
    wide!(8, 16);
    wide!(16, 32);
    wide!(32, 64);
    wide!(64, 128);
}

fn uint_mul_mixed<const L: usize, const R: usize>(c: &Case, rep: &mut Rep) {
    rep.class("mixed_width");
    let (x, y) = (&c.a[0], &c.a[1]);
    let p = to_big(x) * to_big(y);
    if p == pow2(64 * L) || &p + 1u32 == pow2(64 * L) {
        rep.class("overflow_exact_boundary");
    }
    mul_forms::<L, R>(c, rep, "mixed.");
}
fn c_uint_mul_mixed(c: &Case, rep: &mut Rep) {
    dispatch2!(c.w[0], c.w[1], [1, 2, 3, 4, 8, 16], [1, 2, 3, 4, 8, 16], uint_mul_mixed(c, rep));
    let (x, y) = (&c.a[0], &c.a[1]);
    let p = to_big(x) * to_big(y);
    macro_rules! wide {
        ($l:literal, $r:literal, $w:literal) => {
            if c.w[0] == $l && c.w[1] == $r {
                let (ux, uy) = (u::<$l>(x), u::<$r>(y));
                let want = from_big(&p, $w);
                let got: Uint<$w> = ux.widening_mul(&uy);
                ex(rep, "mixed.widening_mul", &ul(&got), &want);
                let got: Uint<$w> = <Uint<$l> as ConcatMixed<Uint<$r>>>::concat_mixed(&ux.split_mul(&uy).0, &ux.split_mul(&uy).1);
                ex(rep, "mixed.split_mul_concat", &ul(&got), &want);
            }
        };
    }
    wide!(2, 1, 3);
    wide!(1, 2, 3);
    wide!(3, 1, 4);
    wide!(1, 3, 4);
    wide!(4, 3, 7);
    wide!(3, 4, 7);
    wide!(4, 1, 5);
    wide!(8, 4, 12);
    wide!(8, 8, 16);
}

fn uint_square<const L: usize>(c: &Case, rep: &mut Rep) {
    let x = &c.a[0];
    match L {
        64 => classify_mul("karasq64", x, x, rep),
        128 => classify_mul("karasq128", x, x, rep),
        _ => classify_mul("schoolsq", x, x, rep),
    }
    let ux = u::<L>(x);
    let p = to_big(x) * to_big(x);
    let lo = from_big(&p, L);
    let hi = from_big(&(&p >> (64 * L)), L);
    let ovf = !fits(&p, L);
    let (glo, ghi) = ux.square_wide();
    ex(rep, "square_wide.lo", &ul(&glo), &lo);
    ex(rep, "square_wide.hi", &ul(&ghi), &hi);
    // squaring == self multiplication, through the crate
    let (mlo, mhi) = ux.split_mul(&ux);
    if (mlo, mhi) != (glo, ghi) {
        rep.fail("square_eq_self_mul", "square_wide != split_mul(self,self)".into());
    }
    ex(rep, "wrapping_square", &ul(&ux.wrapping_square()), &lo);
    let sat = if ovf { vec![u64::MAX; L] } else { lo.clone() };
    ex(rep, "saturating_square", &ul(&ux.saturating_square()), &sat);
    let got = cct(ux.checked_square()).map(|v| ul(&v));
    if got != if ovf { None } else { Some(lo.clone()) } {
        rep.fail("checked_square", format!("some={} ovf={}", got.is_some(), ovf));
    }
}
fn c_uint_square(c: &Case, rep: &mut Rep) {
    dispatch!(c.w[0], [1, 2, 3, 4, 5, 6, 7, 8, 9, 10, 11, 12, 16, 32, 64, 128], uint_square(c, rep));
    let x = &c.a[0];
    let p = to_big(x) * to_big(x);
    macro_rules! wide {
        ($l:literal, $w:literal) => {
            if c.w[0] == $l {
                let ux = u::<$l>(x);
                let want = from_big(&p, $w);
                let got: Uint<$w> = ux.widening_square();
                ex(rep, "widening_square", &ul(&got), &want);
                let got: Uint<$w> = ux.square();
                ex(rep, "square", &ul(&got), &want);
            }
        };
    }
    wide!(1, 2);
    wide!(2, 4);
    wide!(3, 6);
    wide!(4, 8);
    wide!(5, 10);
    wide!(6, 12);
    wide!(7, 14);
    wide!(8, 16);
    wide!(16, 32);
    wide!(32, 64);
    wide!(64, 128);
}

/// Boxed operator forms: either the exact product in whatever precision is returned, or a panic —
/// and a panic only if the product does not fit the receiver's precision.
fn boxed_op(rep: &mut Rep, rel: &str, p: &BigUint, ovf: bool, f: impl FnOnce() -> BoxedUint) {
    match catch(f) {
        Ok(v) => {
            if &bb(&v) != p {
                rep.fail(rel, format!("returned {} ({} limbs), exact product {}", hex(&bl(&v)), v.nlimbs(), bhex(p)));
            }
        }
        Err(m) => {
            if !ovf {
                rep.fail(&format!("{}.panic_iff_overflow", rel), format!("panic without overflow: {}", m));
            }
        }
    }
}

fn c_boxed_mul(c: &Case, rep: &mut Rep) {
    let (x, y) = (&c.a[0], &c.a[1]);
    let (nl, rl) = (x.len(), y.len());
    if nl != rl {
        rep.class("boxed_unequal_len");
    }
    if nl % 2 == 1 || rl % 2 == 1 {
        rep.class("boxed_odd_len");
    }
    if nl.min(rl) >= 32 {
        rep.class("boxed_karatsuba_path");
        if nl == rl {
            classify_mul("boxed_kara", x, y, rep);
        } else {
            let m = nl.min(rl);
            classify_mul("boxed_kara", &x[..m], &y[..m], rep);
        }
    } else if x.iter().all(|&l| l == u64::MAX) {
        rep.class("max_carry_chain");
    }
    let (bx_, by_) = (bx(x), bx(y));
    let p = to_big(x) * to_big(y);
    if p == pow2(64 * nl) || &p + 1u32 == pow2(64 * nl) {
        rep.class("overflow_exact_boundary");
    }
    let ovf = !fits(&p, nl);
    let full = bx_.mul(&by_);
    if full.nlimbs() != nl + rl {
        rep.fail("boxed.mul.precision", format!("{} limbs, documented {}", full.nlimbs(), nl + rl));
    }
    if bb(&full) != p {
        rep.fail("boxed.mul", format!("got {} want {}", hex(&bl(&full)), bhex(&p)));
    }
    let lo = &p & mask(64 * nl);
    let w = bx_.wrapping_mul(&by_);
    if w.nlimbs() != nl || bb(&w) != lo {
        rep.fail("boxed.wrapping_mul", format!("got {} ({} limbs) want {}", hex(&bl(&w)), w.nlimbs(), bhex(&lo)));
    }
    let w = WrappingMul::wrapping_mul(&bx_, &by_);
    if w.nlimbs() != nl || bb(&w) != lo {
        rep.fail("boxed.WrappingMul", "mismatch".into());
    }
    match ct(CheckedMul::checked_mul(&bx_, &by_)) {
        Some(v) => {
            if ovf || bb(&v) != p || v.nlimbs() != nl {
                rep.fail("boxed.checked_mul", format!("some({}) ovf={}", hex(&bl(&v)), ovf));
            }
        }
        None => {
            if !ovf {
                rep.fail("boxed.checked_mul", "none without overflow".into());
            }
        }
    }
    for (name, v) in [
        ("boxed.WideningMul", WideningMul::widening_mul(&bx_, by_.clone())),
        ("boxed.WideningMul_ref", WideningMul::widening_mul(&bx_, &by_)),
    ] {
        if bb(&v) != p || v.nlimbs() != nl + rl {
            rep.fail(name, "mismatch".into());
        }
    }
    boxed_op(rep, "boxed.op_mul_val_val", &p, ovf, || bx_.clone() * by_.clone());
    boxed_op(rep, "boxed.op_mul_val_ref", &p, ovf, || bx_.clone() * &by_);
    boxed_op(rep, "boxed.op_mul_ref_val", &p, ovf, || &bx_ * by_.clone());
    boxed_op(rep, "boxed.op_mul_ref_ref", &p, ovf, || &bx_ * &by_);
    boxed_op(rep, "boxed.op_mul_assign", &p, ovf, || {
        let mut t = bx_.clone();
        t *= by_.clone();
        t
    });
    boxed_op(rep, "boxed.op_mul_assign_ref", &p, ovf, || {
        let mut t = bx_.clone();
        t *= &by_;
        t
    });
    let mut t = Wrapping(bx_.clone());
    t *= Wrapping(by_.clone());
    if bb(&t.0) != lo || t.0.nlimbs() != nl {
        rep.fail("boxed.Wrapping.op_mul_assign", "mismatch".into());
    }
    let mut t = Wrapping(bx_.clone());
    t *= &Wrapping(by_.clone());
    if bb(&t.0) != lo || t.0.nlimbs() != nl {
        rep.fail("boxed.Wrapping.op_mul_assign_ref", "mismatch".into());
    }
    let t = Wrapping(bx_.clone()) * Wrapping(by_.clone());
    if bb(&t.0) != lo || t.0.nlimbs() != nl {
        rep.fail("boxed.Wrapping.op_mul", "mismatch".into());
    }
}

fn c_boxed_square(c: &Case, rep: &mut Rep) {
    let x = &c.a[0];
    let nl = x.len();
    if nl % 2 == 1 {
        rep.class("boxed_odd_len");
    }
    if nl >= 64 {
        rep.class("boxed_karatsuba_square_path");
    }
    if x.iter().all(|&l| l == u64::MAX) {
        rep.class("max_carry_chain");
    }
    rep.nontrivial();
    let b = bx(x);
    let p = to_big(x) * to_big(x);
    let s = b.square();
    if s.nlimbs() != 2 * nl {
        rep.fail("boxed.square.precision", format!("{} limbs", s.nlimbs()));
    }
    if bb(&s) != p {
        rep.fail("boxed.square", format!("got {} want {}", hex(&bl(&s)), bhex(&p)));
    }
    if s != b.mul(&b) {
        rep.fail("boxed.square_eq_self_mul", "square != mul(self,self)".into());
    }
}

// -------------------------------------------------------------------------------------------
// generation

/// n-limb operand whose halves (recursively) are in a chosen order relation.
fn gen_halves(r: &mut Rng, n: usize, rel: u64, depth: usize) -> Vec<u64> {
    if n < 2 || n % 2 == 1 {
        return gn::uint(r, n);
    }
    let h = n / 2;
    let lo = if depth > 0 && h >= 8 { let rr = r.below(3); gen_halves(r, h, rr, depth - 1) } else { gn::uint(r, h) };
    let mut hi = match rel {
        0 => lo.clone(), // equal halves
        _ => {
            let mut v = if r.bool() { lo.clone() } else { gn::uint(r, h) };
            if v == lo {
                // perturb so that the relation is strict
                if rel == 1 {
                    gn::add_small(&mut v, 1 + r.below(3));
                } else {
                    gn::sub_small(&mut v, 1 + r.below(3));
                }
            }
            v
        }
    };
    let ord = cmp_limbs(&lo, &hi);
    let mut lo = lo;
    // rel 1: lo < hi ; rel 2: lo > hi
    if (rel == 1 && ord == std::cmp::Ordering::Greater) || (rel == 2 && ord == std::cmp::Ordering::Less) {
        std::mem::swap(&mut lo, &mut hi);
    }
    let mut v = lo;
    v.extend_from_slice(&hi);
    v
}

fn gen_mul_pair(r: &mut Rng, l: usize, rl: usize) -> (Vec<u64>, Vec<u64>) {
    match r.below(12) {
        0..=4 if l == rl && l >= 2 && l % 2 == 0 => {
            let (rx, ry) = (r.below(3), r.below(3));
            (gen_halves(r, l, rx, 2), gen_halves(r, rl, ry, 2))
        }
        5 => (gn::max(l), gn::max(rl)),
        6 => (gn::single_bit(l, r.usize_below(64 * l)), gn::single_bit(rl, r.usize_below(64 * rl))),
        7 => {
            // product exactly at the 2^BITS boundary of the lhs width: 2^a * 2^b with a+b = BITS, or
            // (2^BITS - 1) = product of (2^(BITS/2)-1)(2^(BITS/2)+1) when it fits
            let bits = 64 * l;
            let a = r.usize_below(bits.min(64 * rl - 1) + 1).min(bits);
            let b = bits - a;
            if a < 64 * l && b < 64 * rl && r.bool() {
                (gn::single_bit(l, a), gn::single_bit(rl, b))
            } else if l == rl && l >= 1 {
                let half = bits / 2;
                let mut p = gn::single_bit(rl, half);
                gn::add_small(&mut p, 1);
                (gn::low_ones(l, half), p)
            } else {
                (gn::uint(r, l), gn::uint(r, rl))
            }
        }
        8 => {
            // x * y just below / above overflow: y = floor((2^BITS - 1 + delta) / x)
            let x = gn::nonzero(r, l);
            let t = mask(64 * l) + BigUint::from(r.below(3));
            let y = &t / to_big(&x);
            if fits(&y, rl) { (x, from_big(&y, rl)) } else { (x, gn::uint(r, rl)) }
        }
        _ => (gn::uint(r, l), gn::uint(r, rl)),
    }
}

const SAME: [usize; 16] = [1, 2, 3, 4, 5, 6, 7, 8, 9, 10, 11, 12, 16, 32, 64, 128];
const MIXED: [usize; 6] = [1, 2, 3, 4, 8, 16];

fn weight(l: usize) -> u64 {
    match l {
        0..=4 => 150_000,
        5..=12 => 80_000,
        16 => 60_000,
        32 => 20_000,
        64 => 6_000,
        _ => 2_000,
    }
}

pub fn workload(ctx: &mut Ctx) {
    // Limb primitives: mac exhaustive over palette^4 (16^4 = 65536), plus random
    for &a in &gn::PALETTE {
        for &b in &gn::PALETTE {
            if !ctx.mine() {
                continue;
            }
            for &c in &gn::PALETTE {
                for &d in &gn::PALETTE {
                    ctx.exec(Case::new("limb.mac").s(a).s(b).s(c).s(d), c_limb_mac);
                }
            }
            ctx.exec(Case::new("limb.mul").s(a).s(b), c_limb_mul);
        }
    }
    for _ in 0..ctx.iters(200_000) {
        let (a, b) = (gn::limb(&mut ctx.rng), gn::limb(&mut ctx.rng));
        ctx.exec(Case::new("limb.mul").s(a).s(b), c_limb_mul);
        let (c, d) = (gn::limb(&mut ctx.rng), gn::limb(&mut ctx.rng));
        ctx.exec(Case::new("limb.mac").s(a).s(b).s(c).s(d), c_limb_mac);
        // exact boundary products: a * floor((2^64 - 1 + delta)/a)
        if a != 0 {
            let t = (u64::MAX as u128 + ctx.rng.below(3) as u128) / a as u128;
            if t <= u64::MAX as u128 {
                ctx.exec(Case::new("limb.mul").s(a).s(t as u64), c_limb_mul);
            }
        }
    }
    for &l in &SAME {
        for _ in 0..ctx.iters(weight(l)) {
            let (x, y) = gen_mul_pair(&mut ctx.rng, l, l);
            ctx.exec(Case::new("uint.mul").w(l).a(x).a(y), c_uint_mul);
        }
        for _ in 0..ctx.iters(weight(l) / 2) {
            let x = if ctx.rng.bool() { let rr = ctx.rng.below(3); gen_halves(&mut ctx.rng, l, rr, 2) } else { gn::uint(&mut ctx.rng, l) };
            ctx.exec(Case::new("uint.square").w(l).a(x), c_uint_square);
        }
    }
    for &l in &MIXED {
        for &rl in &MIXED {
            if l == rl {
                continue;
            }
            for _ in 0..ctx.iters(15_000) {
                let (x, y) = gen_mul_pair(&mut ctx.rng, l, rl);
                ctx.exec(Case::new("uint.mul_mixed").w(l).w(rl).a(x).a(y), c_uint_mul_mixed);
            }
        }
    }
    // boxed: lengths 1..=140, dense around the thresholds
    let special = [31usize, 32, 33, 48, 49, 63, 64, 65, 96, 127, 128, 129, 140];
    for _ in 0..ctx.iters(150_000) {
        let nl = boxed_len(&mut ctx.rng, &special);
        let rl = match ctx.rng.below(4) {
            0 | 1 => nl,
            2 => boxed_len(&mut ctx.rng, &special),
            _ => (nl + 1 + ctx.rng.usize_below(3)).min(140),
        };
        let (x, y) = gen_mul_pair(&mut ctx.rng, nl, rl);
        ctx.exec(Case::new("boxed.mul").w(nl).w(rl).a(x).a(y), c_boxed_mul);
    }
    // unequal lengths just above the Karatsuba threshold with saturated limb patterns: the
    // trailing-limb rows (adc_mul_limbs) see all-ones partial sums and chained carries
    for _ in 0..ctx.iters(60_000) {
        let nl = 32 + ctx.rng.usize_below(9);
        let rl = nl + 1 + ctx.rng.usize_below(4);
        let pat = |r: &mut Rng, n: usize| -> Vec<u64> {
            let mode = r.below(4);
            (0..n)
                .map(|i| match mode {
                    0 => if i % 2 == 0 { u64::MAX } else { 0 },
                    1 => if r.chance(1, 12) { 0 } else { u64::MAX },
                    2 => *r.pick(&[0u64, u64::MAX, u64::MAX - 1, 1, 1 << 63]),
                    _ => if r.chance(1, 6) { gn::limb(r) } else { u64::MAX },
                })
                .collect()
        };
        let (x, y) = (pat(&mut ctx.rng, nl), pat(&mut ctx.rng, rl));
        let (x, y, nl, rl) = if ctx.rng.bool() { (x, y, nl, rl) } else { (y, x, rl, nl) };
        ctx.exec(Case::new("boxed.mul").w(nl).w(rl).a(x).a(y), c_boxed_mul);
    }
    for _ in 0..ctx.iters(60_000) {
        let nl = boxed_len(&mut ctx.rng, &special);
        let x = if ctx.rng.bool() { let rr = ctx.rng.below(3); gen_halves(&mut ctx.rng, nl, rr, 2) } else { gn::uint(&mut ctx.rng, nl) };
        ctx.exec(Case::new("boxed.square").w(nl).a(x), c_boxed_square);
    }
    // derived mandatory classes: all nine sign combinations at the top level per dispatch width
    for (prefix, name) in [("kara16", "kara16_top_all9"), ("kara32", "kara32_top_all9"), ("kara64", "kara64_top_all9"), ("kara128", "kara128_top_all9"), ("boxed_kara", "boxed_kara_top_all9")] {
        let mut all = true;
        for sx in ['n', 'z', 'p'] {
            for sy in ['n', 'z', 'p'] {
                if ctx.rep.classes.get(&format!("{}_top_{}{}", prefix, sx, sy)).copied().unwrap_or(0) == 0 {
                    all = false;
                }
            }
        }
        if all {
            ctx.rep.tally(name);
        }
    }
}

fn boxed_len(r: &mut Rng, special: &[usize]) -> usize {
    match r.below(10) {
        0..=3 => 1 + r.usize_below(12),
        4..=6 => *r.pick(special),
        7 | 8 => 1 + r.usize_below(70),
        _ => 1 + r.usize_below(140),
    }
}
