//! Hostile big-integer generators. Values are little-endian limb vectors (`Vec<u64>`).
//! The mixture is aimed at carry chains, limb boundaries, normalisation corners and the
//! relation-derived tuples listed in DESIGN.md §2.2 — not at the uniform distribution.
use crate::big::*;
use crate::rng::Rng;
use num_bigint::BigUint;
use num_traits::{One, Zero};

pub const PALETTE: [u64; 16] = [
    0,
    1,
    2,
    3,
    u64::MAX,
    u64::MAX - 1,
    1 << 63,
    (1 << 63) + 1,
    (1 << 63) - 1,
    1 << 32,
    (1 << 32) + 1,
    (1 << 32) - 1,
    0x5555_5555_5555_5555,
    0xAAAA_AAAA_AAAA_AAAA,
    0xFFFF_FFFF_0000_0000,
    0x0000_0000_FFFF_FFFF,
];

/// One limb: palette value, near-palette value, single bit, low-run, or random.
pub fn limb(r: &mut Rng) -> u64 {
    match r.below(10) {
        0..=3 => *r.pick(&PALETTE),
        4 => 1u64 << r.below(64),
        5 => {
            let k = r.below(65);
            if k == 64 { u64::MAX } else { (1u64 << k) - 1 }
        }
        6 => {
            let k = r.below(64);
            !((1u64 << k) - 1)
        }
        _ => r.u64(),
    }
}

pub fn zero(n: usize) -> Vec<u64> {
    vec![0; n]
}
pub fn one(n: usize) -> Vec<u64> {
    let mut v = vec![0; n];
    if n > 0 {
        v[0] = 1;
    }
    v
}
pub fn max(n: usize) -> Vec<u64> {
    vec![u64::MAX; n]
}
pub fn random(r: &mut Rng, n: usize) -> Vec<u64> {
    (0..n).map(|_| r.u64()).collect()
}
pub fn single_bit(n: usize, bit: usize) -> Vec<u64> {
    let mut v = vec![0; n];
    if bit < 64 * n {
        v[bit / 64] = 1u64 << (bit % 64);
    }
    v
}
/// 2^k - 1 truncated to n limbs.
pub fn low_ones(n: usize, k: usize) -> Vec<u64> {
    let mut v = vec![0; n];
    for i in 0..n {
        let lo = 64 * i;
        if k >= lo + 64 {
            v[i] = u64::MAX;
        } else if k > lo {
            v[i] = (1u64 << (k - lo)) - 1;
        }
    }
    v
}

/// Structured n-limb value (n may be 0 -> empty vec).
pub fn uint(r: &mut Rng, n: usize) -> Vec<u64> {
    if n == 0 {
        return vec![];
    }
    let bits = 64 * n;
    match r.below(20) {
        0 => zero(n),
        1 => one(n),
        2 => max(n),
        3 => single_bit(n, r.usize_below(bits)),
        4 => low_ones(n, r.usize_below(bits + 1)),
        5 => {
            // 2^k + 1 or 2^k - 1 style neighbours
            let k = r.usize_below(bits);
            let mut v = single_bit(n, k);
            if r.bool() {
                add_small(&mut v, 1);
            } else {
                sub_small(&mut v, 1);
            }
            v
        }
        6 => {
            // high ones: !(2^k - 1)
            let k = r.usize_below(bits);
            low_ones(n, k).iter().map(|x| !x).collect()
        }
        7 => {
            // alternating 0 / MAX limbs
            let ph = r.below(2) as usize;
            (0..n).map(|i| if (i + ph) % 2 == 0 { 0 } else { u64::MAX }).collect()
        }
        8 => {
            // only top limb / only low limb
            let mut v = zero(n);
            if r.bool() {
                v[n - 1] = limb(r);
            } else {
                v[0] = limb(r);
            }
            v
        }
        9 => {
            // runs of identical limbs with a random cut
            let cut = r.usize_below(n + 1);
            let (a, b) = (limb(r), limb(r));
            (0..n).map(|i| if i < cut { a } else { b }).collect()
        }
        10 => {
            // bit length an exact multiple of 64 (top used limb has its msb set), zero above
            let used = 1 + r.usize_below(n);
            let mut v = zero(n);
            for x in v.iter_mut().take(used) {
                *x = limb(r);
            }
            v[used - 1] |= 1 << 63;
            v
        }
        11 => {
            // short value in a wide type
            let used = 1 + r.usize_below(n);
            let mut v = zero(n);
            for x in v.iter_mut().take(used) {
                *x = r.u64();
            }
            v
        }
        12..=14 => (0..n).map(|_| limb(r)).collect(),
        15 => {
            // random with a run of MAX or 0 limbs in the middle (carry / borrow chains)
            let mut v = random(r, n);
            let a = r.usize_below(n);
            let b = a + r.usize_below(n - a + 1);
            let f = if r.bool() { u64::MAX } else { 0 };
            for x in &mut v[a..b] {
                *x = f;
            }
            v
        }
        _ => random(r, n),
    }
}

/// Structured value with exactly `bits` significant bits (bits <= 64 n); bits = 0 gives zero.
pub fn uint_bits(r: &mut Rng, n: usize, bits: usize) -> Vec<u64> {
    let mut v = uint(r, n);
    let m = low_ones(n, bits);
    for i in 0..n {
        v[i] &= m[i];
    }
    if bits > 0 {
        v[(bits - 1) / 64] |= 1u64 << ((bits - 1) % 64);
    }
    v
}

pub fn nonzero(r: &mut Rng, n: usize) -> Vec<u64> {
    loop {
        let v = uint(r, n);
        if v.iter().any(|&x| x != 0) {
            return v;
        }
    }
}

pub fn odd(r: &mut Rng, n: usize) -> Vec<u64> {
    let mut v = uint(r, n);
    v[0] |= 1;
    v
}

pub fn add_small(v: &mut [u64], mut c: u64) {
    for x in v.iter_mut() {
        let (s, o) = x.overflowing_add(c);
        *x = s;
        c = o as u64;
        if c == 0 {
            break;
        }
    }
}
pub fn sub_small(v: &mut [u64], mut c: u64) {
    for x in v.iter_mut() {
        let (s, o) = x.overflowing_sub(c);
        *x = s;
        c = o as u64;
        if c == 0 {
            break;
        }
    }
}

/// A value related to `a` (same width): equal, +-1, differing only in the lowest / highest limb,
/// complement, or an independent structured value.
pub fn related(r: &mut Rng, a: &[u64]) -> Vec<u64> {
    let n = a.len();
    if n == 0 {
        return vec![];
    }
    let mut v = a.to_vec();
    match r.below(10) {
        0 => v,
        1 => {
            add_small(&mut v, 1);
            v
        }
        2 => {
            sub_small(&mut v, 1);
            v
        }
        3 => {
            v[0] ^= 1 << r.below(64);
            v
        }
        4 => {
            v[n - 1] ^= 1 << r.below(64);
            v
        }
        5 => {
            v[n - 1] ^= 1 << 63;
            v
        }
        6 => v.iter().map(|x| !x).collect(),
        7 => {
            // 2^BITS - a (+-1): a + b = 2^BITS + {-1,0,1}
            let mut w: Vec<u64> = v.iter().map(|x| !x).collect();
            match r.below(3) {
                0 => {}
                1 => add_small(&mut w, 1),
                _ => add_small(&mut w, 2),
            }
            w
        }
        _ => uint(r, n),
    }
}

/// Value in [0, m) biased to the documented special values 0, 1, m-1, m/2, (m±1)/2.
pub fn below(r: &mut Rng, m: &BigUint, n: usize) -> BigUint {
    if m.is_zero() {
        return BigUint::zero();
    }
    let one = BigUint::one();
    let v = match r.below(12) {
        0 => BigUint::zero(),
        1 => one.clone(),
        2 => m - &one,
        3 => m >> 1,
        4 => (m + &one) >> 1,
        5 => (m - &one) >> 1,
        6 => m.clone() - (&one + &one).min(m.clone()),
        7 | 8 => to_big(&uint(r, n)),
        _ => to_big(&random(r, n)),
    };
    v % m
}

/// Pair (a, b) in [0,p)^2 with relation-derived structure: a+b = p+{-1,0,1}, a=b, etc.
pub fn pair_below(r: &mut Rng, p: &BigUint, n: usize) -> (BigUint, BigUint) {
    let a = below(r, p, n);
    let one = BigUint::one();
    let b = match r.below(8) {
        0 => a.clone(),
        1 => (p - &a) % p,                       // a + b = p (or 0)
        2 => (p + p - &a - &one) % p,            // a + b = p - 1
        3 => (p - &a + &one) % p,                // a + b = p + 1
        _ => below(r, p, n),
    };
    (a, b)
}

/// Structured modulus of n limbs: special shapes named in the properties.
/// `odd_only`: force odd.  Never returns zero.
pub fn modulus(r: &mut Rng, n: usize, odd_only: bool) -> Vec<u64> {
    let bits = 64 * n;
    let mut v = match r.below(14) {
        0 => one(n),
        1 => {
            let mut v = zero(n);
            v[0] = if odd_only { 3 } else { 2 };
            v
        }
        2 => {
            let mut v = zero(n);
            v[0] = 3;
            v
        }
        3 => max(n), // 2^BITS - 1
        4 => {
            // 2^(BITS-1) +- 1
            let mut v = single_bit(n, bits - 1);
            if r.bool() {
                add_small(&mut v, 1);
            } else {
                sub_small(&mut v, 1);
            }
            v
        }
        5 => from_big(&(pow2(bits) / 3u32), n), // ~2^BITS/3
        6 => from_big(&(pow2(bits) / 4u32 + 1u32), n),
        7 => {
            // zero high limbs
            let used = 1 + r.usize_below(n);
            let mut v = zero(n);
            for x in v.iter_mut().take(used) {
                *x = limb(r);
            }
            v
        }
        8 => {
            // 2^BITS - c for a limb-sized c
            let c = match r.below(5) {
                0 => 1,
                1 => u64::MAX,
                2 => u64::MAX - 1,
                3 => 1 << 32,
                _ => r.u64() | 1,
            };
            from_big(&(pow2(bits) - BigUint::from(c)), n)
        }
        9 => {
            // top limb small
            let mut v = random(r, n);
            v[n - 1] = 1 + r.below(3);
            v
        }
        10 => uint(r, n),
        11 => {
            // m in (0.39, 0.5) * 2^BITS: 2m < 2^BITS <= 3m, the range where an almost-Montgomery
            // accumulator can still hold a value >= 2m (second final subtraction needed)
            let mut v = random(r, n);
            v[n - 1] = 0x63d7_0a3d_70a3_d70a + r.below(0x7fff_ffff_ffff_ffff - 0x63d7_0a3d_70a3_d70a);
            v
        }
        _ => random(r, n),
    };
    if odd_only {
        v[0] |= 1;
    }
    if v.iter().all(|&x| x == 0) {
        v[0] = 1;
    }
    v
}
