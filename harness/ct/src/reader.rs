//! ct_reader — machine-level trace monitor (M2).  Spawns `valgrind --tool=lackey --trace-mem=yes`
//! on the uninstrumented ct_target, splits the record stream at the marker stores and compares the
//! trace of every secret variant of a cell with the trace of variant 0 (record-by-record hash,
//! per-instruction execution counts and data-address hashes).
//!
//!   ct_reader --target PATH --out FILE [--anchor-vaddr HEX --divs FILE] -- <ct_target args>
use serde_json::{Value, json};
use std::collections::HashMap;
use std::io::{BufRead, BufReader, Write};
use std::process::{Command, Stdio};
use std::sync::atomic::{AtomicU64, Ordering};
use std::sync::{Arc, Mutex};

const MAX_RECORDS: usize = 8_000_000;

#[derive(Default)]
struct Region {
    warm: bool,
    count: usize,
    hash: u64,
    hash2: u64,
    truncated: bool,
    /// per instruction address: (execution count, hash of the data accesses it made)
    per_insn: HashMap<u64, (u32, u64)>,
    /// packed records (only kept for the base variant of a cell)
    records: Vec<u64>,
    first_diff: Option<(usize, u64, u64, u64, u64)>, // index, insn here, insn in base, record here, record in base
    cur_insn: u64,
}

fn pack(kind: u8, addr: u64, size: u8) -> u64 {
    // addresses fit in 48 bits
    (addr & 0xffff_ffff_ffff) | ((size as u64) << 48) | ((kind as u64) << 56)
}

impl Region {
    fn push(&mut self, kind: u8, addr: u64, size: u8, base: Option<&Region>, keep: bool) {
        if self.count >= MAX_RECORDS {
            self.truncated = true;
            return;
        }
        let rec = pack(kind, addr, size);
        self.hash = (self.hash ^ rec).wrapping_mul(0x100000001b3).rotate_left(23);
        self.hash2 = self.hash2.wrapping_mul(0x9e3779b97f4a7c15).wrapping_add(rec ^ (self.count as u64));
        if kind == b'I' {
            self.cur_insn = addr;
            self.per_insn.entry(addr).or_insert((0, 0)).0 += 1;
        } else {
            let e = self.per_insn.entry(self.cur_insn).or_insert((0, 0));
            e.1 = (e.1 ^ rec).wrapping_mul(0x100000001b3).rotate_left(17);
        }
        if keep {
            self.records.push(rec);
        }
        if let Some(b) = base {
            if self.first_diff.is_none() {
                let i = self.count;
                if i >= b.records.len() || b.records[i] != rec {
                    // instruction executing in the base trace at this index
                    let mut bi = 0u64;
                    let mut j = i.min(b.records.len().saturating_sub(1));
                    loop {
                        if b.records.is_empty() {
                            break;
                        }
                        if (b.records[j] >> 56) as u8 == b'I' {
                            bi = b.records[j] & 0xffff_ffff_ffff;
                            break;
                        }
                        if j == 0 {
                            break;
                        }
                        j -= 1;
                    }
                    let brec = b.records.get(i).copied().unwrap_or(0);
                    self.first_diff = Some((i, self.cur_insn, bi, rec, brec));
                }
            }
        }
        self.count += 1;
    }
}

fn parse_line(l: &[u8]) -> Option<(u8, u64, u8)> {
    // "I  04001234,3" | " S 1ffe,8" | " L ..." | " M ..."
    if l.len() < 5 {
        return None;
    }
    let kind = if l[0] == b'I' { b'I' } else if l[0] == b' ' { l[1] } else { return None };
    if !matches!(kind, b'I' | b'S' | b'L' | b'M') {
        return None;
    }
    let mut i = 2;
    while i < l.len() && l[i] == b' ' {
        i += 1;
    }
    let mut addr: u64 = 0;
    let mut seen = false;
    while i < l.len() {
        let c = l[i];
        let d = match c {
            b'0'..=b'9' => c - b'0',
            b'a'..=b'f' => c - b'a' + 10,
            b'A'..=b'F' => c - b'A' + 10,
            _ => break,
        };
        addr = (addr << 4) | d as u64;
        seen = true;
        i += 1;
    }
    if !seen || i >= l.len() || l[i] != b',' {
        return None;
    }
    i += 1;
    let mut size: u32 = 0;
    while i < l.len() && l[i].is_ascii_digit() {
        size = size * 10 + (l[i] - b'0') as u32;
        i += 1;
    }
    Some((kind, addr, size.min(255) as u8))
}

fn arg(args: &[String], name: &str) -> Option<String> {
    args.iter().position(|a| a == name).and_then(|i| args.get(i + 1).cloned())
}

fn main() {
    let args: Vec<String> = std::env::args().collect();
    let split = args.iter().position(|a| a == "--").expect("-- before target args");
    let (mine, targs) = (&args[..split], &args[split + 1..]);
    let target = arg(mine, "--target").expect("--target");
    let out = arg(mine, "--out").expect("--out");
    let anchor_vaddr = arg(mine, "--anchor-vaddr").map(|s| u64::from_str_radix(s.trim_start_matches("0x"), 16).unwrap());
    let divs: Vec<u64> = arg(mine, "--divs")
        .map(|f| std::fs::read_to_string(f).unwrap_or_default().lines().filter_map(|l| u64::from_str_radix(l.trim(), 16).ok()).collect())
        .unwrap_or_default();

    // instructions whose data accesses are artefacts of valgrind's translation (register-form
    // bt/bts/btr/btc are emulated through a scratch slot on the stack, indexed by the bit number)
    let ignore_data_v: Vec<u64> = arg(mine, "--ignore-data")
        .map(|f| std::fs::read_to_string(f).unwrap_or_default().lines().filter_map(|l| u64::from_str_radix(l.trim(), 16).ok()).collect())
        .unwrap_or_default();
    let mut ignore_data: std::collections::HashSet<u64> = std::collections::HashSet::new();

    let mut child = Command::new("valgrind")
        .args(["--tool=lackey", "--trace-mem=yes", "--log-fd=2", "-q"])
        .arg(&target)
        .args(targs)
        .stdout(Stdio::piped())
        .stderr(Stdio::piped())
        .spawn()
        .expect("spawn valgrind");
    let mark = Arc::new(AtomicU64::new(0));
    let anchor = Arc::new(AtomicU64::new(0));
    let index: Arc<Mutex<Vec<Value>>> = Arc::new(Mutex::new(Vec::new()));
    let so = child.stdout.take().unwrap();
    let (m2, a2, i2) = (mark.clone(), anchor.clone(), index.clone());
    let th = std::thread::spawn(move || {
        for line in BufReader::new(so).lines().map_while(Result::ok) {
            if let Ok(v) = serde_json::from_str::<Value>(&line) {
                if v.get("header").is_some() {
                    a2.store(v["anchor"].as_u64().unwrap_or(0), Ordering::SeqCst);
                    m2.store(v["mark"].as_u64().unwrap_or(0), Ordering::SeqCst);
                }
                i2.lock().unwrap().push(v);
            }
        }
    });

    let se = child.stderr.take().unwrap();
    let mut rd = BufReader::with_capacity(1 << 20, se);
    let mut line: Vec<u8> = Vec::with_capacity(64);
    let mut mk: u64 = 0;
    let mut cur: Option<Region> = None;
    let mut base: Option<Region> = None;
    let mut results: Vec<Value> = Vec::new();
    let mut seq: u64 = 0;
    let mut after_warm = false;
    let mut total_records: u64 = 0;
    let mut bias: i64 = 0;
    let mut noise: Vec<String> = Vec::new();
    loop {
        line.clear();
        let n = rd.read_until(b'\n', &mut line).unwrap_or(0);
        if n == 0 {
            break;
        }
        while line.last().map(|c| *c == b'\n' || *c == b'\r').unwrap_or(false) {
            line.pop();
        }
        let Some((kind, addr, size)) = parse_line(&line) else {
            if !line.is_empty() && noise.len() < 20 {
                noise.push(String::from_utf8_lossy(&line).into_owned());
            }
            continue;
        };
        total_records += 1;
        if mk == 0 {
            mk = mark.load(Ordering::SeqCst);
            if mk == 0 {
                continue;
            }
            if let Some(av) = anchor_vaddr {
                bias = anchor.load(Ordering::SeqCst) as i64 - av as i64;
            }
            ignore_data = ignore_data_v.iter().map(|a| (*a as i64 + bias) as u64).collect();
        }
        if kind == b'S' && size == 1 && addr >= mk && addr < mk + 3 {
            let which = addr - mk;
            if which == 0 || which == 2 {
                cur = Some(Region { warm: which == 2, ..Default::default() });
            } else if let Some(r) = cur.take() {
                // region closed
                let is_base = !r.warm && after_warm;
                let mut j = json!({"seq": seq, "warm": r.warm, "count": r.count, "hash": format!("{:016x}{:016x}", r.hash, r.hash2), "truncated": r.truncated});
                if !divs.is_empty() {
                    let mut hits: Vec<(String, u32)> = Vec::new();
                    for d in &divs {
                        let rt = (*d as i64 + bias) as u64;
                        if let Some(e) = r.per_insn.get(&rt) {
                            hits.push((format!("{:x}", d), e.0));
                        }
                    }
                    j["hw_div"] = json!(hits);
                }
                if !r.warm && !is_base {
                    if let Some(b) = &base {
                        let equal = b.count == r.count && b.hash == r.hash && b.hash2 == r.hash2;
                        j["equal"] = json!(equal);
                        if !equal {
                            let mut cf: Vec<u64> = Vec::new();
                            let mut ad: Vec<u64> = Vec::new();
                            for (a, e) in &r.per_insn {
                                match b.per_insn.get(a) {
                                    Some(be) if be.0 == e.0 => {
                                        if be.1 != e.1 {
                                            ad.push(*a);
                                        }
                                    }
                                    _ => cf.push(*a),
                                }
                            }
                            for a in b.per_insn.keys() {
                                if !r.per_insn.contains_key(a) {
                                    cf.push(*a);
                                }
                            }
                            cf.sort();
                            ad.sort();
                            let ncf = cf.len();
                            let nad = ad.len();
                            cf.truncate(3000);
                            ad.truncate(3000);
                            let unb = |v: Vec<u64>| v.into_iter().map(|a| format!("{:x}", (a as i64 - bias) as u64)).collect::<Vec<_>>();
                            j["cf_insns"] = json!(unb(cf));
                            j["addr_insns"] = json!(unb(ad));
                            j["n_cf"] = json!(ncf);
                            j["n_addr"] = json!(nad);
                            j["base_count"] = json!(b.count);
                            if let Some(fd) = r.first_diff {
                                j["first_diff"] = json!({"index": fd.0, "insn": format!("{:x}", (fd.1 as i64 - bias) as u64), "base_insn": format!("{:x}", (fd.2 as i64 - bias) as u64),
                                    "rec": format!("{}:{:x},{}", (fd.3 >> 56) as u8 as char, fd.3 & 0xffff_ffff_ffff, (fd.3 >> 48) & 0xff),
                                    "base_rec": format!("{}:{:x},{}", (fd.4 >> 56) as u8 as char, fd.4 & 0xffff_ffff_ffff, (fd.4 >> 48) & 0xff)});
                            } else if b.count != r.count {
                                j["first_diff"] = json!({"index": r.count.min(b.count), "insn": "0", "base_insn": "0", "rec": "end", "base_rec": "end"});
                            }
                        }
                    }
                }
                after_warm = r.warm;
                if is_base {
                    base = Some(r);
                }
                results.push(j);
                seq += 1;
            }
            continue;
        }
        if let Some(r) = cur.as_mut() {
            if kind != b'I' && ignore_data.contains(&r.cur_insn) {
                continue;
            }
            let keep = !r.warm && after_warm;
            let b = if !r.warm && !after_warm { base.as_ref() } else { None };
            r.push(kind, addr, size, b, keep);
        }
    }
    let status = child.wait().expect("wait");
    th.join().ok();
    let idx = index.lock().unwrap().clone();
    let doc = json!({"exit": status.code(), "total_records": total_records, "regions": results, "index": idx, "noise": noise, "bias": bias});
    let mut f = std::fs::File::create(&out).expect("create out");
    f.write_all(serde_json::to_string(&doc).unwrap().as_bytes()).unwrap();
}
