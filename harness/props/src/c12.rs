//! C12 — NonZero and Odd wrappers can never hold an invalid value.
//!
//! Invariant monitor at every producer: each value obtained through a public API whose return type
//! mentions NonZero<..> / Odd<..> is passed through `check_nz` / `check_odd` (evaluated on the raw
//! limbs, independently of the crate's predicates) and, for decoders, compared with the oracle's
//! decoding in the STATED byte order (asymmetric vectors).  Every produced wrapper is also fed to one
//! consumer whose result is oracle-checked.
use crate::dispatch;
use crate::util::*;
use crypto_bigint::modular::{BoxedMontyParams, MontyParams};
use crypto_bigint::subtle::{Choice, ConditionallySelectable};
use crypto_bigint::{BoxedUint, Encoding, Int, Limb, NonZero, Odd, Uint, U64, U128, U256, Zero as CZero};
use std::num::{NonZeroU8, NonZeroU16, NonZeroU32, NonZeroU64, NonZeroU128};

pub const DEF: PropDef = PropDef {
    id: "C12",
    workload,
    ops,
    mandatory: &["reject_zero", "accept_nonzero", "reject_even", "accept_odd", "be_le_disagree_on_validity", "default_const", "serde_reject", "select", "boxed", "zeroize", "consumer_checked"],
    rule: "every producer of NonZero<T> / Odd<T> for T in {Limb, Uint<N>, Int<N>, BoxedUint} (new, new_unwrap, to_nz/to_odd, from_u8..u128 / From<core::num::NonZero*>, from_be/le_bytes, from_be/le_byte_array, from_be/le_hex, Default, ONE/MAX, conditional_select, abs_sign, widen, as_nz_ref, From<Odd<Uint>> for Odd<BoxedUint>, serde Deserialize in binary and hex form, zeroize, MontyParams::modulus) is called with values that must be rejected (0, even, all-zero / even encodings) and values that must be accepted, incl. asymmetric byte strings whose big- and little-endian readings differ in validity; produced values are checked on the raw limbs and fed to a consumer (div_rem / MontyParams). non-trivial = every case; distinct by hash",
};

pub fn ops() -> Vec<(&'static str, Checker)> {
    vec![("nz.uint", c_nz_uint), ("odd.uint", c_odd_uint), ("nz.limb", c_nz_limb), ("nz.boxed", c_nz_boxed), ("wrappers.random", crate::c19::c_random_pub)]
}

fn check_nz(rep: &mut Rep, producer: &str, limbs: &[u64]) {
    if limbs.iter().all(|&x| x == 0) {
        rep.fail(&format!("{}.holds_zero", producer), "a NonZero wrapper holding zero was produced".into());
    }
}
fn check_odd(rep: &mut Rep, producer: &str, limbs: &[u64]) {
    if limbs.first().map(|x| x & 1) != Some(1) {
        rep.fail(&format!("{}.holds_even", producer), format!("an Odd wrapper holding {} was produced", hex(limbs)));
    }
}

/// producer returned Option-like: must be Some(value == want) iff valid
fn judge_nz(rep: &mut Rep, producer: &str, got: Option<Vec<u64>>, want: &[u64]) {
    let valid = !is_zero(want);
    rep.class(if valid { "accept_nonzero" } else { "reject_zero" });
    match got {
        Some(v) => {
            check_nz(rep, producer, &v);
            if valid && v != want {
                rep.fail(&format!("{}.value", producer), format!("got {} want {} (stated byte order)", hex(&v), hex(want)));
            }
            if !valid && !is_zero(&v) {
                rep.fail(&format!("{}.value", producer), format!("decoded {} although the stated-order value is zero", hex(&v)));
            }
        }
        None => {
            if valid {
                rep.fail(&format!("{}.rejects_valid", producer), format!("rejected the non-zero value {}", hex(want)));
            }
        }
    }
}
fn judge_odd(rep: &mut Rep, producer: &str, got: Option<Vec<u64>>, want: &[u64]) {
    let valid = want[0] & 1 == 1;
    rep.class(if valid { "accept_odd" } else { "reject_even" });
    match got {
        Some(v) => {
            check_odd(rep, producer, &v);
            if valid && v != want {
                rep.fail(&format!("{}.value", producer), format!("got {} want {} (stated byte order)", hex(&v), hex(want)));
            }
            if !valid && v[0] & 1 == 1 {
                rep.fail(&format!("{}.value", producer), format!("decoded {} although the stated-order value {} is even", hex(&v), hex(want)));
            }
        }
        None => {
            if valid {
                rep.fail(&format!("{}.rejects_valid", producer), format!("rejected the odd value {}", hex(want)));
            }
        }
    }
}

fn be_bytes(x: &[u64]) -> Vec<u8> {
    x.iter().rev().flat_map(|l| l.to_be_bytes()).collect()
}
fn le_limbs_from_be_bytes(b: &[u8]) -> Vec<u64> {
    // the value the same byte string denotes when read little-endian
    b.chunks(8).map(|c| u64::from_le_bytes(c.try_into().unwrap())).collect()
}
fn hexs(b: &[u8]) -> String {
    b.iter().map(|x| format!("{:02x}", x)).collect()
}

/// a NonZero<Uint> consumer: division must work and be exact
fn consume_nz<const L: usize>(rep: &mut Rep, producer: &str, d: &NonZero<Uint<L>>) {
    rep.class("consumer_checked");
    let n = Uint::<L>::MAX;
    match catch(|| n.div_rem(d)) {
        Ok((q, r)) => {
            let (qb, rb, db) = (ub(&q), ub(&r), ub(d.as_ref()));
            if db.is_zero() || qb * &db + &rb != ub(&n) || rb >= db {
                rep.fail(&format!("{}.consumer_div_rem", producer), "division by the produced NonZero is wrong".into());
            }
        }
        Err(m) => rep.fail(&format!("{}.consumer_div_rem.{}", producer, panic_sig(&m)), format!("division by the produced NonZero panicked: {}", m)),
    }
}
fn consume_odd<const L: usize>(rep: &mut Rep, producer: &str, m: &Odd<Uint<L>>) {
    rep.class("consumer_checked");
    match catch(|| MontyParams::<L>::new_vartime(*m)) {
        Ok(p) => {
            if ul(p.modulus().as_ref()) != ul(m.as_ref()) {
                rep.fail(&format!("{}.consumer_monty_params", producer), "modulus accessor differs".into());
            }
            check_odd(rep, "MontyParams::modulus", &ul(p.modulus().as_ref()));
        }
        Err(e) => rep.fail(&format!("{}.consumer_monty_params.{}", producer, panic_sig(&e)), format!("MontyParams::new_vartime panicked: {}", e)),
    }
}

fn nz_uint<const L: usize>(c: &Case, rep: &mut Rep) {
    let x = &c.a[0]; // value (limbs); the byte-string cases use its BE bytes
    rep.nontrivial();
    let ux = u::<L>(x);
    // new / to_nz / new_unwrap
    let r = ct(NonZero::new(ux)).map(|v| ul(&v.get()));
    judge_nz(rep, "NonZero::new", r, x);
    let r = cct(ux.to_nz());
    if let Some(v) = &r {
        consume_nz(rep, "Uint::to_nz", v);
    }
    judge_nz(rep, "Uint::to_nz", r.map(|v| ul(&v.get())), x);
    match catch(|| NonZero::<Uint<L>>::new_unwrap(ux)) {
        Ok(v) => judge_nz(rep, "NonZero::new_unwrap", Some(ul(&v.get())), x),
        Err(_) => judge_nz(rep, "NonZero::new_unwrap", None, x),
    }
    let ix: Int<L> = i::<L>(x);
    let r = cct(ix.to_nz());
    if let Some(v) = &r {
        let (mag, sgn) = v.abs_sign();
        check_nz(rep, "NonZero<Int>::abs_sign", &ul(mag.as_ref()));
        let want = from_big(to_bigint(x).magnitude(), L);
        if ul(mag.as_ref()) != want || bool::from(sgn) != (x[L - 1] >> 63 == 1) {
            rep.fail("NonZero<Int>::abs_sign.value", "magnitude or sign wrong".into());
        }
        consume_nz(rep, "NonZero<Int>::abs_sign", &mag);
    }
    judge_nz(rep, "Int::to_nz", r.map(|v| il(&v.get())), x);
    let r = ct(NonZero::new(ix)).map(|v| il(&v.get()));
    judge_nz(rep, "NonZero<Int>::new", r, x);
    // constants / default
    rep.class("default_const");
    check_nz(rep, "NonZero::default", &ul(&NonZero::<Uint<L>>::default().get()));
    check_nz(rep, "NonZero::ONE", &ul(&NonZero::<Uint<L>>::ONE.get()));
    check_nz(rep, "NonZero::MAX", &ul(&NonZero::<Uint<L>>::MAX.get()));
    check_nz(rep, "NonZero<Int>::default", &il(&NonZero::<Int<L>>::default().get()));
    // primitives
    // primitive source: independent 128-bit value (its low half may be zero while the high half is not)
    let p = (c.s[0] as u128) | ((c.s[1] as u128) << 64);
    if let Some(n) = NonZeroU8::new(p as u8) {
        let v = NonZero::<Uint<L>>::from_u8(n);
        check_nz(rep, "NonZero::from_u8", &ul(&v.get()));
        let v2: NonZero<Uint<L>> = n.into();
        if ub(&v.get()) != BigUint::from(p as u8) || v2 != v {
            rep.fail("NonZero::from_u8.value", "mismatch".into());
        }
    }
    if let Some(n) = NonZeroU16::new(p as u16) {
        let v = NonZero::<Uint<L>>::from_u16(n);
        check_nz(rep, "NonZero::from_u16", &ul(&v.get()));
        let v2: NonZero<Uint<L>> = n.into();
        if ub(&v.get()) != BigUint::from(p as u16) || v2 != v {
            rep.fail("NonZero::from_u16.value", "mismatch".into());
        }
    }
    if let Some(n) = NonZeroU32::new(p as u32) {
        let v = NonZero::<Uint<L>>::from_u32(n);
        check_nz(rep, "NonZero::from_u32", &ul(&v.get()));
        let v2: NonZero<Uint<L>> = n.into();
        if ub(&v.get()) != BigUint::from(p as u32) || v2 != v {
            rep.fail("NonZero::from_u32.value", "mismatch".into());
        }
    }
    if let Some(n) = NonZeroU64::new(p as u64) {
        let v = NonZero::<Uint<L>>::from_u64(n);
        check_nz(rep, "NonZero::from_u64", &ul(&v.get()));
        let v2: NonZero<Uint<L>> = n.into();
        if ub(&v.get()) != BigUint::from(p as u64) || v2 != v {
            rep.fail("NonZero::from_u64.value", "mismatch".into());
        }
    }
    if let Some(n) = NonZeroU128::new(p) {
        // documented for widths >= 128 bits; narrower widths must not silently produce zero
        match catch(|| NonZero::<Uint<L>>::from_u128(n)) {
            Ok(v) => {
                check_nz(rep, "NonZero::from_u128", &ul(&v.get()));
                if L >= 2 && ub(&v.get()) != BigUint::from(p) {
                    rep.fail("NonZero::from_u128.value", "mismatch".into());
                }
            }
            Err(_) => {
                if L >= 2 {
                    rep.fail("NonZero::from_u128.spurious_panic", "panicked although the type is wide enough".into());
                }
            }
        }
    }
    // select between two valid values stays valid and is one of them
    let y = &c.a[1];
    if !is_zero(x) && !is_zero(y) {
        rep.class("select");
        for ch in [0u8, 1] {
            let r = NonZero::conditional_select(&nz::<L>(x), &nz::<L>(y), Choice::from(ch));
            check_nz(rep, "NonZero::conditional_select", &ul(&r.get()));
            if ul(&r.get()) != *(if ch == 1 { y } else { x }) {
                rep.fail("NonZero::conditional_select.value", "not one of the operands".into());
            }
        }
    }
    // zeroize: the wrapper must not end up holding zero through a safe call
    if !is_zero(x) {
        rep.class("zeroize");
        let mut v = nz::<L>(x);
        zeroize::Zeroize::zeroize(&mut v);
        check_nz(rep, "NonZero::zeroize", &ul(&v.get()));
    }
}

/// alias-only producers (Encoding / ArrayEncoding / serde need the named types)
macro_rules! nz_alias {
    ($c:expr, $rep:expr, $alias:ty, $l:literal) => {{
        let c: &Case = $c;
        let rep: &mut Rep = $rep;
        if c.w[0] == $l {
            let bytes = &c.b[0];
            let be_val: Vec<u64> = ul(&<$alias>::from_be_slice(bytes));
            let le_val: Vec<u64> = le_limbs_from_be_bytes(bytes);
            if is_zero(&be_val) != is_zero(&le_val) || (be_val[0] & 1) != (le_val[0] & 1) {
                rep.class("be_le_disagree_on_validity");
            }
            let mut arr = [0u8; 8 * $l];
            arr.copy_from_slice(bytes);
            let r = ct(NonZero::<$alias>::from_be_bytes(arr));
            if let Some(v) = &r {
                consume_nz(rep, "NonZero::from_be_bytes", v);
            }
            judge_nz(rep, "NonZero::from_be_bytes", r.map(|v| ul(&v.get())), &be_val);
            let r = ct(NonZero::<$alias>::from_le_bytes(arr));
            judge_nz(rep, "NonZero::from_le_bytes", r.map(|v| ul(&v.get())), &le_val);
            let mut a = crypto_bigint::ByteArray::<$alias>::default();
            a.copy_from_slice(bytes);
            let r = ct(NonZero::<$alias>::from_be_byte_array(a.clone()));
            judge_nz(rep, "NonZero::from_be_byte_array", r.map(|v| ul(&v.get())), &be_val);
            let r = ct(NonZero::<$alias>::from_le_byte_array(a));
            if let Some(v) = &r {
                consume_nz(rep, "NonZero::from_le_byte_array", v);
            }
            judge_nz(rep, "NonZero::from_le_byte_array", r.map(|v| ul(&v.get())), &le_val);
            // serde: the wire format of Uint is its LE bytes (binary) / LE hex (human readable)
            rep.class("serde_reject");
            // binary wire format: whatever prefix the serializer emits for a Uint, then its LE bytes
            let probe = bincode::serialize(&<$alias>::ONE).unwrap_or_default();
            let mut wire = probe[..probe.len() - 8 * $l].to_vec();
            wire.extend_from_slice(bytes);
            let r = bincode::deserialize::<NonZero<$alias>>(&wire).ok();
            judge_nz(rep, "NonZero::deserialize(bincode)", r.map(|v| ul(&v.get())), &le_val);
            let js = format!("\"{}\"", hexs(bytes));
            let r = serde_json::from_str::<NonZero<$alias>>(&js).ok();
            judge_nz(rep, "NonZero::deserialize(json)", r.map(|v| ul(&v.get())), &le_val);
            let r = bincode::deserialize::<Odd<$alias>>(&wire).ok();
            judge_odd(rep, "Odd::deserialize(bincode)", r.map(|v| ul(&v.get())), &le_val);
            let r = serde_json::from_str::<Odd<$alias>>(&js).ok();
            judge_odd(rep, "Odd::deserialize(json)", r.map(|v| ul(&v.get())), &le_val);
            // serialize round trip of valid wrappers
            if !is_zero(&le_val) {
                let v = nz::<$l>(&le_val);
                let ser = bincode::serialize(&v).unwrap_or_default();
                if bincode::deserialize::<NonZero<$alias>>(&ser).ok().map(|w| ul(&w.get())) != Some(le_val.clone()) {
                    rep.fail("NonZero::serde.roundtrip", "round trip changed the value".into());
                }
            }
        }
    }};
}

fn c_nz_uint(c: &Case, rep: &mut Rep) {
    dispatch!(c.w[0], [1, 2, 4, 8], nz_uint(c, rep));
    nz_alias!(c, rep, U64, 1);
    nz_alias!(c, rep, U128, 2);
    nz_alias!(c, rep, U256, 4);
    nz_alias!(c, rep, crypto_bigint::U512, 8);
}

fn odd_uint<const L: usize>(c: &Case, rep: &mut Rep) {
    let x = &c.a[0];
    rep.nontrivial();
    let ux = u::<L>(x);
    let r = ct(Odd::new(ux));
    if let Some(v) = &r {
        consume_odd(rep, "Odd::new", v);
        // as_nz_ref: a reference to the same, non-zero value
        let nzr = v.as_nz_ref();
        check_nz(rep, "Odd::as_nz_ref", &ul(nzr.as_ref()));
        if ul(nzr.as_ref()) != *x {
            rep.fail("Odd::as_nz_ref.value", "different value".into());
        }
        let nzr2: &NonZero<Uint<L>> = AsRef::<NonZero<Uint<L>>>::as_ref(v);
        if ul(nzr2.as_ref()) != *x {
            rep.fail("Odd::AsRef<NonZero>.value", "different value".into());
        }
        // fixed -> boxed keeps value and oddness
        rep.class("boxed");
        let ob: Odd<BoxedUint> = Odd::<BoxedUint>::from(*v);
        check_odd(rep, "Odd<BoxedUint>::From<Odd<Uint>>", &bl(ob.as_ref()));
        let ob2: Odd<BoxedUint> = Odd::<BoxedUint>::from(v);
        if bl(ob.as_ref()) != *x || bl(ob2.as_ref()) != *x {
            rep.fail("Odd<BoxedUint>::From<Odd<Uint>>.value", "different value".into());
        }
        let bp = BoxedMontyParams::new(ob);
        check_odd(rep, "BoxedMontyParams::modulus", &bl(bp.modulus().as_ref()));
    }
    judge_odd(rep, "Odd::new", r.map(|v| ul(&v.get())), x);
    let r = cct(ux.to_odd());
    judge_odd(rep, "Uint::to_odd", r.map(|v| ul(&v.get())), x);
    let ix: Int<L> = i::<L>(x);
    let r = cct(ix.to_odd());
    judge_odd(rep, "Int::to_odd", r.map(|v| il(&v.get())), x);
    let r = ct(bx(x).to_odd());
    judge_odd(rep, "BoxedUint::to_odd", r.map(|v| bl(&v.get())), x);
    // Default must satisfy the invariant
    rep.class("default_const");
    match catch(Odd::<Uint<L>>::default) {
        Ok(d) => check_odd(rep, "Odd::default", &ul(&d.get())),
        Err(_) => {}
    }
    // hex constructors: documented panic iff malformed or even; value in the STATED byte order
    let bytes = &c.b[0];
    let hx = hexs(bytes);
    let be_val: Vec<u64> = ul(&Uint::<L>::from_be_slice(bytes));
    let le_val: Vec<u64> = le_limbs_from_be_bytes(bytes);
    if (be_val[0] & 1) != (le_val[0] & 1) {
        rep.class("be_le_disagree_on_validity");
    }
    let r = catch(|| Odd::<Uint<L>>::from_be_hex(&hx)).ok();
    if let Some(v) = &r {
        consume_odd(rep, "Odd::from_be_hex", v);
    }
    judge_odd(rep, "Odd::from_be_hex", r.map(|v| ul(&v.get())), &be_val);
    let r = catch(|| Odd::<Uint<L>>::from_le_hex(&hx)).ok();
    if let Some(v) = &r {
        consume_odd(rep, "Odd::from_le_hex", v);
    }
    judge_odd(rep, "Odd::from_le_hex", r.map(|v| ul(&v.get())), &le_val);
    // garbage in an otherwise valid odd numeral must be rejected (documented panic), whatever the
    // position: characters just outside the three hex ranges
    if (be_val[0] & 1) == 1 && (be_val[0] >> 1) & 3 == 0 {
        rep.class("odd_hex_garbage");
        let n = hx.len();
        for pos in 0..n {
            if L > 2 && pos % 5 != (be_val[0] as usize >> 3) % 5 {
                continue;
            }
            for g in ['g', 'G', '/', ':', '@', '`'] {
                let mut t: Vec<char> = hx.chars().collect();
                t[pos] = g;
                let t: String = t.into_iter().collect();
                if let Ok(v) = catch(|| Odd::<Uint<L>>::from_be_hex(&t)) {
                    rep.fail("Odd::from_be_hex.rejects_garbage.missing_panic", format!("accepted {:?} as {}", t, hex(&ul(&v.get()))));
                }
            }
        }
    }
    if (le_val[0] & 1) == 1 && (le_val[0] >> 1) & 3 == 0 {
        let n = hx.len();
        for pos in 0..n {
            if L > 2 && pos % 5 != (le_val[0] as usize >> 3) % 5 {
                continue;
            }
            for g in ['g', 'G', '/', ':', '@', '`'] {
                let mut t: Vec<char> = hx.chars().collect();
                t[pos] = g;
                let t: String = t.into_iter().collect();
                if let Ok(v) = catch(|| Odd::<Uint<L>>::from_le_hex(&t)) {
                    rep.fail("Odd::from_le_hex.rejects_garbage.missing_panic", format!("accepted {:?} as {}", t, hex(&ul(&v.get()))));
                }
            }
        }
    }
    // select
    let y = &c.a[1];
    if x[0] & 1 == 1 && y[0] & 1 == 1 {
        rep.class("select");
        for ch in [0u8, 1] {
            let r = Odd::conditional_select(&od::<L>(x), &od::<L>(y), Choice::from(ch));
            check_odd(rep, "Odd::conditional_select", &ul(&r.get()));
            if ul(&r.get()) != *(if ch == 1 { y } else { x }) {
                rep.fail("Odd::conditional_select.value", "not one of the operands".into());
            }
        }
    }
    if x[0] & 1 == 1 {
        rep.class("zeroize");
        let mut v = od::<L>(x);
        zeroize::Zeroize::zeroize(&mut v);
        check_odd(rep, "Odd::zeroize", &ul(&v.get()));
    }
}
fn c_odd_uint(c: &Case, rep: &mut Rep) {
    dispatch!(c.w[0], [1, 2, 4, 8], odd_uint(c, rep))
}

fn c_nz_limb(c: &Case, rep: &mut Rep) {
    let v = c.s[0];
    rep.nontrivial();
    let l = Limb(v);
    judge_nz(rep, "NonZero<Limb>::new", ct(NonZero::new(l)).map(|x| vec![x.get().0]), &[v]);
    judge_nz(rep, "Limb::to_nz", cct(l.to_nz()).map(|x| vec![x.get().0]), &[v]);
    match catch(|| NonZero::<Limb>::new_unwrap(l)) {
        Ok(x) => judge_nz(rep, "NonZero<Limb>::new_unwrap", Some(vec![x.get().0]), &[v]),
        Err(_) => judge_nz(rep, "NonZero<Limb>::new_unwrap", None, &[v]),
    }
    rep.class("default_const");
    check_nz(rep, "NonZero<Limb>::default", &[NonZero::<Limb>::default().get().0]);
    check_nz(rep, "NonZero<Limb>::ONE", &[NonZero::<Limb>::ONE.get().0]);
    check_nz(rep, "NonZero<Limb>::MAX", &[NonZero::<Limb>::MAX.get().0]);
    let bytes = v.to_be_bytes();
    judge_nz(rep, "NonZero<Limb>::from_be_bytes", ct(NonZero::<Limb>::from_be_bytes(bytes)).map(|x| vec![x.get().0]), &[v]);
    judge_nz(rep, "NonZero<Limb>::from_le_bytes", ct(NonZero::<Limb>::from_le_bytes(bytes)).map(|x| vec![x.get().0]), &[u64::from_le_bytes(bytes)]);
    if let Some(n) = NonZeroU8::new(v as u8) {
        let a = NonZero::<Limb>::from_u8(n);
        let b: NonZero<Limb> = n.into();
        check_nz(rep, "NonZero<Limb>::from_u8", &[a.get().0]);
        if a.get().0 != v as u8 as u64 || a != b {
            rep.fail("NonZero<Limb>::from_u8.value", "mismatch".into());
        }
    }
    if let Some(n) = NonZeroU16::new(v as u16) {
        let a = NonZero::<Limb>::from_u16(n);
        let b: NonZero<Limb> = n.into();
        if a.get().0 != v as u16 as u64 || a != b {
            rep.fail("NonZero<Limb>::from_u16.value", "mismatch".into());
        }
    }
    if let Some(n) = NonZeroU32::new(v as u32) {
        let a = NonZero::<Limb>::from_u32(n);
        let b: NonZero<Limb> = n.into();
        if a.get().0 != v as u32 as u64 || a != b {
            rep.fail("NonZero<Limb>::from_u32.value", "mismatch".into());
        }
    }
    if let Some(n) = NonZeroU64::new(v) {
        let a = NonZero::<Limb>::from_u64(n);
        let b: NonZero<Limb> = n.into();
        check_nz(rep, "NonZero<Limb>::from_u64", &[a.get().0]);
        if a.get().0 != v || a != b {
            rep.fail("NonZero<Limb>::from_u64.value", "mismatch".into());
        }
    }
    if v != 0 {
        // consumer: limb division
        rep.class("consumer_checked");
        let d = nzl(v);
        let (q, r) = U128::MAX.div_rem_limb(d);
        if ub(&q) * BigUint::from(v) + BigUint::from(r.0) != ub(&U128::MAX) {
            rep.fail("NonZero<Limb>.consumer_div_rem_limb", "wrong".into());
        }
    }
}

fn c_nz_boxed(c: &Case, rep: &mut Rep) {
    let x = &c.a[0];
    let n = x.len();
    rep.nontrivial();
    rep.class("boxed");
    let b = bx(x);
    let r = ct(NonZero::new(b.clone()));
    if let Some(v) = &r {
        // widen keeps it non-zero; documented panic when the target is smaller
        let target = c.s[0] as u32;
        if let Some(w) = panics_iff(rep, "NonZero<BoxedUint>::widen", target < 64 * n as u32, || v.widen(target)) {
            check_nz(rep, "NonZero<BoxedUint>::widen", &bl(w.as_ref()));
            if bb(w.as_ref()) != to_big(x) {
                rep.fail("NonZero<BoxedUint>::widen.value", "value changed".into());
            }
        }
        // consumer
        rep.class("consumer_checked");
        let nmax = BoxedUint::max(64 * n as u32);
        match catch(|| nmax.div_rem(v)) {
            Ok((q, rm)) => {
                if bb(&q) * to_big(x) + bb(&rm) != bb(&nmax) {
                    rep.fail("NonZero<BoxedUint>.consumer_div_rem", "wrong".into());
                }
            }
            Err(m) => rep.fail(&format!("NonZero<BoxedUint>.consumer_div_rem.{}", panic_sig(&m)), m),
        }
    }
    judge_nz(rep, "NonZero<BoxedUint>::new", r.map(|v| bl(&v.get())), x);
    if !is_zero(x) {
        rep.class("zeroize");
        let mut v = nzb(x);
        zeroize::Zeroize::zeroize(&mut v);
        check_nz(rep, "NonZero<BoxedUint>::zeroize", &bl(v.as_ref()));
        let y = &c.a[1];
        if !is_zero(y) && y.len() == n {
            let mut o = if x[0] & 1 == 1 { Some(odb(x)) } else { None };
            if let Some(o) = o.as_mut() {
                zeroize::Zeroize::zeroize(o);
                check_odd(rep, "Odd<BoxedUint>::zeroize", &bl(o.as_ref()));
            }
        }
    }
    // CZero trait sanity on the value used above
    let _ = CZero::is_zero(&b);
    let _ = <U64 as Encoding>::from_be_bytes([0u8; 8]);
}

// ---------------------------------------------------------------------------------------------

/// values and byte strings: zero, one, two, MAX, even/odd in either byte order, asymmetric
fn gen_value(r: &mut Rng, n: usize) -> Vec<u64> {
    match r.below(10) {
        0 => gn::zero(n),
        1 => gn::one(n),
        2 => {
            let mut v = gn::zero(n);
            v[0] = 2;
            v
        }
        3 => gn::max(n),
        4 => {
            // non-zero only in the top limb
            let mut v = gn::zero(n);
            v[n - 1] = gn::limb(r) | 1 << 63;
            v
        }
        5 => {
            let mut v = gn::uint(r, n);
            v[0] &= !1;
            v
        }
        _ => gn::uint(r, n),
    }
}

fn gen_bytes(r: &mut Rng, nbytes: usize) -> Vec<u8> {
    let mut b = match r.below(8) {
        0 => vec![0u8; nbytes],
        1 => vec![0xff; nbytes],
        _ => r.bytes(nbytes),
    };
    match r.below(8) {
        // first / last byte decide oddness in LE / BE respectively: make them disagree
        0 => {
            b[0] |= 1;
            b[nbytes - 1] &= !1;
        }
        1 => {
            b[0] &= !1;
            b[nbytes - 1] |= 1;
        }
        // all zero except one byte at an end: zero-ness cannot disagree, but position matters for the value
        2 => {
            b = vec![0u8; nbytes];
            b[0] = 1 + (r.below(255) as u8);
        }
        3 => {
            b = vec![0u8; nbytes];
            b[nbytes - 1] = 1 + (r.below(255) as u8);
        }
        _ => {}
    }
    b
}

pub fn workload(ctx: &mut Ctx) {
    for &l in &[1usize, 2, 4, 8] {
        for _ in 0..ctx.iters(120_000) {
            let x = gen_value(&mut ctx.rng, l);
            let y = gen_value(&mut ctx.rng, l);
            let bytes = gen_bytes(&mut ctx.rng, 8 * l);
            let lo = match ctx.rng.below(4) {
                0 => 0,
                1 => 1,
                _ => gn::limb(&mut ctx.rng),
            };
            let hi = match ctx.rng.below(4) {
                0 => 0,
                1 => 1,
                2 => 1 << 63,
                _ => gn::limb(&mut ctx.rng),
            };
            ctx.exec(Case::new("nz.uint").w(l).a(x.clone()).a(y.clone()).b(bytes.clone()).s(lo).s(hi), c_nz_uint);
            ctx.exec(Case::new("odd.uint").w(l).a(x).a(y).b(bytes), c_odd_uint);
        }
    }
    for &v in &gn::PALETTE {
        if ctx.mine() {
            ctx.exec(Case::new("nz.limb").s(v), c_nz_limb);
        }
    }
    for _ in 0..ctx.iters(200_000) {
        let v = if ctx.rng.chance(1, 8) { 0 } else { gn::limb(&mut ctx.rng) };
        ctx.exec(Case::new("nz.limb").s(v), c_nz_limb);
    }
    for _ in 0..ctx.iters(200_000) {
        let n = 1 + ctx.rng.usize_below(8);
        let x = gen_value(&mut ctx.rng, n);
        let y = gen_value(&mut ctx.rng, n);
        let target = match ctx.rng.below(3) {
            0 => 64 * n as u64,
            1 => 64 * (n as u64 + ctx.rng.below(4)),
            _ => ctx.rng.below(64 * n as u64 + 65),
        };
        ctx.exec(Case::new("nz.boxed").w(n).a(x).a(y).s(target), c_nz_boxed);
    }
    // random producers under zero-prefix streams (shared with C19)
    for &l in &[1usize, 2, 4] {
        for _ in 0..ctx.iters(40_000) {
            let seed = ctx.rng.u64();
            let zp = ctx.rng.below(5 * l as u64 + 1);
            ctx.exec(Case::new("wrappers.random").w(l).s(seed).s(zp), crate::c19::c_random_pub);
        }
    }
}
