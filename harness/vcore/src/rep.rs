//! Case / replay format, violation records, class counters and per-run statistics.
use crate::big::{hex, parse_hex};
use serde_json::{Value, json};
use std::collections::{BTreeMap, HashSet};
use std::hash::{Hash, Hasher};

/// A concrete, self-contained test case: operation name, widths, limb-vector operands, scalar
/// parameters, byte-string operands.  Replay files are exactly this, so they do not depend on
/// generator or seed.
#[derive(Clone, Debug, Default, PartialEq, Eq, Hash)]
pub struct Case {
    pub op: String,
    pub w: Vec<usize>,
    pub a: Vec<Vec<u64>>,
    pub s: Vec<u64>,
    pub b: Vec<Vec<u8>>,
}

impl Case {
    pub fn new(op: &str) -> Case {
        Case { op: op.to_string(), ..Default::default() }
    }
    pub fn w(mut self, w: usize) -> Case {
        self.w.push(w);
        self
    }
    pub fn a(mut self, a: Vec<u64>) -> Case {
        self.a.push(a);
        self
    }
    pub fn s(mut self, s: u64) -> Case {
        self.s.push(s);
        self
    }
    pub fn b(mut self, b: Vec<u8>) -> Case {
        self.b.push(b);
        self
    }
    pub fn to_json(&self) -> Value {
        json!({
            "op": self.op,
            "w": self.w,
            "a": self.a.iter().map(|x| hex(x)).collect::<Vec<_>>(),
            "a_limbs": self.a.iter().map(|x| x.len()).collect::<Vec<_>>(),
            "s": self.s,
            "b": self.b.iter().map(|x| x.iter().map(|c| format!("{:02x}", c)).collect::<String>()).collect::<Vec<_>>(),
        })
    }
    pub fn from_json(v: &Value) -> Option<Case> {
        let lens: Vec<usize> =
            v.get("a_limbs")?.as_array()?.iter().map(|x| x.as_u64().unwrap() as usize).collect();
        let mut a = Vec::new();
        for (i, x) in v.get("a")?.as_array()?.iter().enumerate() {
            let mut l = parse_hex(x.as_str()?);
            l.resize(lens[i], 0);
            a.push(l);
        }
        let b = v
            .get("b")?
            .as_array()?
            .iter()
            .map(|x| {
                let s = x.as_str().unwrap();
                (0..s.len() / 2).map(|i| u8::from_str_radix(&s[2 * i..2 * i + 2], 16).unwrap()).collect()
            })
            .collect();
        Some(Case {
            op: v.get("op")?.as_str()?.to_string(),
            w: v.get("w")?.as_array()?.iter().map(|x| x.as_u64().unwrap() as usize).collect(),
            a,
            s: v.get("s")?.as_array()?.iter().map(|x| x.as_u64().unwrap()).collect(),
            b,
        })
    }
    pub fn hash64(&self) -> u64 {
        let mut h = std::collections::hash_map::DefaultHasher::new();
        self.hash(&mut h);
        h.finish()
    }
}

#[derive(Clone, Debug)]
pub struct Violation {
    /// signature: `<op>|<relation that failed>` — what known-finding lines match on.
    pub key: String,
    pub detail: String,
    pub case: Case,
}

pub const MAX_VIOL_PER_KEY: usize = 3;
pub const MAX_SAMPLES_PER_OP: usize = 1;

#[derive(Default)]
pub struct Rep {
    pub evaluations: u64,
    pub ops: BTreeMap<String, u64>,
    pub classes: BTreeMap<String, u64>,
    pub distinct: HashSet<u64>,
    pub violations: Vec<Violation>,
    pub viol_counts: BTreeMap<String, u64>,
    pub samples: BTreeMap<String, Vec<Value>>,
    pub inconclusive: Vec<String>,
    pub notes: BTreeMap<String, Value>,
    cur: Option<Case>,
    cur_nontrivial: bool,
    /// domain tag prepended to the relation part of violation keys of the current case
    pub key_prefix: String,
}

impl Rep {
    pub fn new() -> Rep {
        Rep::default()
    }

    pub fn begin(&mut self, c: &Case) {
        self.cur = Some(c.clone());
        self.cur_nontrivial = false;
        self.key_prefix.clear();
        self.evaluations += 1;
        *self.ops.entry(c.op.clone()).or_insert(0) += 1;
    }

    pub fn end(&mut self) {
        if let Some(c) = self.cur.take() {
            if self.cur_nontrivial {
                self.distinct.insert(c.hash64());
            }
            let e = self.samples.entry(c.op.clone()).or_default();
            if e.len() < MAX_SAMPLES_PER_OP && (self.cur_nontrivial || self.evaluations % 7 == 0) {
                e.push(c.to_json());
            }
        }
    }

    /// Count an oracle-side class for the current case; classes are non-trivial by definition.
    pub fn class(&mut self, name: &str) {
        *self.classes.entry(name.to_string()).or_insert(0) += 1;
        self.cur_nontrivial = true;
    }

    /// Count a class that is informational only (does not make the case non-trivial).
    pub fn tally(&mut self, name: &str) {
        *self.classes.entry(name.to_string()).or_insert(0) += 1;
    }

    pub fn nontrivial(&mut self) {
        self.cur_nontrivial = true;
    }

    /// Record a violation for the current case.  `rel` names the relation that failed.
    pub fn fail(&mut self, rel: &str, detail: String) {
        let case = self.cur.clone().unwrap_or_default();
        let key = format!("{}|{}{}", case.op, self.key_prefix, rel);
        let n = self.viol_counts.entry(key.clone()).or_insert(0);
        *n += 1;
        if (*n as usize) <= MAX_VIOL_PER_KEY {
            self.violations.push(Violation { key, detail, case });
        }
    }

    pub fn inconclusive(&mut self, what: String) {
        if self.inconclusive.len() < 50 {
            self.inconclusive.push(what);
        }
    }

    /// Convenience: compare two debug-printable values.
    pub fn expect_eq<T: PartialEq + std::fmt::Debug>(&mut self, rel: &str, got: &T, want: &T) -> bool {
        if got != want {
            self.fail(rel, format!("got {:?} want {:?}", got, want));
            false
        } else {
            true
        }
    }

    pub fn expect(&mut self, rel: &str, ok: bool, detail: impl FnOnce() -> String) -> bool {
        if !ok {
            self.fail(rel, detail());
        }
        ok
    }

    pub fn merge(&mut self, o: Rep) {
        self.evaluations += o.evaluations;
        for (k, v) in o.ops {
            *self.ops.entry(k).or_insert(0) += v;
        }
        for (k, v) in o.classes {
            *self.classes.entry(k).or_insert(0) += v;
        }
        self.distinct.extend(o.distinct);
        for (k, v) in o.viol_counts {
            *self.viol_counts.entry(k).or_insert(0) += v;
        }
        for v in o.violations {
            let have = self.violations.iter().filter(|x| x.key == v.key).count();
            if have < MAX_VIOL_PER_KEY {
                self.violations.push(v);
            }
        }
        for (k, v) in o.samples {
            let e = self.samples.entry(k).or_default();
            for s in v {
                if e.len() < MAX_SAMPLES_PER_OP {
                    e.push(s);
                }
            }
        }
        for s in o.inconclusive {
            self.inconclusive(s);
        }
        for (k, v) in o.notes {
            // numeric notes are summed, others overwritten
            match (self.notes.get(&k).and_then(|x| x.as_u64()), v.as_u64()) {
                (Some(a), Some(b)) => {
                    self.notes.insert(k, json!(a + b));
                }
                _ => {
                    self.notes.insert(k, v);
                }
            }
        }
    }

    pub fn to_json(&self) -> Value {
        let viols: Vec<Value> = self
            .violations
            .iter()
            .map(|v| json!({"key": v.key, "detail": v.detail, "case": v.case.to_json(), "count": self.viol_counts.get(&v.key)}))
            .collect();
        let mut samples: Vec<Value> = Vec::new();
        for (_, v) in &self.samples {
            for s in v {
                samples.push(s.clone());
            }
        }
        json!({
            "evaluations": self.evaluations,
            "ops": self.ops,
            "classes": self.classes,
            "distinct_nontrivial": self.distinct.len(),
            "violations": viols,
            "violation_keys": self.viol_counts,
            "samples": samples,
            "inconclusive": self.inconclusive,
            "notes": self.notes,
        })
    }
}
