/* Uninstrumented SanitizerCoverage callbacks of the IR-level trace monitor (M1).
 * Every event inside an active region is folded into a running hash; optionally recorded. */
#include <stdint.h>
#include <stddef.h>

#define LOGCAP (1u << 22)
static uint64_t h, n, dh, dn;
static int active, recording;
static uint64_t logk[LOGCAP], logp[LOGCAP], logv[LOGCAP];
static uint64_t logn;

static inline void ev(uint64_t kind, uint64_t pc, uint64_t val) {
    if (!active) return;
    h = (h ^ (pc * 0x9e3779b97f4a7c15ULL + val * 0xc2b2ae3d27d4eb4fULL + kind)) * 0x100000001b3ULL;
    h = (h << 23) | (h >> 41);
    n++;
    if (recording && logn < LOGCAP) { logk[logn] = kind; logp[logn] = pc; logv[logn] = val; logn++; }
}
#define RA ((uint64_t)__builtin_return_address(0))

void __sanitizer_cov_trace_pc_guard_init(uint32_t *start, uint32_t *stop) { for (; start < stop; start++) *start = 1; }
void __sanitizer_cov_trace_pc_guard(uint32_t *g) { (void)g; ev(1, RA, 0); }
void __sanitizer_cov_trace_div4(uint32_t v) { if (active) { dh = (dh ^ v) * 0x100000001b3ULL; dn++; } ev(2, RA, v); }
void __sanitizer_cov_trace_div8(uint64_t v) { if (active) { dh = (dh ^ v) * 0x100000001b3ULL; dn++; } ev(2, RA, v); }
void __sanitizer_cov_trace_gep(uintptr_t i) { ev(3, RA, (uint64_t)i); }
void __sanitizer_cov_load1(void *a) { ev(4, RA, (uint64_t)a); }
void __sanitizer_cov_load2(void *a) { ev(4, RA, (uint64_t)a); }
void __sanitizer_cov_load4(void *a) { ev(4, RA, (uint64_t)a); }
void __sanitizer_cov_load8(void *a) { ev(4, RA, (uint64_t)a); }
void __sanitizer_cov_load16(void *a) { ev(4, RA, (uint64_t)a); }
void __sanitizer_cov_store1(void *a) { ev(5, RA, (uint64_t)a); }
void __sanitizer_cov_store2(void *a) { ev(5, RA, (uint64_t)a); }
void __sanitizer_cov_store4(void *a) { ev(5, RA, (uint64_t)a); }
void __sanitizer_cov_store8(void *a) { ev(5, RA, (uint64_t)a); }
void __sanitizer_cov_store16(void *a) { ev(5, RA, (uint64_t)a); }

void ct_cov_begin(int record) { h = 0xcbf29ce484222325ULL; n = 0; dh = 0; dn = 0; logn = 0; recording = record; active = 1; }
void ct_cov_end(void) { active = 0; }
uint64_t ct_cov_hash(void) { return h; }
uint64_t ct_cov_count(void) { return n; }
uint64_t ct_cov_div_hash(void) { return dh; }
uint64_t ct_cov_div_count(void) { return dn; }
uint64_t ct_cov_log_len(void) { return logn; }
void ct_cov_log_get(uint64_t i, uint64_t *k, uint64_t *p, uint64_t *v) { *k = logk[i]; *p = logp[i]; *v = logv[i]; }
