//! C17 — radix strings: canonical output, exact parse, overflow always reported.
use crate::dispatch;
use crate::util::*;
use crypto_bigint::{BoxedUint, DecodeError, Uint};

pub const DEF: PropDef = PropDef {
    id: "C17",
    workload,
    ops,
    mandatory: &["value_eq_2powBITS", "value_eq_2powBITS_minus1", "decorated", "final_partial_batch", "batch_boundary", "large_divisor_recursion", "zero", "lone_plus", "digit_ge_radix", "aligned_radix_zero_limb", "all_radixes", "garbage_bytes", "boxed_gt_128_limbs"],
    rule: "for every radix 2..=36 (exhaustive): format values {0, 1, radix^j, radix^j-1, 2^BITS-1, values with whole zero limbs, structured} of Uint (1,2,3,4,8,16,40 limbs) and BoxedUint (1..=140 limbs, crossing the 32-limb large-divisor recursion and the 128-limb stack buffer) and compare with the canonical lowercase numeral of BigUint; parse that numeral back plain and decorated (leading '+', leading zeros, interior underscores, upper case); parse numerals denoting exactly 2^BITS, 2^BITS-1 (+decorations) and larger; parse non-numerals (empty, lone '+', leading/trailing/doubled underscores, digits >= radix, arbitrary bytes) expecting the documented error and never a panic or a wrapped value. non-trivial = named class; distinct by hash",
};

pub fn ops() -> Vec<(&'static str, Checker)> {
    vec![("uint.radix_format", c_uint_format), ("uint.radix_parse", c_uint_parse), ("boxed.radix_format", c_boxed_format), ("boxed.radix_parse", c_boxed_parse)]
}

/// Oracle grammar (from the documentation): optional '+', then digits of the radix separated by
/// single interior underscores.  Returns Err(kind) for non-numerals; `lenient` marks inputs whose
/// status the documentation leaves open (doubled underscores) — those may be accepted or rejected.
#[derive(Debug, PartialEq)]
enum Parsed {
    Value(BigUint),
    Empty,
    Invalid,
}
fn oracle_parse(s: &[u8], radix: u32) -> (Parsed, bool) {
    let body = s.strip_prefix(b"+").unwrap_or(s);
    if body.is_empty() {
        return (Parsed::Empty, false);
    }
    if body[0] == b'_' || body[body.len() - 1] == b'_' {
        return (Parsed::Invalid, false);
    }
    let mut lenient = false;
    let mut v = BigUint::zero();
    let mut prev_us = false;
    for &b in body {
        if b == b'_' {
            if prev_us {
                lenient = true;
            }
            prev_us = true;
            continue;
        }
        prev_us = false;
        let d = match b {
            b'0'..=b'9' => (b - b'0') as u32,
            b'a'..=b'z' => (b - b'a') as u32 + 10,
            b'A'..=b'Z' => (b - b'A') as u32 + 10,
            _ => 99,
        };
        if d >= radix {
            return (Parsed::Invalid, false);
        }
        v = v * radix + d;
    }
    (Parsed::Value(v), lenient)
}

/// value of the digits before the first character that is neither a digit of the radix nor '_'
fn valid_prefix_value(s: &[u8], radix: u32) -> BigUint {
    let body = s.strip_prefix(b"+").unwrap_or(s);
    let mut v = BigUint::zero();
    for &b in body {
        if b == b'_' {
            continue;
        }
        let d = match b {
            b'0'..=b'9' => (b - b'0') as u32,
            b'a'..=b'z' => (b - b'a') as u32 + 10,
            b'A'..=b'Z' => (b - b'A') as u32 + 10,
            _ => 99,
        };
        if d >= radix {
            break;
        }
        v = v * radix + d;
    }
    v
}

fn class_numeral(s: &[u8], radix: u32, rep: &mut Rep) {
    let body = s.strip_prefix(b"+").unwrap_or(s);
    if s == b"+" {
        rep.class("lone_plus");
    }
    if body.iter().any(|&b| {
        let d = match b {
            b'0'..=b'9' => (b - b'0') as u32,
            b'a'..=b'z' => (b - b'a') as u32 + 10,
            b'A'..=b'Z' => (b - b'A') as u32 + 10,
            _ => 0,
        };
        d >= radix && b.is_ascii_alphanumeric()
    }) {
        rep.class("digit_ge_radix");
    }
    if s.iter().any(|&b| !(b.is_ascii_alphanumeric() || b == b'_' || b == b'+')) {
        rep.class("garbage_bytes");
    }
    if (s.starts_with(b"+") || body.starts_with(b"0") || body.contains(&b'_') || body.iter().any(|b| b.is_ascii_uppercase())) && body.len() > 1 {
        rep.class("decorated");
    }
    // digits per limb batch of the non-aligned decoder
    if !matches!(radix, 2 | 4 | 16) {
        let per = (u64::MAX as f64).log(radix as f64).floor() as usize;
        let nd = body.iter().filter(|&&b| b != b'_').skip_while(|&&b| b == b'0').count();
        if nd > 0 && per > 0 {
            if nd % per == 0 {
                rep.class("batch_boundary");
            } else if nd > per {
                rep.class("final_partial_batch");
            }
        }
    }
}

fn class_value(v: &BigUint, bits: usize, radix: u32, rep: &mut Rep) {
    if v.is_zero() {
        rep.class("zero");
    }
    if *v == pow2(bits) {
        rep.class("value_eq_2powBITS");
    }
    if v + 1u32 == pow2(bits) {
        rep.class("value_eq_2powBITS_minus1");
    }
    if matches!(radix, 2 | 4 | 16) {
        let l = from_big(v, (v.bits() as usize).div_ceil(64).max(1));
        if l.len() >= 2 && l[..l.len() - 1].iter().any(|&x| x == 0) {
            rep.class("aligned_radix_zero_limb");
        }
    }
    rep.tally(&format!("radix_{:02}", radix));
}

fn canonical(v: &BigUint, radix: u32) -> String {
    v.to_str_radix(radix)
}

fn uint_format<const L: usize>(c: &Case, rep: &mut Rep) {
    let x = &c.a[0];
    let radix = c.s[0] as u32;
    let v = to_big(x);
    class_value(&v, 64 * L, radix, rep);
    rep.nontrivial();
    let want = canonical(&v, radix);
    let got = u::<L>(x).to_string_radix_vartime(radix);
    if got != want {
        rep.fail("to_string_radix_vartime", format!("radix {} got {:?} want {:?}", radix, got, want));
    }
    match Uint::<L>::from_str_radix_vartime(&got, radix) {
        Ok(b) => {
            if ul(&b) != *x {
                rep.fail("format_parse_roundtrip", format!("radix {} parsed {}", radix, hex(&ul(&b))));
            }
        }
        Err(e) => rep.fail("format_parse_roundtrip", format!("radix {} parse error {:?}", radix, e)),
    }
}
fn c_uint_format(c: &Case, rep: &mut Rep) {
    dispatch!(c.w[0], [1, 2, 3, 4, 8, 16, 40], uint_format(c, rep))
}

fn judge_parse(rep: &mut Rep, rel: &str, got: Result<Vec<u64>, DecodeError>, s: &[u8], radix: u32, limbs: Option<usize>, prec_bits: Option<usize>) {
    let (want, lenient) = oracle_parse(s, radix);
    let shown = String::from_utf8_lossy(s);
    match (&got, &want) {
        (Ok(g), Parsed::Value(v)) => {
            if &to_big(g) != v {
                rep.fail(rel, format!("radix {} {:?}: got {} but the numeral denotes {}", radix, shown, hex(g), bhex(v)));
            }
        }
        (Err(e), Parsed::Value(v)) => {
            let too_big_limbs = limbs.map(|l| !fits(v, l)).unwrap_or(false);
            let too_big_prec = prec_bits.map(|p| v.bits() as usize > p).unwrap_or(false);
            if too_big_limbs || too_big_prec {
                if !matches!(e, DecodeError::InputSize | DecodeError::Precision) {
                    rep.fail(&format!("{}.size_error_kind", rel), format!("radix {} {:?}: error {:?} for an oversized value", radix, shown, e));
                }
            } else if !(lenient && *e == DecodeError::InvalidDigit) {
                rep.fail(&format!("{}.accepts_numeral", rel), format!("radix {} {:?}: rejected with {:?} but denotes {}", radix, shown, e, bhex(v)));
            }
        }
        (Ok(g), Parsed::Empty) | (Ok(g), Parsed::Invalid) => {
            rep.fail(&format!("{}.rejects_non_numeral", rel), format!("radix {} {:?}: accepted as {}", radix, shown, hex(g)));
        }
        (Err(e), Parsed::Empty) => {
            if *e != DecodeError::Empty {
                rep.fail(&format!("{}.empty_error_kind", rel), format!("{:?}: got {:?}", shown, e));
            }
        }
        (Err(e), Parsed::Invalid) => {
            // which of two applicable errors wins is not specified: a size error is acceptable when the
            // digits before the first offending character already exceed the target
            let cap_bits = prec_bits.or(limbs.map(|l| 64 * l));
            let prefix_overflows = cap_bits.map(|cb| valid_prefix_value(s, radix).bits() as usize > cb).unwrap_or(false);
            let ok = *e == DecodeError::InvalidDigit || (prefix_overflows && matches!(e, DecodeError::InputSize | DecodeError::Precision));
            if !ok {
                rep.fail(&format!("{}.invalid_error_kind", rel), format!("radix {} {:?}: got {:?}", radix, shown, e));
            }
        }
    }
    // oversize must always be reported
    if let (Ok(g), Parsed::Value(v)) = (&got, &want) {
        if let Some(l) = limbs {
            if !fits(v, l) {
                rep.fail(&format!("{}.overflow_reported", rel), format!("radix {} {:?}: value does not fit {} limbs but Ok({}) was returned", radix, shown, l, hex(g)));
            }
        }
        if let Some(p) = prec_bits {
            if v.bits() as usize > p {
                rep.fail(&format!("{}.precision_reported", rel), format!("value exceeds {} bits but Ok was returned", p));
            }
        }
    }
}

fn uint_parse<const L: usize>(c: &Case, rep: &mut Rep) {
    let s = &c.b[0];
    let radix = c.s[0] as u32;
    class_numeral(s, radix, rep);
    if let (Parsed::Value(v), _) = oracle_parse(s, radix) {
        class_value(&v, 64 * L, radix, rep);
    }
    rep.nontrivial();
    let st = match std::str::from_utf8(s) {
        Ok(t) => t,
        Err(_) => return,
    };
    let got = Uint::<L>::from_str_radix_vartime(st, radix).map(|v| ul(&v));
    judge_parse(rep, "from_str_radix_vartime", got, s, radix, Some(L), None);
    let got = <Uint<L> as num_traits::Num>::from_str_radix(st, radix).map(|v| ul(&v));
    judge_parse(rep, "Num::from_str_radix", got, s, radix, Some(L), None);
}
fn c_uint_parse(c: &Case, rep: &mut Rep) {
    dispatch!(c.w[0], [1, 2, 3, 4, 8, 16, 40], uint_parse(c, rep))
}

fn c_boxed_format(c: &Case, rep: &mut Rep) {
    let x = &c.a[0];
    let n = x.len();
    let radix = c.s[0] as u32;
    let v = to_big(x);
    class_value(&v, 64 * n, radix, rep);
    if n > 32 {
        rep.class("large_divisor_recursion");
    }
    if n > 128 {
        rep.class("boxed_gt_128_limbs");
    }
    rep.nontrivial();
    let want = canonical(&v, radix);
    let got = bx(x).to_string_radix_vartime(radix);
    if got != want {
        let (a, b) = (got.len(), want.len());
        rep.fail("boxed.to_string_radix_vartime", format!("radix {} limbs {}: got {} chars {:?}.. want {} chars {:?}..", radix, n, a, &got[..a.min(40)], b, &want[..b.min(40)]));
    }
    match BoxedUint::from_str_radix_with_precision_vartime(&want, radix, 64 * n as u32) {
        Ok(b) => {
            if bl(&b) != *x {
                rep.fail("boxed.format_parse_roundtrip", format!("radix {} parsed {}", radix, hex(&bl(&b))));
            }
        }
        Err(e) => rep.fail("boxed.format_parse_roundtrip", format!("radix {} parse error {:?}", radix, e)),
    }
    match BoxedUint::from_str_radix_vartime(&want, radix) {
        Ok(b) => {
            if bb(&b) != v {
                rep.fail("boxed.from_str_radix_vartime.roundtrip", format!("radix {} parsed {}", radix, hex(&bl(&b))));
            }
            // the result must be a usable integer: formatting it again gives the same numeral
            match catch(|| b.to_string_radix_vartime(radix)) {
                Ok(s2) => {
                    if s2 != want {
                        rep.fail("boxed.from_str_radix_vartime.reformat", format!("radix {}: {:?} -> {:?}", radix, want, s2));
                    }
                }
                Err(m) => rep.fail(&format!("boxed.from_str_radix_vartime.reformat.{}", panic_sig(&m)), format!("formatting the parsed value panicked: {}", m)),
            }
            if catch(|| b.bits_vartime()).is_err() || catch(|| b.bits()).is_err() {
                rep.fail("boxed.from_str_radix_vartime.result_usable", format!("bits() panics on the value parsed from {:?} ({} limbs)", want, b.nlimbs()));
            }
        }
        Err(e) => rep.fail("boxed.from_str_radix_vartime.roundtrip", format!("radix {} parse error {:?}", radix, e)),
    }
}

fn c_boxed_parse(c: &Case, rep: &mut Rep) {
    let s = &c.b[0];
    let radix = c.s[0] as u32;
    let prec = c.s[1] as u32;
    class_numeral(s, radix, rep);
    if let (Parsed::Value(v), _) = oracle_parse(s, radix) {
        class_value(&v, prec as usize, radix, rep);
    }
    rep.nontrivial();
    let st = match std::str::from_utf8(s) {
        Ok(t) => t,
        Err(_) => return,
    };
    let got = BoxedUint::from_str_radix_vartime(st, radix).map(|v| bl(&v));
    judge_parse(rep, "boxed.from_str_radix_vartime", got, s, radix, None, None);
    let limbs = (prec as usize).div_ceil(64);
    let got = BoxedUint::from_str_radix_with_precision_vartime(st, radix, prec);
    if let Ok(v) = &got {
        if v.nlimbs() != limbs.max(1) && prec > 0 {
            rep.fail("boxed.from_str_radix_with_precision_vartime.precision", format!("{} limbs want {}", v.nlimbs(), limbs));
        }
    }
    judge_parse(rep, "boxed.from_str_radix_with_precision_vartime", got.map(|v| bl(&v)), s, radix, Some(limbs.max(1)), Some(prec as usize));
}

// ---------------------------------------------------------------------------------------------

fn decorate(r: &mut Rng, s: &str) -> Vec<u8> {
    let mut out: Vec<u8> = Vec::new();
    if r.chance(1, 3) {
        out.push(b'+');
    }
    for _ in 0..r.below(4) {
        out.push(b'0');
        if r.chance(1, 4) {
            out.push(b'_');
        }
    }
    let bytes = s.as_bytes();
    for (i, &b) in bytes.iter().enumerate() {
        out.push(if r.chance(1, 3) { b.to_ascii_uppercase() } else { b });
        if i + 1 < bytes.len() && r.chance(1, 6) {
            out.push(b'_');
        }
    }
    out
}

fn gen_value(r: &mut Rng, n: usize, radix: u32) -> Vec<u64> {
    let bits = 64 * n;
    let v = match r.below(10) {
        0 => BigUint::zero(),
        1 => BigUint::one(),
        2 => mask(bits),
        3 | 4 => {
            // radix^j and radix^j - 1
            let maxj = (bits as f64 / (radix as f64).log2()).floor() as u32;
            let j = r.below(maxj as u64 + 1) as u32;
            let p = BigUint::from(radix).pow(j);
            let p = if p.bits() as usize > bits { BigUint::from(radix).pow(j.saturating_sub(1)) } else { p };
            if r.bool() { p } else { p - 1u32 }
        }
        5 => {
            // whole zero limbs inside
            let mut v = gn::uint(r, n);
            if n >= 2 {
                let z = r.usize_below(n - 1);
                v[z] = 0;
                v[n - 1] |= 1;
            }
            to_big(&v)
        }
        _ => to_big(&gn::uint(r, n)),
    };
    from_big(&(v & mask(bits)), n)
}

fn hostile_string(r: &mut Rng, radix: u32, bits: usize) -> Vec<u8> {
    let alphabet = b"0123456789abcdefghijklmnopqrstuvwxyzABCDEFGHIJKLMNOPQRSTUVWXYZ_+";
    match r.below(12) {
        0 => vec![],
        1 => b"+".to_vec(),
        2 => b"_".to_vec(),
        3 => {
            // exactly 2^bits, 2^bits - 1, 2^bits + 1, decorated
            let v = pow2(bits) + BigUint::from(r.below(3)) - 1u32;
            decorate(r, &v.to_str_radix(radix))
        }
        4 => {
            // far too large
            let v = pow2(bits + 1 + r.usize_below(200));
            v.to_str_radix(radix).into_bytes()
        }
        5 => {
            // a digit >= radix somewhere
            let v = to_big(&gn::random(r, (bits / 64).max(1)));
            let mut s = v.to_str_radix(radix).into_bytes();
            let p = r.usize_below(s.len());
            let d = radix + r.below((36 - radix) as u64 + 1) as u32;
            s[p] = if d < 10 { b'0' + d as u8 } else if d < 36 { b'a' + (d - 10) as u8 } else { b'~' };
            s
        }
        6 => {
            // leading / trailing / doubled underscores
            let v = to_big(&gn::random(r, (bits / 64).max(1)));
            let mut s = v.to_str_radix(radix).into_bytes();
            match r.below(4) {
                0 => s.insert(0, b'_'),
                1 => s.push(b'_'),
                2 => {
                    let p = 1 + r.usize_below(s.len().max(2) - 1);
                    s.splice(p.min(s.len())..p.min(s.len()), *b"__");
                }
                _ => {
                    s.insert(0, b'_');
                    s.insert(0, b'+');
                }
            }
            s
        }
        7 => {
            // arbitrary bytes (valid UTF-8 or not)
            let n = r.usize_below(24);
            r.bytes(n)
        }
        8 => {
            let n = 1 + r.usize_below(30);
            (0..n).map(|_| *r.pick(&[b' ', b'-', b'.', b',', b'x', b'0', b'1', b'\n', b'\t', 0xc3, 0xa9])).collect()
        }
        _ => {
            let n = r.usize_below(40);
            (0..n).map(|_| alphabet[r.usize_below(alphabet.len())]).collect()
        }
    }
}

pub fn workload(ctx: &mut Ctx) {
    let widths = [1usize, 2, 3, 4, 8, 16, 40];
    for radix in 2..=36u32 {
        ctx.rep.tally("all_radixes");
        for &l in &widths {
            let cnt = match l {
                1..=4 => 40_000,
                8 | 16 => 10_000,
                _ => 1_500,
            };
            for _ in 0..ctx.iters(cnt) {
                let x = gen_value(&mut ctx.rng, l, radix);
                ctx.exec(Case::new("uint.radix_format").w(l).a(x.clone()).s(radix as u64), c_uint_format);
                // decorated form of the same value parses to it
                let s = canonical(&to_big(&x), radix);
                let d = decorate(&mut ctx.rng, &s);
                ctx.exec(Case::new("uint.radix_parse").w(l).b(d).s(radix as u64), c_uint_parse);
                let h = hostile_string(&mut ctx.rng, radix, 64 * l);
                ctx.exec(Case::new("uint.radix_parse").w(l).b(h).s(radix as u64), c_uint_parse);
            }
        }
        // boxed 1..=140 limbs
        for _ in 0..ctx.iters(12_000) {
            let n = match ctx.rng.below(10) {
                0..=4 => 1 + ctx.rng.usize_below(8),
                5 | 6 => 9 + ctx.rng.usize_below(24),
                7 => *ctx.rng.pick(&[31usize, 32, 33, 34, 48, 64, 65]),
                8 => *ctx.rng.pick(&[127usize, 128, 129, 130, 140]),
                _ => 1 + ctx.rng.usize_below(140),
            };
            let x = if n > 32 && ctx.rng.bool() { gn::max(n) } else { gen_value(&mut ctx.rng, n, radix) };
            ctx.exec(Case::new("boxed.radix_format").w(n).a(x).s(radix as u64), c_boxed_format);
        }
        for _ in 0..ctx.iters(60_000) {
            let n = 1 + ctx.rng.usize_below(6);
            let prec = match ctx.rng.below(3) {
                0 => 64 * n as u64,
                _ => 1 + ctx.rng.below(64 * n as u64),
            };
            let s = if ctx.rng.bool() {
                let x = gen_value(&mut ctx.rng, n, radix);
                let st = canonical(&to_big(&x), radix);
                decorate(&mut ctx.rng, &st)
            } else {
                hostile_string(&mut ctx.rng, radix, prec as usize)
            };
            ctx.exec(Case::new("boxed.radix_parse").b(s).s(radix as u64).s(prec), c_boxed_parse);
        }
    }
}
