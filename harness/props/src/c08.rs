//! C08 — Montgomery-form values stay canonical and track Z/mZ over any operation history.
//!
//! History monitor: a generated operation sequence (<= 64 steps over 6 registers) is replayed in
//! lock-step on the runtime (`MontyForm<L>`), boxed (`BoxedMontyForm`) and — for moduli of the
//! compile-time bank — const (`ConstMontyForm`) representations and on a BigUint model of Z/mZ.
//! After EVERY step, for every representation: stored Montgomery value < m, retrieve == model,
//! and all representations hold identical Montgomery limbs.
#![allow(non_camel_case_types)]
use crate::util::*;
use crypto_bigint::modular::{
    BoxedMontyForm, BoxedMontyParams, ConstMontyForm, ConstMontyParams, MontyForm, MontyParams,
};
use crypto_bigint::subtle::{Choice, ConditionallySelectable};
use crypto_bigint::{
    Monty, MontyMultiplier, Square, SquareAssign, U64, U128, U192, U256, U384, U512, impl_modulus,
};

pub const DEF: PropDef = PropDef {
    id: "C08",
    workload,
    ops,
    mandatory: &["final_sub_needed", "m_top_limb_small", "m_eq_1", "m_full_width", "const_bank_history", "hist_len_ge_32", "mul_chain_then_addsub", "params_checked", "m_zero_high_limbs"],
    rule: "cases are operation histories: modulus m (structured odd moduli incl. 1, 3, 2^BITS-1, 2^(BITS-1)+1, ~2^BITS/3, ~2^BITS/4, zero high limbs, and a compile-time bank), six registers initialised from {0,1,m-1,(m+-1)/2,random}, up to 64 steps drawn from new/zero/one/add/sub/neg/double/mul/square/div_by_2 (each in a randomly chosen API form: by value, by reference, assigning, inherent, trait, multiplier object), select/swap, Montgomery round trip and representation conversion; widths 1,2,3,4,6,8,16,32 limbs fixed and 1..=33 limbs boxed. every prefix is checked. plus a parameter monitor comparing all constructors with the definitions R, R^2, R^3 mod m, -m^-1 mod 2^64 and the clamped leading-zero count. non-trivial = a history with >= 2 multiplicative steps or a parameter case; distinct = hash of the whole history",
};

pub fn ops() -> Vec<(&'static str, Checker)> {
    vec![("monty.history", c_history), ("monty.params", c_params)]
}

// ---------------------------------------------------------------------------------------------
// compile-time modulus bank

pub trait BankVisitor {
    fn visit<M: ConstMontyParams<L>, const L: usize>(&mut self);
}

macro_rules! bank {
    ($( ($name:ident, $ty:ty, $limbs:literal, $hex:literal) ),* $(,)?) => {
        $( impl_modulus!($name, $ty, $hex); )*
        /// (limbs, big-endian hex) of every bank entry
        pub const BANK: &[(usize, &str)] = &[ $( ($limbs, $hex) ),* ];
        fn run_const_history(idx: usize, c: &Case, rep: &mut Rep) {
            let mut i = 0usize;
            $(
                if idx == i { return history_const::<$name, $limbs>(c, rep); }
                i += 1;
            )*
            let _ = i;
            panic!("harness: bank index out of range");
        }
        /// generic dispatch over the bank for other property modules
        pub fn bank_dispatch<V: BankVisitor>(idx: usize, v: &mut V) {
            let mut i = 0usize;
            $(
                if idx == i { return v.visit::<$name, $limbs>(); }
                i += 1;
            )*
            let _ = i;
            panic!("harness: bank index out of range");
        }
        fn run_const_params(idx: usize, c: &Case, rep: &mut Rep) {
            let mut i = 0usize;
            $(
                if idx == i { return params_const::<$name, $limbs>(c, rep); }
                i += 1;
            )*
            let _ = i;
        }
    };
}

bank! {
    (B64_3, U64, 1, "0000000000000003"),
    (B64_MAX, U64, 1, "ffffffffffffffff"),
    (B64_HALF1, U64, 1, "8000000000000001"),
    (B64_THIRD, U64, 1, "5555555555555555"),
    (B64_P, U64, 1, "ffffffffffffffc5"),
    (B64_SMALLTOP, U64, 1, "0000000100000001"),
    (B128_MAX, U128, 2, "ffffffffffffffffffffffffffffffff"),
    (B128_HALF1, U128, 2, "80000000000000000000000000000001"),
    (B128_ZHI, U128, 2, "0000000000000000ffffffffffffffc5"),
    (B128_LZ64, U128, 2, "00000000000000008000000000000001"),
    (B128_QUARTER, U128, 2, "40000000000000000000000000000001"),
    (B192_THIRD, U192, 3, "555555555555555555555555555555555555555555555555"),
    (B192_P, U192, 3, "fffffffffffffffffffffffffffffffeffffffffffffffff"),
    (B256_P256, U256, 4, "ffffffff00000001000000000000000000000000ffffffffffffffffffffffff"),
    (B256_N256, U256, 4, "ffffffff00000000ffffffffffffffffbce6faada7179e84f3b9cac2fc632551"),
    (B256_MAX, U256, 4, "ffffffffffffffffffffffffffffffffffffffffffffffffffffffffffffffff"),
    (B256_HALF1, U256, 4, "8000000000000000000000000000000000000000000000000000000000000001"),
    (B256_ZHI, U256, 4, "000000000000000000000000000000000000000000000000fffffffffffffffb"),
    (B256_SMALLTOP, U256, 4, "0000000000000001b1e0c7a30f2d6a5c9a4f1e8d7c6b5a493827160504f3e2d1"),
    (B384_P384, U384, 6, "fffffffffffffffffffffffffffffffffffffffffffffffffffffffffffffffeffffffff0000000000000000ffffffff"),
    (B512_QUARTER, U512, 8, "40000000000000000000000000000000000000000000000000000000000000000000000000000000000000000000000000000000000000000000000000000001"),
}

// ---------------------------------------------------------------------------------------------
// one representation = one implementation of `Rep3`

const ADD: u8 = 0;
const SUB: u8 = 1;
const MUL: u8 = 2;
const NEG: u8 = 0;
const DOUBLE: u8 = 1;
const SQUARE: u8 = 2;
const HALF: u8 = 3;
const ROUNDTRIP: u8 = 4;

trait Rep3: Clone {
    type P: Clone;
    fn name() -> &'static str;
    fn new_(v: &[u64], p: &Self::P) -> Self;
    fn zero_(p: &Self::P) -> Self;
    fn one_(p: &Self::P) -> Self;
    fn bin(a: &Self, b: &Self, kind: u8, variant: u8, p: &Self::P) -> Self;
    fn un(a: &Self, kind: u8, variant: u8, p: &Self::P) -> Self;
    fn select(a: &Self, b: &Self, choice: u8) -> Self;
    fn swap(a: &mut Self, b: &mut Self, choice: u8);
    fn retrieve_(&self) -> Vec<u64>;
    fn mont(&self) -> Vec<u64>;
}

/// operator forms shared by all three types
macro_rules! bin_common {
    ($a:expr, $b:expr, $kind:expr, $variant:expr, $T:ty) => {{
        let (a, b) = ($a, $b);
        match ($kind, $variant % 7) {
            (ADD, 0) => a + b,
            (ADD, 1) => a.clone() + b.clone(),
            (ADD, 2) => a.clone() + b,
            (ADD, 3) => a + b.clone(),
            (ADD, 4) => {
                let mut t = a.clone();
                t += b;
                t
            }
            (ADD, 5) => {
                let mut t = a.clone();
                t += b.clone();
                t
            }
            (ADD, _) => <$T>::add(a, b),
            (SUB, 0) => a - b,
            (SUB, 1) => a.clone() - b.clone(),
            (SUB, 2) => a.clone() - b,
            (SUB, 3) => a - b.clone(),
            (SUB, 4) => {
                let mut t = a.clone();
                t -= b;
                t
            }
            (SUB, 5) => {
                let mut t = a.clone();
                t -= b.clone();
                t
            }
            (SUB, _) => <$T>::sub(a, b),
            (_, 0) => a * b,
            (_, 1) => a.clone() * b.clone(),
            (_, 2) => a.clone() * b,
            (_, 3) => a * b.clone(),
            (_, 4) => {
                let mut t = a.clone();
                t *= b;
                t
            }
            (_, 5) => {
                let mut t = a.clone();
                t *= b.clone();
                t
            }
            (_, _) => <$T>::mul(a, b),
        }
    }};
}

impl<const L: usize> Rep3 for MontyForm<L> {
    type P = MontyParams<L>;
    fn name() -> &'static str {
        "MontyForm"
    }
    fn new_(v: &[u64], p: &Self::P) -> Self {
        MontyForm::new(&u::<L>(v), *p)
    }
    fn zero_(p: &Self::P) -> Self {
        MontyForm::zero(*p)
    }
    fn one_(p: &Self::P) -> Self {
        MontyForm::one(*p)
    }
    fn bin(a: &Self, b: &Self, kind: u8, variant: u8, p: &Self::P) -> Self {
        if kind == MUL && variant % 9 >= 7 {
            // multiplier-object form
            let mut m = <MontyForm<L> as Monty>::Multiplier::from(p);
            let mut t = *a;
            m.mul_assign(&mut t, b);
            return t;
        }
        bin_common!(a, b, kind, variant, MontyForm<L>)
    }
    fn un(a: &Self, kind: u8, variant: u8, p: &Self::P) -> Self {
        match (kind, variant % 4) {
            (NEG, 0) => -a,
            (NEG, 1) => -*a,
            (NEG, _) => MontyForm::neg(a),
            (DOUBLE, 0) => MontyForm::double(a),
            (DOUBLE, _) => Monty::double(a),
            (SQUARE, 0) => MontyForm::square(a),
            (SQUARE, 1) => Square::square(a),
            (SQUARE, 2) => {
                let mut t = *a;
                SquareAssign::square_assign(&mut t);
                t
            }
            (SQUARE, _) => {
                let mut m = <MontyForm<L> as Monty>::Multiplier::from(p);
                let mut t = *a;
                m.square_assign(&mut t);
                t
            }
            (HALF, 0) => MontyForm::div_by_2(a),
            (HALF, 1) => Monty::div_by_2(a),
            (HALF, _) => {
                let mut t = *a;
                Monty::div_by_2_assign(&mut t);
                t
            }
            (_, 0) => MontyForm::from_montgomery(a.to_montgomery(), *p),
            (_, 1) => {
                let mut t = MontyForm::zero(*p);
                t.copy_montgomery_from(a);
                t
            }
            (_, _) => MontyForm::new(&a.retrieve(), *p),
        }
    }
    fn select(a: &Self, b: &Self, choice: u8) -> Self {
        MontyForm::conditional_select(a, b, Choice::from(choice))
    }
    fn swap(a: &mut Self, b: &mut Self, choice: u8) {
        MontyForm::conditional_swap(a, b, Choice::from(choice))
    }
    fn retrieve_(&self) -> Vec<u64> {
        ul(&self.retrieve())
    }
    fn mont(&self) -> Vec<u64> {
        ul(self.as_montgomery())
    }
}

impl Rep3 for BoxedMontyForm {
    type P = BoxedMontyParams;
    fn name() -> &'static str {
        "BoxedMontyForm"
    }
    fn new_(v: &[u64], p: &Self::P) -> Self {
        BoxedMontyForm::new(bx(v), p.clone())
    }
    fn zero_(p: &Self::P) -> Self {
        BoxedMontyForm::zero(p.clone())
    }
    fn one_(p: &Self::P) -> Self {
        BoxedMontyForm::one(p.clone())
    }
    fn bin(a: &Self, b: &Self, kind: u8, variant: u8, p: &Self::P) -> Self {
        if kind == MUL && variant % 9 >= 7 {
            let mut m = <BoxedMontyForm as Monty>::Multiplier::from(p);
            let mut t = a.clone();
            m.mul_assign(&mut t, b);
            return t;
        }
        bin_common!(a, b, kind, variant, BoxedMontyForm)
    }
    fn un(a: &Self, kind: u8, variant: u8, p: &Self::P) -> Self {
        match (kind, variant % 4) {
            (NEG, 0) => -a,
            (NEG, 1) => -a.clone(),
            (NEG, _) => BoxedMontyForm::neg(a),
            (DOUBLE, 0) => BoxedMontyForm::double(a),
            (DOUBLE, _) => Monty::double(a),
            (SQUARE, 0) => BoxedMontyForm::square(a),
            (SQUARE, 1) => Square::square(a),
            (SQUARE, 2) => {
                let mut t = a.clone();
                SquareAssign::square_assign(&mut t);
                t
            }
            (SQUARE, _) => {
                let mut m = <BoxedMontyForm as Monty>::Multiplier::from(p);
                let mut t = a.clone();
                m.square_assign(&mut t);
                t
            }
            (HALF, 0) => BoxedMontyForm::div_by_2(a),
            (HALF, 1) => Monty::div_by_2(a),
            (HALF, 2) => {
                let mut t = a.clone();
                BoxedMontyForm::div_by_2_assign(&mut t);
                t
            }
            (HALF, _) => {
                let mut t = a.clone();
                Monty::div_by_2_assign(&mut t);
                t
            }
            (_, 0) => BoxedMontyForm::from_montgomery(a.to_montgomery(), p.clone()),
            (_, 1) => {
                let mut t = BoxedMontyForm::zero(p.clone());
                t.copy_montgomery_from(a);
                t
            }
            (_, _) => BoxedMontyForm::new(a.retrieve(), p.clone()),
        }
    }
    fn select(a: &Self, b: &Self, choice: u8) -> Self {
        // BoxedMontyForm offers no conditional selection API: the step is mirrored by cloning
        if choice & 1 == 1 { b.clone() } else { a.clone() }
    }
    fn swap(a: &mut Self, b: &mut Self, choice: u8) {
        if choice & 1 == 1 {
            std::mem::swap(a, b)
        }
    }
    fn retrieve_(&self) -> Vec<u64> {
        bl(&self.retrieve())
    }
    fn mont(&self) -> Vec<u64> {
        bl(self.as_montgomery())
    }
}

impl<M: ConstMontyParams<L>, const L: usize> Rep3 for ConstMontyForm<M, L> {
    type P = ();
    fn name() -> &'static str {
        "ConstMontyForm"
    }
    fn new_(v: &[u64], _p: &()) -> Self {
        ConstMontyForm::new(&u::<L>(v))
    }
    fn zero_(_p: &()) -> Self {
        ConstMontyForm::ZERO
    }
    fn one_(_p: &()) -> Self {
        ConstMontyForm::ONE
    }
    fn bin(a: &Self, b: &Self, kind: u8, variant: u8, _p: &()) -> Self {
        bin_common!(a, b, kind, variant, ConstMontyForm<M, L>)
    }
    fn un(a: &Self, kind: u8, variant: u8, _p: &()) -> Self {
        match (kind, variant % 3) {
            (NEG, 0) => -a,
            (NEG, 1) => -*a,
            (NEG, _) => ConstMontyForm::neg(a),
            (DOUBLE, _) => ConstMontyForm::double(a),
            (SQUARE, 0) => ConstMontyForm::square(a),
            (SQUARE, _) => Square::square(a),
            (HALF, _) => ConstMontyForm::div_by_2(a),
            (_, 0) => ConstMontyForm::from_montgomery(a.to_montgomery()),
            (_, _) => ConstMontyForm::new(&a.retrieve()),
        }
    }
    fn select(a: &Self, b: &Self, choice: u8) -> Self {
        ConstMontyForm::conditional_select(a, b, Choice::from(choice))
    }
    fn swap(a: &mut Self, b: &mut Self, choice: u8) {
        ConstMontyForm::conditional_swap(a, b, Choice::from(choice))
    }
    fn retrieve_(&self) -> Vec<u64> {
        ul(&self.retrieve())
    }
    fn mont(&self) -> Vec<u64> {
        ul(self.as_montgomery())
    }
}

// ---------------------------------------------------------------------------------------------
// history interpreter

const NREG: usize = 6;

#[derive(Clone, Copy)]
struct Step {
    kind: u8,
    dst: usize,
    s1: usize,
    s2: usize,
    variant: u8,
    extra: u8,
}
fn enc(s: &Step) -> u64 {
    s.kind as u64 | (s.dst as u64) << 8 | (s.s1 as u64) << 16 | (s.s2 as u64) << 24 | (s.variant as u64) << 32 | (s.extra as u64) << 40
}
fn dec(x: u64) -> Step {
    Step { kind: x as u8, dst: (x >> 8) as u8 as usize % NREG, s1: (x >> 16) as u8 as usize % NREG, s2: (x >> 24) as u8 as usize % NREG, variant: (x >> 32) as u8, extra: (x >> 40) as u8 }
}
const K_NEW: u8 = 0;
const K_ZERO: u8 = 1;
const K_ONE: u8 = 2;
const K_ADD: u8 = 3;
const K_SUB: u8 = 4;
const K_NEG: u8 = 5;
const K_DOUBLE: u8 = 6;
const K_MUL: u8 = 7;
const K_SQUARE: u8 = 8;
const K_HALF: u8 = 9;
const K_SELECT: u8 = 10;
const K_SWAP: u8 = 11;
const K_ROUNDTRIP: u8 = 12;
const NKINDS: u8 = 13;
const KIND_NAMES: [&str; 13] = ["new", "zero", "one", "add", "sub", "neg", "double", "mul", "square", "div_by_2", "select", "swap", "roundtrip"];

/// the model: registers are residues in [0, m)
fn model_step(regs: &mut Vec<BigUint>, st: &Step, m: &BigUint, pool: &[Vec<u64>]) {
    let (a, b) = (regs[st.s1].clone(), regs[st.s2].clone());
    let r = match st.kind {
        K_NEW => to_big(&pool[st.extra as usize % pool.len()]) % m,
        K_ZERO => BigUint::zero(),
        K_ONE => BigUint::one() % m,
        K_ADD => (&a + &b) % m,
        K_SUB => (m + &a - &b) % m,
        K_NEG => (m - &a) % m,
        K_DOUBLE => (&a + &a) % m,
        K_MUL => (&a * &b) % m,
        K_SQUARE => (&a * &a) % m,
        K_HALF => (if a.bit(0) { (&a + m) >> 1 } else { &a >> 1 }) % m,
        K_SELECT => {
            if st.extra & 1 == 1 { b } else { a }
        }
        K_SWAP => {
            if st.extra & 1 == 1 {
                regs.swap(st.s1, st.s2);
            }
            return;
        }
        _ => a,
    };
    regs[st.dst] = r;
}

fn impl_step<T: Rep3>(regs: &mut Vec<T>, st: &Step, p: &T::P, pool: &[Vec<u64>]) {
    let r = match st.kind {
        K_NEW => T::new_(&pool[st.extra as usize % pool.len()], p),
        K_ZERO => T::zero_(p),
        K_ONE => T::one_(p),
        K_ADD => T::bin(&regs[st.s1], &regs[st.s2], ADD, st.variant, p),
        K_SUB => T::bin(&regs[st.s1], &regs[st.s2], SUB, st.variant, p),
        K_MUL => T::bin(&regs[st.s1], &regs[st.s2], MUL, st.variant, p),
        K_NEG => T::un(&regs[st.s1], NEG, st.variant, p),
        K_DOUBLE => T::un(&regs[st.s1], DOUBLE, st.variant, p),
        K_SQUARE => T::un(&regs[st.s1], SQUARE, st.variant, p),
        K_HALF => T::un(&regs[st.s1], HALF, st.variant, p),
        K_ROUNDTRIP => T::un(&regs[st.s1], ROUNDTRIP, st.variant, p),
        K_SELECT => T::select(&regs[st.s1], &regs[st.s2], st.extra & 1),
        K_SWAP => {
            if st.s1 != st.s2 {
                let (i, j) = (st.s1.min(st.s2), st.s1.max(st.s2));
                let (lo, hi) = regs.split_at_mut(j);
                T::swap(&mut lo[i], &mut hi[0], st.extra & 1);
                if st.s1 > st.s2 {
                    // swap(a,b) with a=regs[s1], b=regs[s2]: same effect either order
                }
            }
            return;
        }
        _ => regs[st.s1].clone(),
    };
    regs[st.dst] = r;
}

struct Hist<'a> {
    m: &'a [u64],
    pool: Vec<Vec<u64>>,
    steps: Vec<Step>,
}

fn parse(c: &Case) -> Hist<'_> {
    Hist { m: &c.a[0], pool: c.a[1..].to_vec(), steps: c.s.iter().map(|&x| dec(x)).collect() }
}

/// Check one representation against the model after a step.  Only registers that were healthy
/// before are reported (at the step that broke them); returns the Montgomery limbs of all regs.
fn check_regs<T: Rep3>(rep: &mut Rep, regs: &[T], model: &[BigUint], m: &BigUint, n: usize, step_no: usize, st: &Step, bad: &mut [bool; NREG]) -> Vec<Vec<u64>> {
    let mut out = Vec::new();
    for (i, r) in regs.iter().enumerate() {
        let mont = r.mont();
        out.push(mont.clone());
        if bad[i] {
            continue;
        }
        let written = step_no == 0 || i == st.dst || (st.kind == K_SWAP && (i == st.s1 || i == st.s2));
        let kind = if written { KIND_NAMES[st.kind as usize % KIND_NAMES.len()] } else { "untouched_register_changed" };
        let mut ok = true;
        if &to_big(&mont) >= m {
            rep.fail(&format!("{}.{}.canonical", T::name(), kind), format!("step {} reg {}: stored Montgomery value {} >= m", step_no, i, hex(&mont)));
            ok = false;
        }
        let got = r.retrieve_();
        if to_big(&got) != model[i] || got.len() != n {
            rep.fail(&format!("{}.{}.retrieve_eq_model", T::name(), kind), format!("step {} reg {}: retrieve {} model {}", step_no, i, hex(&got), bhex(&model[i])));
            ok = false;
        }
        // definition of the Montgomery representation: x * R mod m
        let want = (&model[i] << (64 * n)) % m;
        if ok && to_big(&mont) != want {
            rep.fail(&format!("{}.{}.mont_eq_xR", T::name(), kind), format!("step {} reg {}: montgomery {} want {}", step_no, i, hex(&mont), bhex(&want)));
            ok = false;
        }
        if !ok {
            bad[i] = true;
        }
    }
    out
}

fn classify_hist(h: &Hist, n: usize, rep: &mut Rep) {
    let m = to_big(h.m);
    if m.is_one() {
        rep.class("m_eq_1");
    }
    let bits = m.bits() as usize;
    if bits == 64 * n {
        rep.class("m_full_width");
    }
    if bits + 64 <= 64 * n {
        rep.class("m_zero_high_limbs");
    }
    if bits % 64 != 0 && bits % 64 <= 2 {
        rep.class("m_top_limb_small");
    }
    let muls = h.steps.iter().filter(|s| s.kind == K_MUL || s.kind == K_SQUARE).count();
    if muls >= 2 {
        rep.nontrivial();
    }
    if h.steps.len() >= 32 {
        rep.class("hist_len_ge_32");
    }
    for w in h.steps.windows(2) {
        if (w[0].kind == K_MUL || w[0].kind == K_SQUARE) && (w[1].kind == K_ADD || w[1].kind == K_SUB) {
            rep.class("mul_chain_then_addsub");
            break;
        }
    }
    for s in &h.steps {
        rep.tally(&format!("step_{}", KIND_NAMES[s.kind as usize % KIND_NAMES.len()]));
    }
}

fn run_history<A: Rep3, B: Rep3>(c: &Case, rep: &mut Rep, pa: &A::P, pb: Option<&B::P>, n: usize) {
    let h = parse(c);
    let m = to_big(h.m);
    let mut model: Vec<BigUint> = (0..NREG).map(|i| to_big(&h.pool[i % h.pool.len()]) % &m).collect();
    let mut ra: Vec<A> = (0..NREG).map(|i| A::new_(&h.pool[i % h.pool.len()], pa)).collect();
    let mut rb: Option<Vec<B>> = pb.map(|p| (0..NREG).map(|i| B::new_(&h.pool[i % h.pool.len()], p)).collect());
    let init = Step { kind: K_NEW, dst: 0, s1: 0, s2: 0, variant: 0, extra: 0 };
    let (mut bad_a, mut bad_b) = ([false; NREG], [false; NREG]);
    if m.is_one() {
        // domain tag: modulus 1 (degenerate ring) — violations there carry their own signature
        rep.key_prefix = "m_eq_1:".into();
    }
    let ma = check_regs(rep, &ra, &model, &m, n, 0, &init, &mut bad_a);
    if let Some(rb) = &rb {
        let mb = check_regs(rep, rb, &model, &m, n, 0, &init, &mut bad_b);
        if ma != mb {
            rep.fail(&format!("{}_vs_{}.new.same_montgomery_limbs", A::name(), B::name()), "representations differ after construction".into());
        }
    }
    for (k, st) in h.steps.iter().enumerate() {
        // oracle-side: does this multiplicative step need the final conditional subtraction?
        if st.kind == K_MUL || st.kind == K_SQUARE {
            let x = (&model[st.s1] << (64 * n)) % &m;
            let y = if st.kind == K_MUL { (&model[st.s2] << (64 * n)) % &m } else { x.clone() };
            // REDC(t) = (t + ((t * m') mod R) * m) / R ; final sub needed iff that is >= m
            let r = pow2(64 * n);
            let t = &x * &y;
            let minv = modinv(&(&m % &r), &r);
            if let Some(mi) = minv {
                let mp = (&r - mi) % &r;
                let u_ = ((&t % &r) * mp) % &r;
                let red = (&t + u_ * &m) >> (64 * n);
                if red >= m {
                    rep.class("final_sub_needed");
                }
                if red.bits() as usize > 64 * n {
                    rep.class("amm_overflow");
                }
            }
        }
        model_step(&mut model, st, &m, &h.pool);
        impl_step(&mut ra, st, pa, &h.pool);
        let ma = check_regs(rep, &ra, &model, &m, n, k + 1, st, &mut bad_a);
        if let (Some(rb), Some(p)) = (rb.as_mut(), pb) {
            impl_step(rb, st, p, &h.pool);
            let mb = check_regs(rep, rb, &model, &m, n, k + 1, st, &mut bad_b);
            let healthy = (0..NREG).all(|i| !bad_a[i] && !bad_b[i]);
            if healthy && ma != mb {
                rep.fail(
                    &format!("{}_vs_{}.{}.same_montgomery_limbs", A::name(), B::name(), KIND_NAMES[st.kind as usize % KIND_NAMES.len()]),
                    format!("step {}: representations hold different Montgomery limbs", k + 1),
                );
            }
        }
    }
}

fn history_dyn<const L: usize>(c: &Case, rep: &mut Rep) {
    let h = parse(c);
    classify_hist(&h, L, rep);
    let p = MontyParams::<L>::new_vartime(od::<L>(h.m));
    let bp = BoxedMontyParams::new(odb(h.m));
    run_history::<MontyForm<L>, BoxedMontyForm>(c, rep, &p, Some(&bp), L);
    // conversion between the representations at the end is covered by c_params / the const path
}

fn history_const<M: ConstMontyParams<L>, const L: usize>(c: &Case, rep: &mut Rep) {
    let h = parse(c);
    classify_hist(&h, L, rep);
    rep.class("const_bank_history");
    let p = MontyParams::<L>::from_const_params::<M>();
    run_history::<ConstMontyForm<M, L>, MontyForm<L>>(c, rep, &(), Some(&p), L);
    // const -> dyn conversion of a value preserves the Montgomery limbs
    let x = ConstMontyForm::<M, L>::new(&u::<L>(&h.pool[0]));
    let d: MontyForm<L> = MontyForm::from(&x);
    if ul(d.as_montgomery()) != ul(x.as_montgomery()) || ul(&d.retrieve()) != ul(&x.retrieve()) {
        rep.fail("ConstMontyForm->MontyForm.conversion", "value changed by conversion".into());
    }
}

fn history_boxed_only(c: &Case, rep: &mut Rep) {
    let h = parse(c);
    let n = h.m.len();
    classify_hist(&h, n, rep);
    rep.class("boxed_only_width");
    let bp = if c.w[1] & 1 == 1 { BoxedMontyParams::new_vartime(odb(h.m)) } else { BoxedMontyParams::new(odb(h.m)) };
    run_history::<BoxedMontyForm, BoxedMontyForm>(c, rep, &bp, None, n);
}

fn c_history(c: &Case, rep: &mut Rep) {
    let n = c.w[0];
    let bank = c.w[1] >> 8;
    if bank > 0 {
        return run_const_history(bank - 1, c, rep);
    }
    match n {
        1 => history_dyn::<1>(c, rep),
        2 => history_dyn::<2>(c, rep),
        3 => history_dyn::<3>(c, rep),
        4 => history_dyn::<4>(c, rep),
        6 => history_dyn::<6>(c, rep),
        8 => history_dyn::<8>(c, rep),
        16 => history_dyn::<16>(c, rep),
        32 => history_dyn::<32>(c, rep),
        _ => history_boxed_only(c, rep),
    }
    if c.w[1] & 2 == 2 && ![1usize, 2, 3, 4, 6, 8, 16, 32].contains(&n) {
        // nothing: boxed-only widths already handled
    } else if c.w[1] & 2 == 2 {
        history_boxed_only(c, rep);
    }
}

// ---------------------------------------------------------------------------------------------
// parameter monitor

struct Defs {
    one: BigUint,
    r2: BigUint,
    r3: BigUint,
    neg_inv: u64,
    lz: u32,
}
fn defs(m: &[u64]) -> Defs {
    let n = m.len();
    let mb = to_big(m);
    let r = pow2(64 * n);
    let one = &r % &mb;
    let r2 = (&r * &r) % &mb;
    let r3 = (&r2 * &r) % &mb;
    let w = pow2(64);
    let inv = modinv(&(&mb % &w), &w).expect("odd modulus invertible mod 2^64");
    let neg_inv = ((&w - inv) % &w).to_u64_digits().first().copied().unwrap_or(0);
    let lz = (64 * n - mb.bits() as usize) as u32;
    Defs { one, r2, r3, neg_inv, lz: lz.min(63) }
}

/// Extract a field of the derived Debug output ("field: Uint(0x...)" / "field: Limb(0x..)" / number).
fn dbg_field(s: &str, name: &str) -> Option<String> {
    let key = format!("{}: ", name);
    let i = s.find(&key)? + key.len();
    let rest = &s[i..];
    let end = rest.find(|ch: char| ch == ',' || ch == '}' || ch == '\n').unwrap_or(rest.len());
    Some(rest[..end].trim().to_string())
}
fn dbg_hex(v: &str) -> Option<BigUint> {
    let i = v.find("0x")?;
    let h: String = v[i + 2..].chars().take_while(|c| c.is_ascii_hexdigit()).collect();
    BigUint::parse_bytes(h.as_bytes(), 16)
}

fn check_param_dbg(rep: &mut Rep, tag: &str, dbg: &str, d: &Defs) {
    for (f, want) in [("one", &d.one), ("r2", &d.r2), ("r3", &d.r3)] {
        match dbg_field(dbg, f).and_then(|v| dbg_hex(&v)) {
            Some(got) => {
                if &got != want {
                    rep.fail(&format!("{}.{}_eq_definition", tag, f), format!("{} = {} but definition gives {}", f, bhex(&got), bhex(want)));
                }
            }
            None => rep.inconclusive(format!("{}: cannot read field {} from Debug output", tag, f)),
        }
    }
    match dbg_field(dbg, "mod_neg_inv").and_then(|v| dbg_hex(&v)) {
        Some(got) => {
            if got != BigUint::from(d.neg_inv) {
                rep.fail(&format!("{}.mod_neg_inv_eq_definition", tag), format!("got {} want {:x}", bhex(&got), d.neg_inv));
            }
        }
        None => rep.inconclusive(format!("{}: cannot read mod_neg_inv", tag)),
    }
    match dbg_field(dbg, "mod_leading_zeros").and_then(|v| v.parse::<u32>().ok()) {
        Some(got) => {
            if got != d.lz {
                rep.fail(&format!("{}.mod_leading_zeros_eq_definition", tag), format!("got {} want {}", got, d.lz));
            }
        }
        None => rep.inconclusive(format!("{}: cannot read mod_leading_zeros", tag)),
    }
}

fn params_dyn<const L: usize>(c: &Case, rep: &mut Rep) {
    let m = &c.a[0];
    let d = defs(m);
    rep.class("params_checked");
    let pv = MontyParams::<L>::new_vartime(od::<L>(m));
    check_param_dbg(rep, "MontyParams::new_vartime", &format!("{:?}", pv), &d);
    // observable definitions through the public API
    let mb = to_big(m);
    let one = MontyForm::one(pv);
    if ub(one.as_montgomery()) != d.one {
        rep.fail("MontyForm::one.eq_R_mod_m", format!("one = {} want {}", hex(&ul(one.as_montgomery())), bhex(&d.one)));
    }
    if ub(&one.retrieve()) != BigUint::one() % &mb {
        rep.fail("MontyForm::one.retrieve", "retrieve(one) != 1 mod m".into());
    }
    let x = &c.a[1];
    let xb = to_big(x) % &mb;
    let f = MontyForm::new(&u::<L>(x), pv);
    if ub(f.as_montgomery()) != (&xb << (64 * L)) % &mb {
        rep.fail("MontyForm::new.eq_xR_mod_m", "mismatch".into());
    }
    if ul(pv.modulus().as_ref()) != *m {
        rep.fail("MontyParams::modulus", "accessor returns a different modulus".into());
    }
    // boxed parameters
    let bp = BoxedMontyParams::new(odb(m));
    let bpv = BoxedMontyParams::new_vartime(odb(m));
    if bp != bpv {
        rep.fail("BoxedMontyParams.new_eq_new_vartime", "constructors disagree".into());
    }
    check_param_dbg(rep, "BoxedMontyParams::new", &format!("{:?}", bp), &d);
    check_param_dbg(rep, "BoxedMontyParams::new_vartime", &format!("{:?}", bpv), &d);
    if bl(bp.modulus().as_ref()) != *m || bp.bits_precision() != 64 * L as u32 {
        rep.fail("BoxedMontyParams::modulus", "accessor mismatch".into());
    }
    let bone = BoxedMontyForm::one(bp.clone());
    if bb(bone.as_montgomery()) != d.one {
        rep.fail("BoxedMontyForm::one.eq_R_mod_m", "mismatch".into());
    }
}

fn c_params(c: &Case, rep: &mut Rep) {
    let n = c.w[0];
    if to_big(&c.a[0]).is_one() {
        rep.key_prefix = "m_eq_1:".into();
        rep.class("m_eq_1");
    }
    let bank = c.w[1] >> 8;
    match n {
        1 => params_dyn::<1>(c, rep),
        2 => params_dyn::<2>(c, rep),
        3 => params_dyn::<3>(c, rep),
        4 => params_dyn::<4>(c, rep),
        6 => params_dyn::<6>(c, rep),
        8 => params_dyn::<8>(c, rep),
        16 => params_dyn::<16>(c, rep),
        32 => params_dyn::<32>(c, rep),
        _ => {
            let m = &c.a[0];
            let d = defs(m);
            rep.class("params_checked");
            let bp = BoxedMontyParams::new(odb(m));
            let bpv = BoxedMontyParams::new_vartime(odb(m));
            if bp != bpv {
                rep.fail("BoxedMontyParams.new_eq_new_vartime", "constructors disagree".into());
            }
            check_param_dbg(rep, "BoxedMontyParams::new", &format!("{:?}", bp), &d);
            // construction through a shared parameter handle is the same value as through an owned copy
            if c.a.len() > 1 && !to_big(m).is_one() {
                let mut xv = c.a[1].clone();
                xv.resize(m.len(), 0);
                let x = bx(&xv);
                let by_val = BoxedMontyForm::new(x.clone(), bp.clone());
                let by_arc = BoxedMontyForm::new_with_arc(x.clone(), std::sync::Arc::new(bp.clone()));
                if by_val != by_arc || by_val.as_montgomery() != by_arc.as_montgomery() || by_arc.retrieve() != by_val.retrieve() {
                    rep.fail("BoxedMontyForm.new_with_arc_eq_new", format!("x={}", hex(&xv)));
                }
                // trait-level constructors / accessors (`Monty`, `Retrieve`) are the inherent ones
                // (never executed by any workload according to the coverage audit)
                {
                    use crypto_bigint::modular::Retrieve;
                    let tp = <BoxedMontyForm as Monty>::new_params_vartime(odb(m));
                    if tp != bpv {
                        rep.fail("BoxedMontyForm.Monty::new_params_vartime_eq_inherent", "parameters differ".into());
                    }
                    let t_new = <BoxedMontyForm as Monty>::new(x.clone(), bp.clone());
                    if t_new != by_val || Monty::as_montgomery(&t_new) != by_val.as_montgomery() || Monty::params(&t_new) != by_val.params() {
                        rep.fail("BoxedMontyForm.Monty::new_eq_inherent", format!("x={}", hex(&xv)));
                    }
                    if Retrieve::retrieve(&t_new) != by_val.retrieve() {
                        rep.fail("BoxedMontyForm.Retrieve::retrieve_eq_inherent", format!("x={}", hex(&xv)));
                    }
                    if <BoxedMontyForm as Monty>::zero(bp.clone()) != BoxedMontyForm::zero(bp.clone()) {
                        rep.fail("BoxedMontyForm.Monty::zero_eq_inherent", "differs".into());
                    }
                    if <BoxedMontyForm as Monty>::one(bp.clone()) != BoxedMontyForm::one(bp.clone()) {
                        rep.fail("BoxedMontyForm.Monty::one_eq_inherent", "differs".into());
                    }
                    if by_val.bits_precision() != 64 * m.len() as u32 {
                        rep.fail("BoxedMontyForm.bits_precision", format!("{}", by_val.bits_precision()));
                    }
                    let zero_expected = (to_big(&xv) % to_big(m)) == BigUint::from(0u8);
                    if bool::from(by_val.is_zero()) != zero_expected || bool::from(by_val.is_nonzero()) == zero_expected {
                        rep.fail("BoxedMontyForm.is_zero_iff_residue_zero", format!("x={}", hex(&xv)));
                    }
                }
                let want = to_big(&xv) % to_big(m);
                if bb(&by_arc.retrieve()) != want {
                    rep.fail("BoxedMontyForm.new_with_arc.retrieve_eq_x_mod_m", format!("x={}", hex(&xv)));
                }
            }
        }
    }
    // constant-time constructor exists where Concat/Split are implemented
    let m = &c.a[0];
    macro_rules! ctnew {
        ($l:literal) => {
            if n == $l {
                let a = MontyParams::<$l>::new(od::<$l>(m));
                let b = MontyParams::<$l>::new_vartime(od::<$l>(m));
                if a != b {
                    rep.fail("MontyParams.new_eq_new_vartime", format!("{:?} vs {:?}", a, b));
                }
            }
        };
    }
    ctnew!(1);
    ctnew!(2);
    ctnew!(3);
    ctnew!(4);
    ctnew!(6);
    ctnew!(8);
    ctnew!(16);
    ctnew!(32);
    if bank > 0 {
        run_const_params(bank - 1, c, rep);
    }
}

fn params_const<M: ConstMontyParams<L>, const L: usize>(c: &Case, rep: &mut Rep) {
    let m = &c.a[0];
    let d = defs(m);
    rep.class("const_params_checked");
    if ul(M::MODULUS.as_ref()) != *m {
        rep.fail("ConstMontyParams::MODULUS", "bank modulus mismatch".into());
    }
    for (n, got, want) in [("ONE", ub(&M::ONE), &d.one), ("R2", ub(&M::R2), &d.r2), ("R3", ub(&M::R3), &d.r3), ("MOD_NEG_INV", BigUint::from(M::MOD_NEG_INV.0), &BigUint::from(d.neg_inv))] {
        if &got != want {
            rep.fail(&format!("ConstMontyParams::{}_eq_definition", n), format!("got {} want {}", bhex(&got), bhex(want)));
        }
    }
    if M::MOD_LEADING_ZEROS != d.lz {
        rep.fail("ConstMontyParams::MOD_LEADING_ZEROS_eq_definition", format!("got {} want {}", M::MOD_LEADING_ZEROS, d.lz));
    }
    let fc = MontyParams::<L>::from_const_params::<M>();
    let nv = MontyParams::<L>::new_vartime(od::<L>(m));
    if fc != nv {
        rep.fail("MontyParams.from_const_params_eq_new_vartime", format!("{:?} vs {:?}", fc, nv));
    }
    let bfc = BoxedMontyParams::from_const_params::<L, M>();
    let bnv = BoxedMontyParams::new(odb(m));
    if bfc != bnv {
        rep.fail("BoxedMontyParams.from_const_params_eq_new", format!("{:?} vs {:?}", bfc, bnv));
    }
    if ub(ConstMontyForm::<M, L>::ONE.as_montgomery()) != d.one || !ub(ConstMontyForm::<M, L>::ZERO.as_montgomery()).is_zero() {
        rep.fail("ConstMontyForm::ONE_ZERO", "constants mismatch".into());
    }
}

// ---------------------------------------------------------------------------------------------
// generation

fn gen_modulus(r: &mut Rng, n: usize) -> Vec<u64> {
    gn::modulus(r, n, true)
}

fn gen_history(r: &mut Rng, n: usize, m: &[u64], bank: usize) -> Case {
    let mb = to_big(m);
    let mut c = Case::new("monty.history").w(n).w((bank << 8) | r.below(4) as usize).a(m.to_vec());
    // value pool: 8 entries (first six initialise the registers)
    for _ in 0..8 {
        let v = if r.chance(1, 6) { to_big(&gn::uint(r, n)) } else { gn::below(r, &mb, n) };
        c = c.a(from_big(&v, n));
    }
    let len = match r.below(4) {
        0 => 1 + r.below(8),
        1 => 8 + r.below(24),
        _ => 32 + r.below(33),
    } as usize;
    let len = if n >= 16 { len.min(24) } else { len };
    let mut prev_mul = false;
    for _ in 0..len {
        // bias: mul/square chains, add/sub right after them
        let kind = if prev_mul && r.chance(1, 2) {
            *r.pick(&[K_ADD, K_SUB, K_HALF, K_DOUBLE, K_NEG])
        } else {
            match r.below(10) {
                0..=3 => *r.pick(&[K_MUL, K_SQUARE]),
                4 | 5 => *r.pick(&[K_ADD, K_SUB]),
                _ => r.below(NKINDS as u64) as u8,
            }
        };
        prev_mul = kind == K_MUL || kind == K_SQUARE;
        let st = Step { kind, dst: r.usize_below(NREG), s1: r.usize_below(NREG), s2: r.usize_below(NREG), variant: r.below(256) as u8, extra: r.below(256) as u8 };
        c = c.s(enc(&st));
    }
    c
}

pub fn workload(ctx: &mut Ctx) {
    let fixed = [1usize, 2, 3, 4, 6, 8, 16, 32];
    // histories on fixed widths (dyn + boxed lock-step)
    for &n in &fixed {
        let cnt = match n {
            1..=4 => 6_000,
            6 | 8 => 2_500,
            16 => 500,
            _ => 120,
        };
        for _ in 0..ctx.iters(cnt) {
            let m = gen_modulus(&mut ctx.rng, n);
            let c = gen_history(&mut ctx.rng, n, &m, 0);
            ctx.exec(c, c_history);
        }
        for _ in 0..ctx.iters(cnt * 4) {
            let m = gen_modulus(&mut ctx.rng, n);
            let x = gn::uint(&mut ctx.rng, n);
            ctx.exec(Case::new("monty.params").w(n).w(0).a(m).a(x), c_params);
        }
    }
    // compile-time bank
    for (i, (n, hexs)) in BANK.iter().enumerate() {
        let m = {
            let mut v = parse_hex(hexs);
            v.resize(*n, 0);
            v
        };
        for _ in 0..ctx.iters(1_500) {
            let c = gen_history(&mut ctx.rng, *n, &m, i + 1);
            ctx.exec(c, c_history);
        }
        if ctx.mine() {
            let x = gn::uint(&mut ctx.rng, *n);
            ctx.exec(Case::new("monty.params").w(*n).w((i + 1) << 8).a(m.clone()).a(x), c_params);
        }
    }
    // boxed-only widths 1..=33 (incl. those not available as fixed types)
    for _ in 0..ctx.iters(12_000) {
        let n = *ctx.rng.pick(&[5usize, 7, 9, 10, 11, 12, 13, 15, 17, 20, 24, 31, 33]);
        let n = if ctx.rng.chance(3, 4) { n.min(13) } else { n };
        let m = gen_modulus(&mut ctx.rng, n);
        let c = gen_history(&mut ctx.rng, n, &m, 0);
        ctx.exec(c, c_history);
        let x = gn::uint(&mut ctx.rng, n);
        ctx.exec(Case::new("monty.params").w(n).w(0).a(m).a(x), c_params);
    }
}
