//! C10 — modular inversion and gcd: invertibility decided exactly, results exact.
use crate::c08::BANK;
use crate::dispatch;
use crate::util::*;
use crypto_bigint::modular::{
    BoxedMontyForm, BoxedMontyParams, BoxedSafeGcdInverter, ConstMontyForm, ConstMontyFormInverter, ConstMontyParams, MontyForm, MontyParams, SafeGcdInverter,
};
use crypto_bigint::{
    BoxedUint, Gcd, Int, InvMod, Invert, Inverter, PrecomputeInverter,
};
use num_integer::Integer as NumInteger;

pub const DEF: PropDef = PropDef {
    id: "C10",
    workload,
    ops,
    mandatory: &["non_invertible_odd_factor", "non_invertible_factor2_only", "m_pow2", "m_eq_1", "even_modulus_crt", "a_ge_m", "gcd_both_zero", "gcd_one_zero", "long_jump", "invertible", "const_bank", "a_eq_m_minus_1", "k_exhaustive"],
    rule: "cases are (a, m) for inv_mod / inv_odd_mod / InvMod / Inverter::invert(_vartime) / precomputed inverters (with adjuster) / Int::inv_odd_mod / Montgomery inv / invert(_vartime) in runtime, boxed and compile-time forms, (a, k) for inv_mod2k(_vartime) with k exhaustive over 0..=BITS at <= 4 limbs, and (x, y) for gcd / gcd_vartime on Uint, Odd<Uint>, Int, BoxedUint. moduli: odd primes and their products, odd composites, 2^k, s*2^k for every k, 1, 2^BITS-1; a: 0, 1, m-1, >= m, multiples of a factor of m, sharing only the factor 2, many trailing zeros; gcd pairs g*a', g*b' with structured cofactors, zeros, equal values, powers of two, negative Ints. non-trivial = named class; distinct by hash",
};

pub fn ops() -> Vec<(&'static str, Checker)> {
    vec![
        ("uint.inv_mod", c_uint_inv),
        ("uint.inv_mod2k", c_uint_inv2k),
        ("monty.inv", c_monty_inv),
        ("monty.inv_const", c_monty_inv_const),
        ("boxed.inv_mod", c_boxed_inv),
        ("boxed.inv_mod2k", c_boxed_inv2k),
        ("uint.gcd", c_uint_gcd),
        ("boxed.gcd", c_boxed_gcd),
    ]
}

fn class_inv(a: &BigUint, m: &BigUint, rep: &mut Rep) {
    let g = a.gcd(m);
    if m.is_one() {
        rep.class("m_eq_1");
    }
    if g.is_one() {
        rep.class("invertible");
    } else {
        // classify the obstruction
        let two = BigUint::from(2u32);
        let mut godd = g.clone();
        while !godd.is_zero() && (&godd % &two).is_zero() {
            godd >>= 1;
        }
        if godd.is_one() {
            rep.class("non_invertible_factor2_only");
        } else if !m.is_zero() {
            rep.class("non_invertible_odd_factor");
        }
    }
    if m.count_ones() == 1 && !m.is_one() {
        rep.class("m_pow2");
    }
    if !m.bit(0) && m.count_ones() > 1 {
        rep.class("even_modulus_crt");
    }
    if a >= m {
        rep.class("a_ge_m");
    }
    if a + 1u32 == *m && !m.is_one() {
        rep.class("a_eq_m_minus_1");
    }
    if !a.is_zero() && a.trailing_zeros().unwrap_or(0) >= 62 {
        rep.class("long_jump");
    }
}

/// judge an Option-like inverse: some iff gcd(a,m)=1; a*x = adj (mod m); x < m for m >= 2
fn judge(rep: &mut Rep, rel: &str, got: Option<Vec<u64>>, a: &BigUint, m: &BigUint, adj: &BigUint) {
    let inv = a.gcd(m).is_one();
    match got {
        Some(x) => {
            let xb = to_big(&x);
            if !inv {
                rep.fail(&format!("{}.some_iff_coprime", rel), format!("some({}) although gcd(a,m) != 1", hex(&x)));
                return;
            }
            if (a * &xb) % m != adj % m {
                rep.fail(rel, format!("a*x mod m = {} want {} (x = {})", bhex(&((a * &xb) % m)), bhex(&(adj % m)), hex(&x)));
            }
            if *m >= BigUint::from(2u32) && &xb >= m {
                rep.fail(&format!("{}.x_lt_m", rel), format!("x = {} >= m", hex(&x)));
            }
        }
        None => {
            if inv {
                rep.fail(&format!("{}.some_iff_coprime", rel), "none although gcd(a,m) = 1".into());
            }
        }
    }
}

macro_rules! def_uint_inv {
    ($f:ident, $l:literal, $u:literal) => {
        #[allow(dead_code, unused_variables)]
        fn $f(c: &Case, rep: &mut Rep) {
            const L: usize = $l;
            const U: usize = $u;
    let (a, m) = (&c.a[0], &c.a[1]);
    let (ab, mb) = (to_big(a), to_big(m));
    class_inv(&ab, &mb, rep);
    let one = BigUint::one();
    let (x, um) = (u::<L>(a), u::<L>(m));
    judge(rep, "inv_mod", cct(x.inv_mod(&um)).map(|v| ul(&v)), &ab, &mb, &one);
    judge(rep, "InvMod", ct(InvMod::inv_mod(&x, &um)).map(|v| ul(&v)), &ab, &mb, &one);
    // signed: Int::InvMod with the two's complement reading of `a`
    let ai = to_bigint(a);
    let abs = ai.magnitude().clone();
    let signed_adj = if ai < BigInt::zero() { (&mb - BigUint::one() % &mb) % &mb } else { BigUint::one() };
    // a_signed * x = 1  <=>  |a| * x = sign  (mod m)
    let ix: Int<L> = i::<L>(a);
    judge(rep, "Int::InvMod", ct(InvMod::inv_mod(&ix, &nz::<L>(m))).map(|v| ul(&v)), &abs, &mb, &signed_adj);
    if m[0] & 1 == 1 {
        let om = od::<L>(m);
        judge(rep, "inv_odd_mod", cct(x.inv_odd_mod(&om)).map(|v| ul(&v)), &ab, &mb, &one);
        judge(rep, "Int::inv_odd_mod", ct(ix.inv_odd_mod(&om)).map(|v| ul(&v)), &abs, &mb, &signed_adj);
        let inverter = om.precompute_inverter();
        let r_ct = ct(inverter.invert(&x)).map(|v| ul(&v));
        let r_vt = ct(inverter.invert_vartime(&x)).map(|v| ul(&v));
        judge(rep, "Inverter::invert", r_ct.clone(), &ab, &mb, &one);
        judge(rep, "Inverter::invert_vartime", r_vt.clone(), &ab, &mb, &one);
        if r_ct != r_vt {
            rep.fail("Inverter.ct_eq_vartime", format!("{:?} vs {:?}", r_ct.map(|v| hex(&v)), r_vt.map(|v| hex(&v))));
        }
        judge(rep, "SafeGcdInverter::inv", cct(inverter.inv(&x)).map(|v| ul(&v)), &ab, &mb, &one);
        judge(rep, "SafeGcdInverter::inv_vartime", cct(inverter.inv_vartime(&x)).map(|v| ul(&v)), &ab, &mb, &one);
        // adjuster: result = adjuster / a
        let adj = &c.a[2];
        let adjb = to_big(adj) % &mb;
        let inv3 = SafeGcdInverter::<L, U>::new(&om, &u::<L>(&from_big(&adjb, L)));
        judge(rep, "SafeGcdInverter::new(adjuster)::inv", cct(inv3.inv(&x)).map(|v| ul(&v)), &ab, &mb, &adjb);
    }
        }
    };
}
def_uint_inv!(uint_inv_1, 1, 3);
def_uint_inv!(uint_inv_2, 2, 4);
def_uint_inv!(uint_inv_3, 3, 5);
def_uint_inv!(uint_inv_4, 4, 6);
def_uint_inv!(uint_inv_6, 6, 8);
def_uint_inv!(uint_inv_8, 8, 10);
def_uint_inv!(uint_inv_16, 16, 18);
def_uint_inv!(uint_inv_32, 32, 35);
fn c_uint_inv(c: &Case, rep: &mut Rep) {
    match c.w[0] {
        1 => uint_inv_1(c, rep),
        2 => uint_inv_2(c, rep),
        3 => uint_inv_3(c, rep),
        4 => uint_inv_4(c, rep),
        6 => uint_inv_6(c, rep),
        8 => uint_inv_8(c, rep),
        16 => uint_inv_16(c, rep),
        32 => uint_inv_32(c, rep),
        w => panic!("harness: width {}", w),
    }
}

fn judge2k(rep: &mut Rep, rel: &str, got: Option<Vec<u64>>, a: &BigUint, k: u32) {
    let exists = k == 0 || a.bit(0);
    match got {
        Some(x) => {
            if !exists {
                rep.fail(&format!("{}.some_iff_odd", rel), "some although a is even and k > 0".into());
                return;
            }
            let xb = to_big(&x);
            let md = pow2(k as usize);
            if (a * &xb) % &md != BigUint::one() % &md {
                rep.fail(rel, format!("a*x mod 2^{} != 1 (x = {})", k, hex(&x)));
            }
            if xb >= md && k > 0 {
                rep.fail(&format!("{}.x_lt_2k", rel), format!("x = {} >= 2^{}", hex(&x), k));
            }
        }
        None => {
            if exists {
                rep.fail(&format!("{}.some_iff_odd", rel), "none although the inverse exists".into());
            }
        }
    }
}

fn uint_inv2k<const L: usize>(c: &Case, rep: &mut Rep) {
    let a = &c.a[0];
    let k = c.s[0] as u32;
    rep.class("k_exhaustive");
    if k == 0 {
        rep.class("k_eq_0");
    }
    if k as usize == 64 * L {
        rep.class("k_eq_bits");
    }
    let ab = to_big(a);
    let x = u::<L>(a);
    let r1 = cct(x.inv_mod2k(k)).map(|v| ul(&v));
    let r2 = cct(x.inv_mod2k_vartime(k)).map(|v| ul(&v));
    judge2k(rep, "inv_mod2k", r1.clone(), &ab, k);
    judge2k(rep, "inv_mod2k_vartime", r2.clone(), &ab, k);
    if r1 != r2 {
        rep.fail("inv_mod2k.ct_eq_vartime", "results differ".into());
    }
}
fn c_uint_inv2k(c: &Case, rep: &mut Rep) {
    dispatch!(c.w[0], [1, 2, 3, 4, 6, 8], uint_inv2k(c, rep))
}

/// Montgomery forms: retrieved values multiply to 1
fn judge_monty(rep: &mut Rep, rel: &str, got: Option<(Vec<u64>, Vec<u64>)>, a: &BigUint, m: &BigUint) {
    let inv = a.gcd(m).is_one();
    match got {
        Some((retrieved, mont)) => {
            if !inv {
                rep.fail(&format!("{}.some_iff_coprime", rel), "some although gcd(a,m) != 1".into());
                return;
            }
            if (a * to_big(&retrieved)) % m != BigUint::one() % m {
                rep.fail(rel, format!("a * retrieve(inv) mod m != 1 (inv = {})", hex(&retrieved)));
            }
            if &to_big(&mont) >= m && !m.is_one() {
                rep.fail(&format!("{}.canonical", rel), "stored inverse >= m".into());
            }
        }
        None => {
            if inv {
                rep.fail(&format!("{}.some_iff_coprime", rel), "none although gcd(a,m) = 1".into());
            }
        }
    }
}

macro_rules! def_monty_inv {
    ($f:ident, $l:literal, $u:literal) => {
        #[allow(dead_code, unused_variables)]
        fn $f(c: &Case, rep: &mut Rep) {
            const L: usize = $l;
            const U: usize = $u;
    let (a, m) = (&c.a[0], &c.a[1]);
    let (ab, mb) = (to_big(a) % to_big(m), to_big(m));
    class_inv(&ab, &mb, rep);
    if mb.is_one() {
        rep.key_prefix = "m_eq_1:".into();
    }
    let params = MontyParams::<L>::new_vartime(od::<L>(m));
    let f = MontyForm::new(&u::<L>(a), params);
    let pack = |r: MontyForm<L>| (ul(&r.retrieve()), ul(r.as_montgomery()));
    let r1 = cct(f.inv()).map(pack);
    let r2 = cct(f.inv_vartime()).map(pack);
    judge_monty(rep, "MontyForm::inv", r1.clone(), &ab, &mb);
    judge_monty(rep, "MontyForm::inv_vartime", r2.clone(), &ab, &mb);
    if r1 != r2 {
        rep.fail("MontyForm::inv.ct_eq_vartime", "results differ".into());
    }
    judge_monty(rep, "MontyForm::Invert::invert", ct(Invert::invert(&f)).map(pack), &ab, &mb);
    judge_monty(rep, "MontyForm::Invert::invert_vartime", ct(Invert::invert_vartime(&f)).map(pack), &ab, &mb);
    let inverter = params.precompute_inverter();
    let r3 = ct(inverter.invert(&f)).map(pack);
    judge_monty(rep, "MontyFormInverter::invert", r3.clone(), &ab, &mb);
    judge_monty(rep, "MontyFormInverter::invert_vartime", ct(inverter.invert_vartime(&f)).map(pack), &ab, &mb);
    if r3 != r1 {
        rep.fail("MontyForm::inv.precomputed_eq_oneshot", "results differ".into());
    }
    // boxed twin
    let bp = BoxedMontyParams::new(odb(m));
    let bf = BoxedMontyForm::new(bx(a), bp.clone());
    let bpack = |r: BoxedMontyForm| (bl(&r.retrieve()), bl(r.as_montgomery()));
    let b1 = ct(bf.invert()).map(bpack);
    judge_monty(rep, "BoxedMontyForm::invert", b1.clone(), &ab, &mb);
    judge_monty(rep, "BoxedMontyForm::invert_vartime", ct(bf.invert_vartime()).map(bpack), &ab, &mb);
    judge_monty(rep, "BoxedMontyForm::Invert::invert", ct(Invert::invert(&bf)).map(bpack), &ab, &mb);
    judge_monty(rep, "BoxedMontyForm::Invert::invert_vartime", ct(Invert::invert_vartime(&bf)).map(bpack), &ab, &mb);
    let binv = bp.precompute_inverter();
    judge_monty(rep, "BoxedMontyFormInverter::invert", ct(binv.invert(&bf)).map(bpack), &ab, &mb);
    judge_monty(rep, "BoxedMontyFormInverter::invert_vartime", ct(binv.invert_vartime(&bf)).map(bpack), &ab, &mb);
    if b1 != r1 && !mb.is_one() {
        rep.fail("inv.dyn_eq_boxed", "runtime and boxed inverses differ".into());
    }
        }
    };
}
def_monty_inv!(monty_inv_1, 1, 3);
def_monty_inv!(monty_inv_2, 2, 4);
def_monty_inv!(monty_inv_3, 3, 5);
def_monty_inv!(monty_inv_4, 4, 6);
def_monty_inv!(monty_inv_6, 6, 8);
def_monty_inv!(monty_inv_8, 8, 10);
def_monty_inv!(monty_inv_16, 16, 18);
def_monty_inv!(monty_inv_32, 32, 35);
fn c_monty_inv(c: &Case, rep: &mut Rep) {
    match c.w[0] {
        1 => monty_inv_1(c, rep),
        2 => monty_inv_2(c, rep),
        3 => monty_inv_3(c, rep),
        4 => monty_inv_4(c, rep),
        6 => monty_inv_6(c, rep),
        8 => monty_inv_8(c, rep),
        16 => monty_inv_16(c, rep),
        w => panic!("harness: width {}", w),
    }
}

/// ConstMontyForm inversion needs `Odd<Uint<LIMBS>>: PrecomputeInverter` with the *same* LIMBS
/// const as the form, which a visitor generic over L cannot name; so the bank entries are matched
/// by modulus value against concrete types here.
mod const_inv_helpers {
    use super::*;
    use crate::c08::*;
    pub fn run(c: &Case, rep: &mut Rep) {
        let m = &c.a[1];
        macro_rules! try_mod {
            ($name:ident, $go:ident, $l:literal, $u:literal) => {
                if c.w[0] == $l && ul(<$name as ConstMontyParams<$l>>::MODULUS.as_ref()) == *m {
                    return $go(c, rep);
                }
            };
        }
        try_mod!(B64_3, go_B64_3, 1, 3);
        try_mod!(B64_MAX, go_B64_MAX, 1, 3);
        try_mod!(B64_HALF1, go_B64_HALF1, 1, 3);
        try_mod!(B64_THIRD, go_B64_THIRD, 1, 3);
        try_mod!(B64_P, go_B64_P, 1, 3);
        try_mod!(B64_SMALLTOP, go_B64_SMALLTOP, 1, 3);
        try_mod!(B128_MAX, go_B128_MAX, 2, 4);
        try_mod!(B128_HALF1, go_B128_HALF1, 2, 4);
        try_mod!(B128_ZHI, go_B128_ZHI, 2, 4);
        try_mod!(B128_LZ64, go_B128_LZ64, 2, 4);
        try_mod!(B128_QUARTER, go_B128_QUARTER, 2, 4);
        try_mod!(B192_THIRD, go_B192_THIRD, 3, 5);
        try_mod!(B192_P, go_B192_P, 3, 5);
        try_mod!(B256_P256, go_B256_P256, 4, 6);
        try_mod!(B256_N256, go_B256_N256, 4, 6);
        try_mod!(B256_MAX, go_B256_MAX, 4, 6);
        try_mod!(B256_HALF1, go_B256_HALF1, 4, 6);
        try_mod!(B256_ZHI, go_B256_ZHI, 4, 6);
        try_mod!(B256_SMALLTOP, go_B256_SMALLTOP, 4, 6);
        try_mod!(B384_P384, go_B384_P384, 6, 8);
        try_mod!(B512_QUARTER, go_B512_QUARTER, 8, 10);
        rep.inconclusive("const inversion: bank modulus not matched".into());
    }
    macro_rules! def_go {
        ($f:ident, $name:ident, $l:literal, $u:literal) => {
            #[allow(non_snake_case)]
            fn $f(c: &Case, rep: &mut Rep) {
                type M = $name;
                const L: usize = $l;
        let (a, m) = (&c.a[0], &c.a[1]);
        let (ab, mb) = (to_big(a) % to_big(m), to_big(m));
        rep.class("const_bank");
        class_inv(&ab, &mb, rep);
        let f = ConstMontyForm::<M, L>::new(&u::<L>(a));
        let pack = |r: ConstMontyForm<M, L>| (ul(&r.retrieve()), ul(r.as_montgomery()));
        let r1 = cct(f.inv()).map(pack);
        let r2 = cct(f.inv_vartime()).map(pack);
        judge_monty(rep, "ConstMontyForm::inv", r1.clone(), &ab, &mb);
        judge_monty(rep, "ConstMontyForm::inv_vartime", r2.clone(), &ab, &mb);
        if r1 != r2 {
            rep.fail("ConstMontyForm::inv.ct_eq_vartime", "results differ".into());
        }
        judge_monty(rep, "ConstMontyForm::Invert::invert", ct(Invert::invert(&f)).map(pack), &ab, &mb);
        judge_monty(rep, "ConstMontyForm::Invert::invert_vartime", ct(Invert::invert_vartime(&f)).map(pack), &ab, &mb);
        let inverter = ConstMontyFormInverter::<M, L>::new();
        let r3 = cct(inverter.inv(&f)).map(pack);
        judge_monty(rep, "ConstMontyFormInverter::inv", r3.clone(), &ab, &mb);
        judge_monty(rep, "ConstMontyFormInverter::inv_vartime", cct(inverter.inv_vartime(&f)).map(pack), &ab, &mb);
        judge_monty(rep, "ConstMontyFormInverter::Inverter::invert", ct(Inverter::invert(&inverter, &f)).map(pack), &ab, &mb);
        if r3 != r1 {
            rep.fail("ConstMontyForm::inv.precomputed_eq_oneshot", "results differ".into());
        }
        // runtime twin from the same compile-time parameters
        let d = MontyForm::<L>::new(&u::<L>(a), MontyParams::from_const_params::<M>());
        let rd = cct(d.inv()).map(|r| (ul(&r.retrieve()), ul(r.as_montgomery())));
        if rd != r1 {
            rep.fail("inv.const_eq_dyn", "compile-time and runtime inverses differ".into());
        }
                }
        };
    }
    def_go!(go_B64_3, B64_3, 1, 3);
    def_go!(go_B64_MAX, B64_MAX, 1, 3);
    def_go!(go_B64_HALF1, B64_HALF1, 1, 3);
    def_go!(go_B64_THIRD, B64_THIRD, 1, 3);
    def_go!(go_B64_P, B64_P, 1, 3);
    def_go!(go_B64_SMALLTOP, B64_SMALLTOP, 1, 3);
    def_go!(go_B128_MAX, B128_MAX, 2, 4);
    def_go!(go_B128_HALF1, B128_HALF1, 2, 4);
    def_go!(go_B128_ZHI, B128_ZHI, 2, 4);
    def_go!(go_B128_LZ64, B128_LZ64, 2, 4);
    def_go!(go_B128_QUARTER, B128_QUARTER, 2, 4);
    def_go!(go_B192_THIRD, B192_THIRD, 3, 5);
    def_go!(go_B192_P, B192_P, 3, 5);
    def_go!(go_B256_P256, B256_P256, 4, 6);
    def_go!(go_B256_N256, B256_N256, 4, 6);
    def_go!(go_B256_MAX, B256_MAX, 4, 6);
    def_go!(go_B256_HALF1, B256_HALF1, 4, 6);
    def_go!(go_B256_ZHI, B256_ZHI, 4, 6);
    def_go!(go_B256_SMALLTOP, B256_SMALLTOP, 4, 6);
    def_go!(go_B384_P384, B384_P384, 6, 8);
    def_go!(go_B512_QUARTER, B512_QUARTER, 8, 10);
}

fn c_monty_inv_const(c: &Case, rep: &mut Rep) {
    const_inv_helpers::run(c, rep);
}

fn c_boxed_inv(c: &Case, rep: &mut Rep) {
    let (a, m) = (&c.a[0], &c.a[1]);
    let n = m.len();
    let (ab, mb) = (to_big(a), to_big(m));
    class_inv(&ab, &mb, rep);
    let one = BigUint::one();
    let (x, bm) = (bx(a), bx(m));
    let lim = |v: BoxedUint| {
        let l = bl(&v);
        if l.len() != n { None } else { Some(l) }
    };
    let r = ct(x.inv_mod(&bm));
    if let Some(v) = &r {
        if v.nlimbs() != n {
            rep.fail("boxed.inv_mod.precision", format!("{} limbs want {}", v.nlimbs(), n));
        }
    }
    judge(rep, "boxed.inv_mod", r.and_then(lim), &ab, &mb, &one);
    judge(rep, "boxed.InvMod", ct(InvMod::inv_mod(&x, &bm)).map(|v| bl(&v)), &ab, &mb, &one);
    if m[0] & 1 == 1 {
        let om = odb(m);
        judge(rep, "boxed.inv_odd_mod", ct(x.inv_odd_mod(&om)).map(|v| bl(&v)), &ab, &mb, &one);
        let inverter = om.precompute_inverter();
        let r1 = ct(inverter.invert(&x)).map(|v| bl(&v));
        let r2 = ct(inverter.invert_vartime(&x)).map(|v| bl(&v));
        judge(rep, "boxed.Inverter::invert", r1.clone(), &ab, &mb, &one);
        judge(rep, "boxed.Inverter::invert_vartime", r2.clone(), &ab, &mb, &one);
        if r1 != r2 {
            rep.fail("boxed.Inverter.ct_eq_vartime", "results differ".into());
        }
        let adjb = to_big(&c.a[2]) % &mb;
        let inv2 = BoxedSafeGcdInverter::new(&om, &bx(&from_big(&adjb, n)));
        judge(rep, "BoxedSafeGcdInverter::new(adjuster)::invert", ct(inv2.invert(&x)).map(|v| bl(&v)), &ab, &mb, &adjb);
        judge(rep, "BoxedSafeGcdInverter::new(adjuster)::invert_vartime", ct(inv2.invert_vartime(&x)).map(|v| bl(&v)), &ab, &mb, &adjb);
        // Montgomery
        if !mb.is_one() {
            let bp = BoxedMontyParams::new(om.clone());
            let bf = BoxedMontyForm::new(bx(a), bp);
            let am = &ab % &mb;
            judge_monty(rep, "BoxedMontyForm::invert", ct(bf.invert()).map(|r| (bl(&r.retrieve()), bl(r.as_montgomery()))), &am, &mb);
        }
    }
}

fn c_boxed_inv2k(c: &Case, rep: &mut Rep) {
    let a = &c.a[0];
    let k = c.s[0] as u32;
    rep.class("k_exhaustive");
    let ab = to_big(a);
    let x = bx(a);
    let (v1, c1) = x.inv_mod2k(k);
    let (v2, c2) = x.inv_mod2k_vartime(k);
    let r1 = if bool::from(c1) { Some(bl(&v1)) } else { None };
    let r2 = if bool::from(c2) { Some(bl(&v2)) } else { None };
    judge2k(rep, "boxed.inv_mod2k", r1.clone(), &ab, k);
    judge2k(rep, "boxed.inv_mod2k_vartime", r2.clone(), &ab, k);
    if r1 != r2 {
        rep.fail("boxed.inv_mod2k.ct_eq_vartime", "results differ".into());
    }
}

fn class_gcd(x: &BigUint, y: &BigUint, rep: &mut Rep) {
    if x.is_zero() && y.is_zero() {
        rep.class("gcd_both_zero");
    } else if x.is_zero() || y.is_zero() {
        rep.class("gcd_one_zero");
    }
    if x == y && !x.is_zero() {
        rep.class("gcd_equal");
    }
    let g = x.gcd(y);
    if g.count_ones() == 1 && g.bits() > 1 {
        rep.class("gcd_pow2");
    }
    if !g.is_one() && !g.is_zero() {
        rep.class("gcd_nontrivial");
    }
    if !x.bit(0) && !y.bit(0) && !x.is_zero() && !y.is_zero() {
        rep.class("gcd_both_even");
    }
    rep.nontrivial();
}

macro_rules! def_uint_gcd {
    ($f:ident, $l:literal, $u:literal) => {
        #[allow(dead_code, unused_variables)]
        fn $f(c: &Case, rep: &mut Rep) {
            const L: usize = $l;
            const U: usize = $u;
    let (x, y) = (&c.a[0], &c.a[1]);
    let (xb, yb) = (to_big(x), to_big(y));
    class_gcd(&xb, &yb, rep);
    let want = from_big(&xb.gcd(&yb), L);
    let (ux, uy) = (u::<L>(x), u::<L>(y));
    let ex = |rep: &mut Rep, rel: &str, got: Vec<u64>| {
        if got != want {
            rep.fail(rel, format!("got {} want {}", hex(&got), hex(&want)));
        }
    };
    ex(rep, "gcd", ul(&ux.gcd(&uy)));
    ex(rep, "Gcd::gcd", ul(&Gcd::gcd(&ux, &uy)));
    ex(rep, "Gcd::gcd_vartime", ul(&Gcd::gcd_vartime(&ux, &uy)));
    if x[0] & 1 == 1 {
        let ox = od::<L>(x);
        ex(rep, "Odd::gcd_vartime", ul(&ox.gcd_vartime(&uy)));
    }
    // signed forms: gcd of the absolute values, always non-negative
    let (ix, iy): (Int<L>, Int<L>) = (i::<L>(x), i::<L>(y));
    let (mx, my) = (to_bigint(x).magnitude().clone(), to_bigint(y).magnitude().clone());
    if to_bigint(x) < BigInt::zero() || to_bigint(y) < BigInt::zero() {
        rep.class("gcd_negative_int");
    }
    let wii = from_big(&mx.gcd(&my), L);
    let exw = |rep: &mut Rep, rel: &str, got: Vec<u64>, want: &Vec<u64>| {
        if &got != want {
            rep.fail(rel, format!("got {} want {}", hex(&got), hex(want)));
        }
    };
    exw(rep, "Int::Gcd::gcd", ul(&Gcd::gcd(&ix, &iy)), &wii);
    exw(rep, "Int::Gcd::gcd_vartime", ul(&Gcd::gcd_vartime(&ix, &iy)), &wii);
    let wiu = from_big(&mx.gcd(&yb), L);
    exw(rep, "Int::Gcd<Uint>::gcd", ul(&Gcd::gcd(&ix, &uy)), &wiu);
    exw(rep, "Int::Gcd<Uint>::gcd_vartime", ul(&Gcd::gcd_vartime(&ix, &uy)), &wiu);
    let wui = from_big(&xb.gcd(&my), L);
    exw(rep, "Uint::Gcd<Int>::gcd", ul(&Gcd::gcd(&ux, &iy)), &wui);
    exw(rep, "Uint::Gcd<Int>::gcd_vartime", ul(&Gcd::gcd_vartime(&ux, &iy)), &wui);
        }
    };
}
def_uint_gcd!(uint_gcd_1, 1, 3);
def_uint_gcd!(uint_gcd_2, 2, 4);
def_uint_gcd!(uint_gcd_3, 3, 5);
def_uint_gcd!(uint_gcd_4, 4, 6);
def_uint_gcd!(uint_gcd_6, 6, 8);
def_uint_gcd!(uint_gcd_8, 8, 10);
def_uint_gcd!(uint_gcd_16, 16, 18);
def_uint_gcd!(uint_gcd_32, 32, 35);
fn c_uint_gcd(c: &Case, rep: &mut Rep) {
    match c.w[0] {
        1 => uint_gcd_1(c, rep),
        2 => uint_gcd_2(c, rep),
        3 => uint_gcd_3(c, rep),
        4 => uint_gcd_4(c, rep),
        6 => uint_gcd_6(c, rep),
        8 => uint_gcd_8(c, rep),
        16 => uint_gcd_16(c, rep),
        32 => uint_gcd_32(c, rep),
        w => panic!("harness: width {}", w),
    }
}

fn c_boxed_gcd(c: &Case, rep: &mut Rep) {
    let (x, y) = (&c.a[0], &c.a[1]);
    let n = x.len();
    let (xb, yb) = (to_big(x), to_big(y));
    class_gcd(&xb, &yb, rep);
    let want = xb.gcd(&yb);
    let (b1, b2) = (bx(x), bx(y));
    for (rel, got) in [("boxed.Gcd::gcd", Gcd::gcd(&b1, &b2)), ("boxed.Gcd::gcd_vartime", Gcd::gcd_vartime(&b1, &b2))] {
        if bb(&got) != want {
            rep.fail(rel, format!("got {} want {}", hex(&bl(&got)), bhex(&want)));
        }
        if got.nlimbs() != n {
            rep.fail(&format!("{}.precision", rel), format!("{} limbs want {}", got.nlimbs(), n));
        }
    }
    if x[0] & 1 == 1 {
        let ox = odb(x);
        for (rel, got) in [("boxed.Odd::Gcd::gcd", Gcd::gcd(&ox, &b2)), ("boxed.Odd::Gcd::gcd_vartime", Gcd::gcd_vartime(&ox, &b2))] {
            if bb(&got) != want {
                rep.fail(rel, format!("got {} want {}", hex(&bl(&got)), bhex(&want)));
            }
        }
    }
}

// ---------------------------------------------------------------------------------------------
// generation

const PRIMES: [u64; 14] = [3, 5, 7, 11, 13, 17, 251, 257, 65537, 4294967291, 4294967311, 18446744073709551557, 18446744073709551533, 9223372036854775783];

/// structured modulus >= 1 for inversion
fn gen_inv_modulus(r: &mut Rng, n: usize, odd_only: bool) -> Vec<u64> {
    let bits = 64 * n;
    let v = match r.below(12) {
        0 => gn::one(n),
        1 => gn::max(n),
        2 => {
            // product of small primes (odd composite) fitting the width
            let mut p = BigUint::one();
            for _ in 0..(1 + r.below(6)) {
                let q = BigUint::from(*r.pick(&PRIMES));
                if (&p * &q).bits() as usize <= bits {
                    p *= q;
                }
            }
            from_big(&p, n)
        }
        3 if !odd_only => gn::single_bit(n, r.usize_below(bits)), // 2^k
        4 | 5 if !odd_only => {
            // s * 2^k for every k
            let k = r.usize_below(bits);
            let sb = (bits - k).max(1).min(1 + r.usize_below(bits - k));
            let mut s = to_big(&gn::uint_bits(r, n, sb));
            s.set_bit(0, true);
            let v = (s << k) & mask(bits);
            if v.is_zero() { gn::one(n) } else { from_big(&v, n) }
        }
        6 => {
            // prime-ish: a known prime placed in the low limb, zero high limbs
            let mut v = gn::zero(n);
            v[0] = *r.pick(&PRIMES);
            v
        }
        _ => gn::modulus(r, n, odd_only),
    };
    let mut v = v;
    if odd_only {
        v[0] |= 1;
    }
    if is_zero(&v) {
        v[0] = 1;
    }
    v
}

fn gen_inv_operand(r: &mut Rng, m: &BigUint, n: usize) -> Vec<u64> {
    let bits = 64 * n;
    let v = match r.below(12) {
        0 => BigUint::zero(),
        1 => BigUint::one(),
        2 => (m + m - 1u32) % m.max(&BigUint::one()),
        3 => m.clone(),                                        // a = m  (>= m)
        4 => (m + BigUint::from(1 + r.below(5))) & mask(bits), // a > m
        5 => {
            // multiple of a prime factor candidate
            let q = BigUint::from(*r.pick(&PRIMES));
            (q * BigUint::from(1 + r.below(1000))) & mask(bits)
        }
        6 => {
            // shares only the factor 2 (even a)
            (to_big(&gn::uint(r, n)) << 1) & mask(bits)
        }
        7 => {
            // many trailing zeros: long jump steps
            let tz = 62 + r.usize_below(bits.saturating_sub(63).max(1));
            (to_big(&gn::uint(r, n)) | BigUint::one()) << tz.min(bits - 1) & mask(bits)
        }
        8 => {
            // gcd(a, m) = g > 1 by construction: a = g * t where g | m
            let g = m.gcd(&to_big(&gn::uint(r, n)));
            (g * BigUint::from(1 + r.below(1 << 20))) & mask(bits)
        }
        _ => gn::below(r, m, n),
    };
    from_big(&v, n)
}

fn gen_gcd_pair(r: &mut Rng, n: usize) -> (Vec<u64>, Vec<u64>) {
    let bits = 64 * n;
    match r.below(10) {
        0 => (gn::zero(n), gn::zero(n)),
        1 => (gn::zero(n), gn::uint(r, n)),
        2 => (gn::uint(r, n), gn::zero(n)),
        3 => {
            let x = gn::uint(r, n);
            (x.clone(), x)
        }
        4 => (gn::single_bit(n, r.usize_below(bits)), gn::single_bit(n, r.usize_below(bits))),
        5..=7 => {
            // g * a', g * b'
            let gb = 1 + r.usize_below(bits / 2);
            let g = to_big(&gn::uint_bits(r, n, gb));
            let rem = bits - gb;
            let (ba, bbits) = (1 + r.usize_below(rem), 1 + r.usize_below(rem));
            let a = to_big(&gn::uint_bits(r, n, ba));
            let b = to_big(&gn::uint_bits(r, n, bbits));
            (from_big(&(&g * a & mask(bits)), n), from_big(&(&g * b & mask(bits)), n))
        }
        _ => (gn::uint(r, n), gn::uint(r, n)),
    }
}

pub fn workload(ctx: &mut Ctx) {
    for &l in &[1usize, 2, 3, 4, 6, 8, 16, 32] {
        let cnt = match l {
            1..=4 => 16_000,
            6 | 8 => 3_000,
            16 => 400,
            _ => 48,
        };
        for _ in 0..ctx.iters(cnt) {
            let m = gen_inv_modulus(&mut ctx.rng, l, false);
            let mb = to_big(&m);
            let a = gen_inv_operand(&mut ctx.rng, &mb, l);
            let adj = gn::uint(&mut ctx.rng, l);
            ctx.exec(Case::new("uint.inv_mod").w(l).a(a).a(m).a(adj), c_uint_inv);
        }
        for _ in 0..ctx.iters(cnt) {
            let (x, y) = gen_gcd_pair(&mut ctx.rng, l);
            ctx.exec(Case::new("uint.gcd").w(l).a(x).a(y), c_uint_gcd);
        }
        if l <= 16 {
            for _ in 0..ctx.iters(cnt / 2) {
                let m = gen_inv_modulus(&mut ctx.rng, l, true);
                let mb = to_big(&m);
                let a = gen_inv_operand(&mut ctx.rng, &mb, l);
                ctx.exec(Case::new("monty.inv").w(l).a(a).a(m), c_monty_inv);
            }
        }
    }
    // inv_mod2k: k exhaustive 0..=BITS (and beyond-BITS is out of domain) at <= 4 limbs, sampled above
    for &l in &[1usize, 2, 3, 4, 6, 8] {
        let bits = 64 * l as u64;
        for k in 0..=bits {
            if !ctx.mine() {
                continue;
            }
            if l > 4 && k % 7 != 0 && k != bits && k != bits - 1 {
                continue;
            }
            for t in 0..(if ctx.tier == Tier::Thorough { 24 } else { 6 }) {
                let mut a = gn::uint(&mut ctx.rng, l);
                if t % 3 != 0 {
                    a[0] |= 1;
                }
                ctx.exec(Case::new("uint.inv_mod2k").w(l).a(a.clone()).s(k), c_uint_inv2k);
                ctx.exec(Case::new("boxed.inv_mod2k").w(l).a(a).s(k), c_boxed_inv2k);
            }
        }
    }
    for (i, (n, hexs)) in BANK.iter().enumerate() {
        let m = {
            let mut v = parse_hex(hexs);
            v.resize(*n, 0);
            v
        };
        let mb = to_big(&m);
        for _ in 0..ctx.iters(1_000) {
            let a = gen_inv_operand(&mut ctx.rng, &mb, *n);
            ctx.exec(Case::new("monty.inv_const").w(*n).a(a).a(m.clone()).s(i as u64), c_monty_inv_const);
        }
    }
    for _ in 0..ctx.iters(24_000) {
        let n = 1 + if ctx.rng.chance(7, 8) { ctx.rng.usize_below(6) } else { ctx.rng.usize_below(33) };
        let m = gen_inv_modulus(&mut ctx.rng, n, false);
        let mb = to_big(&m);
        let a = gen_inv_operand(&mut ctx.rng, &mb, n);
        let adj = gn::uint(&mut ctx.rng, n);
        ctx.exec(Case::new("boxed.inv_mod").w(n).a(a).a(m).a(adj), c_boxed_inv);
    }
    for _ in 0..ctx.iters(24_000) {
        let n = 1 + if ctx.rng.chance(7, 8) { ctx.rng.usize_below(6) } else { ctx.rng.usize_below(33) };
        let (x, y) = gen_gcd_pair(&mut ctx.rng, n);
        ctx.exec(Case::new("boxed.gcd").w(n).a(x).a(y), c_boxed_gcd);
    }
}
