//! Registry of traced operations ("cells" = operation x width x public-parameter assignment).
//!
//! Roles follow the crate documentation (README: everything not named `*_vartime` is constant time
//! in all operands): every value operand is secret, including shift amounts / bit indices of the
//! non-vartime forms, divisors and moduli; public are widths / precisions, the shift amount of
//! `*_vartime` shifts, the divisor of `*_vartime` divisions, exponent bit bounds and the modulus
//! behind Montgomery parameters.  Public parameters are part of the cell and identical for all
//! secret variants compared with each other.
use crate::gens::{self, Secret};
use crypto_bigint::modular::{BoxedMontyForm, BoxedMontyParams, MontyForm, MontyParams};
use crypto_bigint::{BoxedUint, CheckedAdd, CheckedMul, CheckedSub, Gcd, Int, Limb, NonZero, Odd, Reciprocal, Uint, Zero};
use std::hint::black_box as bb;
use subtle::{ConditionallySelectable, ConstantTimeEq, ConstantTimeGreater, ConstantTimeLess};
use vcore::rng::Rng;

pub struct Slots {
    pub a: Vec<Vec<u64>>,
    pub s: Vec<u64>,
}

#[derive(Clone)]
pub enum Gen {
    Any1,
    Any2,
    Div,
    Mod { odd: bool },
    BelowPublic(Vec<u64>),
    Scalar(Vec<u64>),
    Limbs3,
}

impl Gen {
    pub fn make(&self, r: &mut Rng, w: usize, c: usize) -> Secret {
        match self {
            Gen::Any1 => gens::any1(r, w, c),
            Gen::Any2 => gens::any2(r, w, c),
            Gen::Div => gens::div(r, w, c),
            Gen::Mod { odd } => gens::modular(r, w, c, *odd),
            Gen::BelowPublic(m) => gens::below_public(r, w, c, m),
            Gen::Scalar(l) => gens::with_scalar(r, w, c, l),
            Gen::Limbs3 => gens::limbs3(r, c),
        }
    }

    /// Which operands can be varied on their own ("all" = every operand changes).
    pub fn modes(&self) -> &'static [&'static str] {
        match self {
            Gen::Any1 => &["all"],
            Gen::Any2 | Gen::Div => &["all", "a0", "a1"],
            Gen::Mod { .. } => &["all", "a0", "a1"],
            Gen::BelowPublic(_) => &["all", "a0", "a1", "a2"],
            Gen::Scalar(_) => &["all", "a0", "s0"],
            Gen::Limbs3 => &["all", "s0", "s1", "s2"],
        }
    }

    /// A variant that differs from `base` only in the operand named by `mode`.
    pub fn vary(&self, r: &mut Rng, w: usize, c: usize, base: &Secret, mode: &str) -> Secret {
        if mode == "all" {
            return self.make(r, w, c);
        }
        let mut s = base.clone();
        let name: String = match (self, mode) {
            (Gen::Div, "a0") => {
                let (v, n) = gens::dividend_for(r, w, c, &base.a[1]);
                s.a[0] = v;
                n.into()
            }
            (Gen::Div, "a1") => {
                let (v, n) = gens::nonzero(r, w, c);
                s.a[1] = v;
                n.into()
            }
            (Gen::Mod { .. }, m) => {
                let i = if m == "a0" { 0 } else { 1 };
                let (v, n) = gens::below_value(r, w, c, &base.a[2]);
                s.a[i] = v;
                n.into()
            }
            (Gen::BelowPublic(m), "a0") | (Gen::BelowPublic(m), "a1") => {
                let i = if mode == "a0" { 0 } else { 1 };
                let (v, n) = gens::below_value(r, w, c, m);
                s.a[i] = v;
                n.into()
            }
            (Gen::BelowPublic(_), "a2") => {
                let (v, n) = gens::single(r, w, c);
                s.a[2] = v;
                n.into()
            }
            (Gen::Scalar(l), "s0") => {
                s.s[0] = l[c % l.len()];
                format!("k={}", s.s[0])
            }
            (Gen::Limbs3, m) => {
                let i: usize = m[1..].parse().unwrap();
                let t = gens::limbs3(r, c);
                s.s[i] = t.s[c % 3];
                format!("{:x}", s.s[i])
            }
            (_, m) => {
                let i: usize = m[1..].parse().unwrap();
                let (v, n) = gens::single(r, w, c);
                s.a[i] = v;
                n.into()
            }
        };
        s.class = format!("only_{}:{} (base {})", mode, name, base.class);
        s
    }
}

pub struct Cell {
    pub op: String,
    pub width: usize,
    pub public: String,
    pub tier: u8, // 0 = quick and thorough, 1 = thorough only
    pub generator: Gen,
    pub run: Box<dyn Fn(&Slots)>,
}

fn u<const L: usize>(v: &[u64]) -> Uint<L> {
    let mut a = [0u64; L];
    a.copy_from_slice(v);
    Uint::from_words(a)
}
fn bx(v: &[u64]) -> BoxedUint {
    BoxedUint::from_words(v.iter().copied())
}
fn shifts(bits: u64, over: bool) -> Vec<u64> {
    let mut v = vec![0, 1, 63, 64, 65, bits - 1, bits / 2];
    if over {
        v.extend([bits, bits + 1, u32::MAX as u64]);
    }
    v.sort();
    v.dedup();
    v.retain(|&k| over || k < bits);
    v
}

/// Deterministic public moduli for Montgomery cells.
pub fn public_modulus(w: usize, idx: usize) -> Vec<u64> {
    let mut r = Rng::new(0xC01 + 17 * w as u64 + idx as u64);
    let mut m = vcore::gn::random(&mut r, w);
    m[0] |= 1;
    match idx {
        0 => m[w - 1] |= 1 << 63,                            // full bit length
        _ => m[w - 1] = (m[w - 1] >> 3) | 1 << 58, // bit length not a multiple of 64
    }
    m[0] |= 1;
    m
}

macro_rules! cell {
    ($reg:ident, $tier:expr, $op:expr, $w:expr, $public:expr, $gen:expr, $f:expr) => {
        $reg.push(Cell { op: $op.to_string(), width: $w, public: $public.to_string(), tier: $tier, generator: $gen, run: Box::new($f) });
    };
}

macro_rules! uint_cells {
    ($reg:ident, $L:literal, $tier:expr) => {{
        const L: usize = $L;
        let w = L;
        let t: u8 = $tier;
        let bits = 64 * L as u64;
        // ---- addition / subtraction / negation
        cell!($reg, t, "Uint::adc", w, "", Gen::Any2, |s: &Slots| { bb(u::<L>(&s.a[0]).adc(&u::<L>(&s.a[1]), Limb::ONE)); });
        cell!($reg, t, "Uint::sbb", w, "", Gen::Any2, |s: &Slots| { bb(u::<L>(&s.a[0]).sbb(&u::<L>(&s.a[1]), Limb::ONE)); });
        cell!($reg, t, "Uint::wrapping_add", w, "", Gen::Any2, |s: &Slots| { bb(u::<L>(&s.a[0]).wrapping_add(&u::<L>(&s.a[1]))); });
        cell!($reg, t, "Uint::wrapping_sub", w, "", Gen::Any2, |s: &Slots| { bb(u::<L>(&s.a[0]).wrapping_sub(&u::<L>(&s.a[1]))); });
        cell!($reg, t, "Uint::checked_add", w, "", Gen::Any2, |s: &Slots| { bb(u::<L>(&s.a[0]).checked_add(&u::<L>(&s.a[1]))); });
        cell!($reg, t, "Uint::checked_sub", w, "", Gen::Any2, |s: &Slots| { bb(u::<L>(&s.a[0]).checked_sub(&u::<L>(&s.a[1]))); });
        cell!($reg, t, "Uint::saturating_add", w, "", Gen::Any2, |s: &Slots| { bb(u::<L>(&s.a[0]).saturating_add(&u::<L>(&s.a[1]))); });
        cell!($reg, t, "Uint::saturating_sub", w, "", Gen::Any2, |s: &Slots| { bb(u::<L>(&s.a[0]).saturating_sub(&u::<L>(&s.a[1]))); });
        cell!($reg, t, "Uint::wrapping_neg", w, "", Gen::Any1, |s: &Slots| { bb(u::<L>(&s.a[0]).wrapping_neg()); });
        // ---- multiplication
        cell!($reg, t, "Uint::split_mul", w, "", Gen::Any2, |s: &Slots| { bb(u::<L>(&s.a[0]).split_mul(&u::<L>(&s.a[1]))); });
        cell!($reg, t, "Uint::wrapping_mul", w, "", Gen::Any2, |s: &Slots| { bb(u::<L>(&s.a[0]).wrapping_mul(&u::<L>(&s.a[1]))); });
        cell!($reg, t, "Uint::checked_mul", w, "", Gen::Any2, |s: &Slots| { bb(u::<L>(&s.a[0]).checked_mul(&u::<L>(&s.a[1]))); });
        cell!($reg, t, "Uint::saturating_mul", w, "", Gen::Any2, |s: &Slots| { bb(u::<L>(&s.a[0]).saturating_mul(&u::<L>(&s.a[1]))); });
        cell!($reg, t, "Uint::square_wide", w, "", Gen::Any1, |s: &Slots| { bb(u::<L>(&s.a[0]).square_wide()); });
        // ---- comparison / selection
        cell!($reg, t, "Uint::ct_eq", w, "", Gen::Any2, |s: &Slots| { bb(u::<L>(&s.a[0]).ct_eq(&u::<L>(&s.a[1]))); });
        cell!($reg, t, "Uint::ct_lt", w, "", Gen::Any2, |s: &Slots| { bb(u::<L>(&s.a[0]).ct_lt(&u::<L>(&s.a[1]))); });
        cell!($reg, t, "Uint::ct_gt", w, "", Gen::Any2, |s: &Slots| { bb(u::<L>(&s.a[0]).ct_gt(&u::<L>(&s.a[1]))); });
        cell!($reg, t, "Uint::PartialEq::eq", w, "", Gen::Any2, |s: &Slots| { bb(u::<L>(&s.a[0]) == u::<L>(&s.a[1])); });
        cell!($reg, t, "Uint::Ord::cmp", w, "", Gen::Any2, |s: &Slots| { bb(u::<L>(&s.a[0]).cmp(&u::<L>(&s.a[1]))); });
        cell!($reg, t, "Uint::PartialOrd::lt", w, "", Gen::Any2, |s: &Slots| { bb(u::<L>(&s.a[0]) < u::<L>(&s.a[1])); });
        cell!($reg, t, "Uint::PartialOrd::ge", w, "", Gen::Any2, |s: &Slots| { bb(u::<L>(&s.a[0]) >= u::<L>(&s.a[1])); });
        cell!($reg, t, "Uint::PartialOrd::partial_cmp", w, "", Gen::Any2, |s: &Slots| { bb(u::<L>(&s.a[0]).partial_cmp(&u::<L>(&s.a[1]))); });
        cell!($reg, t, "Uint::is_zero", w, "", Gen::Any1, |s: &Slots| { bb(Zero::is_zero(&u::<L>(&s.a[0]))); });
        cell!($reg, t, "Uint::is_odd", w, "", Gen::Any1, |s: &Slots| { bb(crypto_bigint::Integer::is_odd(&u::<L>(&s.a[0]))); });
        cell!($reg, t, "Uint::conditional_select", w, "", Gen::Any2, |s: &Slots| {
            let (x, y) = (u::<L>(&s.a[0]), u::<L>(&s.a[1]));
            bb(Uint::<L>::conditional_select(&x, &y, x.ct_lt(&y)));
        });
        cell!($reg, t, "NonZero<Uint>::new", w, "", Gen::Any1, |s: &Slots| { bb(NonZero::new(u::<L>(&s.a[0]))); });
        cell!($reg, t, "Odd<Uint>::new", w, "", Gen::Any1, |s: &Slots| { bb(Odd::new(u::<L>(&s.a[0]))); });
        // ---- bit operations
        cell!($reg, t, "Uint::bits", w, "", Gen::Any1, |s: &Slots| { bb(u::<L>(&s.a[0]).bits()); });
        cell!($reg, t, "Uint::leading_zeros", w, "", Gen::Any1, |s: &Slots| { bb(u::<L>(&s.a[0]).leading_zeros()); });
        cell!($reg, t, "Uint::trailing_zeros", w, "", Gen::Any1, |s: &Slots| { bb(u::<L>(&s.a[0]).trailing_zeros()); });
        cell!($reg, t, "Uint::trailing_ones", w, "", Gen::Any1, |s: &Slots| { bb(u::<L>(&s.a[0]).trailing_ones()); });
        cell!($reg, t, "Uint::bit", w, "", Gen::Scalar(shifts(bits, true)), |s: &Slots| { bb(u::<L>(&s.a[0]).bit(s.s[0] as u32)); });
        cell!($reg, t, "Uint::bitand_or_xor_not", w, "", Gen::Any2, |s: &Slots| {
            let (x, y) = (u::<L>(&s.a[0]), u::<L>(&s.a[1]));
            bb((x.bitand(&y), x.bitor(&y), x.bitxor(&y), x.not()));
        });
        // ---- shifts: the amount is secret for the non-vartime forms
        cell!($reg, t, "Uint::shl", w, "", Gen::Scalar(shifts(bits, false)), |s: &Slots| { bb(u::<L>(&s.a[0]).shl(s.s[0] as u32)); });
        cell!($reg, t, "Uint::shr", w, "", Gen::Scalar(shifts(bits, false)), |s: &Slots| { bb(u::<L>(&s.a[0]).shr(s.s[0] as u32)); });
        cell!($reg, t, "Uint::overflowing_shl", w, "", Gen::Scalar(shifts(bits, true)), |s: &Slots| { bb(u::<L>(&s.a[0]).overflowing_shl(s.s[0] as u32)); });
        cell!($reg, t, "Uint::overflowing_shr", w, "", Gen::Scalar(shifts(bits, true)), |s: &Slots| { bb(u::<L>(&s.a[0]).overflowing_shr(s.s[0] as u32)); });
        cell!($reg, t, "Uint::wrapping_shl", w, "", Gen::Scalar(shifts(bits, true)), |s: &Slots| { bb(u::<L>(&s.a[0]).wrapping_shl(s.s[0] as u32)); });
        cell!($reg, t, "Uint::wrapping_shr", w, "", Gen::Scalar(shifts(bits, true)), |s: &Slots| { bb(u::<L>(&s.a[0]).wrapping_shr(s.s[0] as u32)); });
        for k in [0u32, 1, 64, (bits - 1) as u32] {
            if (k as u64) < bits {
                // shift public, value secret
                cell!($reg, t, "Uint::overflowing_shl_vartime", w, format!("shift={}", k), Gen::Any1, move |s: &Slots| { bb(u::<L>(&s.a[0]).overflowing_shl_vartime(k)); });
                cell!($reg, t, "Uint::overflowing_shr_vartime", w, format!("shift={}", k), Gen::Any1, move |s: &Slots| { bb(u::<L>(&s.a[0]).overflowing_shr_vartime(k)); });
            }
        }
        // ---- division: dividend and divisor secret
        cell!($reg, t, "Uint::div_rem", w, "", Gen::Div, |s: &Slots| { bb(u::<L>(&s.a[0]).div_rem(&NonZero::new(u::<L>(&s.a[1])).unwrap())); });
        cell!($reg, t, "Uint::rem", w, "", Gen::Div, |s: &Slots| { bb(u::<L>(&s.a[0]).rem(&NonZero::new(u::<L>(&s.a[1])).unwrap())); });
        cell!($reg, t, "Uint::op_div_rem", w, "", Gen::Div, |s: &Slots| {
            let (x, y) = (u::<L>(&s.a[0]), NonZero::new(u::<L>(&s.a[1])).unwrap());
            bb((x / y, x % y));
        });
        cell!($reg, t, "Uint::wrapping_div", w, "", Gen::Div, |s: &Slots| { bb(u::<L>(&s.a[0]).wrapping_div(&NonZero::new(u::<L>(&s.a[1])).unwrap())); });
        cell!($reg, t, "Uint::op_shl_shr", w, "", Gen::Scalar(shifts(bits, false)), |s: &Slots| { bb((u::<L>(&s.a[0]) << (s.s[0] as u32), u::<L>(&s.a[0]) >> (s.s[0] as u32))); });
        cell!($reg, t, "Uint::checked_div", w, "", Gen::Any2, |s: &Slots| { bb(u::<L>(&s.a[0]).checked_div(&u::<L>(&s.a[1]))); });
        cell!($reg, t, "Uint::checked_rem", w, "", Gen::Any2, |s: &Slots| { bb(u::<L>(&s.a[0]).checked_rem(&u::<L>(&s.a[1]))); });
        cell!($reg, t, "Uint::div_rem_limb", w, "", Gen::Div, |s: &Slots| { bb(u::<L>(&s.a[0]).div_rem_limb(NonZero::new(Limb(s.a[1][0] | 1)).unwrap())); });
        cell!($reg, t, "Uint::rem_limb", w, "", Gen::Div, |s: &Slots| { bb(u::<L>(&s.a[0]).rem_limb(NonZero::new(Limb(s.a[1][0] | 1)).unwrap())); });
        cell!($reg, t, "Reciprocal::new", w, "", Gen::Div, |s: &Slots| { bb(Reciprocal::new(NonZero::new(Limb(s.a[1][0] | 1)).unwrap())); });
        for d in 0..2usize {
            // divisor public (vartime in the divisor), dividend secret
            let dv = public_modulus(w, d);
            let nz = NonZero::new(u::<L>(&dv)).unwrap();
            cell!($reg, t, "Uint::div_rem_vartime", w, format!("divisor#{}", d), Gen::Any1, move |s: &Slots| { bb(u::<L>(&s.a[0]).div_rem_vartime(&nz)); });
            cell!($reg, t, "Uint::rem_vartime", w, format!("divisor#{}", d), Gen::Any1, move |s: &Slots| { bb(u::<L>(&s.a[0]).rem_vartime(&nz)); });
        }
        // ---- modular arithmetic with a secret modulus
        cell!($reg, t, "Uint::add_mod", w, "", Gen::Mod { odd: false }, |s: &Slots| { bb(u::<L>(&s.a[0]).add_mod(&u::<L>(&s.a[1]), &u::<L>(&s.a[2]))); });
        cell!($reg, t, "Uint::sub_mod", w, "", Gen::Mod { odd: false }, |s: &Slots| { bb(u::<L>(&s.a[0]).sub_mod(&u::<L>(&s.a[1]), &u::<L>(&s.a[2]))); });
        cell!($reg, t, "Uint::neg_mod", w, "", Gen::Mod { odd: false }, |s: &Slots| { bb(u::<L>(&s.a[0]).neg_mod(&u::<L>(&s.a[2]))); });
        cell!($reg, t, "Uint::double_mod", w, "", Gen::Mod { odd: false }, |s: &Slots| { bb(u::<L>(&s.a[0]).double_mod(&u::<L>(&s.a[2]))); });
        cell!($reg, t, "Uint::mul_mod", w, "", Gen::Mod { odd: true }, |s: &Slots| { bb(u::<L>(&s.a[0]).mul_mod(&u::<L>(&s.a[1]), &NonZero::new(u::<L>(&s.a[2])).unwrap())); });
        cell!($reg, t, "Uint::mul_mod_special", w, "c=189", Gen::Any2, |s: &Slots| { bb(u::<L>(&s.a[0]).mul_mod_special(&u::<L>(&s.a[1]), Limb(189))); });
        cell!($reg, t, "Uint::add_mod_special", w, "c=189", Gen::Any2, |s: &Slots| { bb(u::<L>(&s.a[0]).add_mod_special(&u::<L>(&s.a[1]), Limb(189))); });
        cell!($reg, t, "Uint::sub_mod_special", w, "c=189", Gen::Any2, |s: &Slots| { bb(u::<L>(&s.a[0]).sub_mod_special(&u::<L>(&s.a[1]), Limb(189))); });
        // ---- roots, encodings
        cell!($reg, t, "Uint::sqrt", w, "", Gen::Any1, |s: &Slots| { bb(u::<L>(&s.a[0]).sqrt()); });
        cell!($reg, t, "Uint::checked_sqrt", w, "", Gen::Any1, |s: &Slots| { bb(u::<L>(&s.a[0]).checked_sqrt()); });
        cell!($reg, t, "Uint::to_words_from_words", w, "", Gen::Any1, |s: &Slots| { bb(Uint::<L>::from_words(u::<L>(&s.a[0]).to_words())); });
        // ---- wrappers and encodings
        cell!($reg, t, "Wrapping<Uint>::ops", w, "", Gen::Any2, |s: &Slots| {
            let (x, y) = (crypto_bigint::Wrapping(u::<L>(&s.a[0])), crypto_bigint::Wrapping(u::<L>(&s.a[1])));
            bb((x + y, x - y, x * y, -x, x & y, x | y, x ^ y));
        });
        cell!($reg, t, "Checked<Uint>::ops", w, "", Gen::Any2, |s: &Slots| {
            let (x, y) = (crypto_bigint::Checked::new(u::<L>(&s.a[0])), crypto_bigint::Checked::new(u::<L>(&s.a[1])));
            bb((x + y, x - y, x * y));
        });
        cell!($reg, t, "Uint::to_be_bytes_from_be_slice", w, "", Gen::Any1, |s: &Slots| {
            let x = u::<L>(&s.a[0]);
            let mut buf = [0u8; 8 * L];
            for (i, l) in x.as_limbs().iter().rev().enumerate() {
                buf[8 * i..8 * i + 8].copy_from_slice(&l.0.to_be_bytes());
            }
            bb((Uint::<L>::from_be_slice(&buf), Uint::<L>::from_le_slice(&buf)));
        });
        cell!($reg, t, "Uint::wrapping_rem_vartime_secret_dividend", w, "divisor#0", Gen::Any1, {
            let dv = public_modulus(w, 0);
            let d = u::<L>(&dv);
            move |s: &Slots| { bb(u::<L>(&s.a[0]).wrapping_rem_vartime(&d)); }
        });
        cell!($reg, t, "Int::div_rem_uint", w, "", Gen::Div, |s: &Slots| {
            let (x, y) = (u::<L>(&s.a[0]).as_int(), NonZero::new(u::<L>(&s.a[1])).unwrap());
            bb((x.div_rem_uint(&y), x.rem_uint(&y), x.div_rem_floor_uint(&y)));
        });
        cell!($reg, t, "Int::checked_div", w, "", Gen::Any2, |s: &Slots| {
            let (x, y): (Int<L>, Int<L>) = (u::<L>(&s.a[0]).as_int(), u::<L>(&s.a[1]).as_int());
            bb((x.checked_div(&y), x.checked_div_floor(&y)));
        });
        // ---- signed
        cell!($reg, t, "Int::abs_sign", w, "", Gen::Any1, |s: &Slots| { bb(u::<L>(&s.a[0]).as_int().abs_sign()); });
        cell!($reg, t, "Int::checked_add", w, "", Gen::Any2, |s: &Slots| { bb(u::<L>(&s.a[0]).as_int().checked_add(&u::<L>(&s.a[1]).as_int())); });
        cell!($reg, t, "Int::checked_sub", w, "", Gen::Any2, |s: &Slots| { bb(u::<L>(&s.a[0]).as_int().checked_sub(&u::<L>(&s.a[1]).as_int())); });
        cell!($reg, t, "Int::checked_mul", w, "", Gen::Any2, |s: &Slots| { bb(u::<L>(&s.a[0]).as_int().checked_mul(&u::<L>(&s.a[1]).as_int())); });
        cell!($reg, t, "Int::checked_neg", w, "", Gen::Any1, |s: &Slots| { bb(u::<L>(&s.a[0]).as_int().checked_neg()); });
        cell!($reg, t, "Int::checked_div_rem", w, "", Gen::Div, |s: &Slots| {
            let (x, y): (Int<L>, Int<L>) = (u::<L>(&s.a[0]).as_int(), u::<L>(&s.a[1]).as_int());
            bb(x.checked_div_rem(&NonZero::new(y).unwrap()));
        });
        cell!($reg, t, "Int::checked_div_rem_floor", w, "", Gen::Div, |s: &Slots| {
            let (x, y): (Int<L>, Int<L>) = (u::<L>(&s.a[0]).as_int(), u::<L>(&s.a[1]).as_int());
            bb(x.checked_div_rem_floor(&NonZero::new(y).unwrap()));
        });
        cell!($reg, t, "Int::ct_lt_gt_eq", w, "", Gen::Any2, |s: &Slots| {
            let (x, y): (Int<L>, Int<L>) = (u::<L>(&s.a[0]).as_int(), u::<L>(&s.a[1]).as_int());
            bb((x.ct_lt(&y), x.ct_gt(&y), x.ct_eq(&y)));
        });
        cell!($reg, t, "Int::overflowing_shr", w, "", Gen::Scalar(shifts(bits, true)), |s: &Slots| { bb(u::<L>(&s.a[0]).as_int().overflowing_shr(s.s[0] as u32)); });
    }};
}

/// Cells that need the per-width inverter machinery (PrecomputeInverter is only implemented for
/// concrete sizes): inversion, gcd, Montgomery forms.
macro_rules! uint_inv_cells {
    ($reg:ident, $L:literal, $tier:expr) => {{
        const L: usize = $L;
        let w = L;
        let t: u8 = $tier;
        let bits = 64 * L as u64;
        // ---- signed multiplication / sign handling (need concrete widths for the widened outputs)
        cell!($reg, t, "Int::split_mul", w, "", Gen::Any2, |s: &Slots| { bb(u::<L>(&s.a[0]).as_int().split_mul(&u::<L>(&s.a[1]).as_int())); });
        cell!($reg, t, "Int::widening_mul", w, "", Gen::Any2, |s: &Slots| { bb(u::<L>(&s.a[0]).as_int().widening_mul(&u::<L>(&s.a[1]).as_int())); });
        cell!($reg, t, "Int::widening_square", w, "", Gen::Any1, |s: &Slots| { bb(u::<L>(&s.a[0]).as_int().widening_square()); });
        cell!($reg, t, "Int::checked_square", w, "", Gen::Any1, |s: &Slots| { bb((u::<L>(&s.a[0]).as_int().checked_square(), u::<L>(&s.a[0]).as_int().wrapping_square(), u::<L>(&s.a[0]).as_int().saturating_square())); });
        cell!($reg, t, "Int::split_mul_uint", w, "", Gen::Any2, |s: &Slots| { bb(u::<L>(&s.a[0]).as_int().split_mul_uint(&u::<L>(&s.a[1]))); });
        cell!($reg, t, "Int::widening_mul_uint", w, "", Gen::Any2, |s: &Slots| { bb(u::<L>(&s.a[0]).as_int().widening_mul_uint(&u::<L>(&s.a[1]))); });
        cell!($reg, t, "Int::checked_mul_uint_right", w, "", Gen::Any2, |s: &Slots| { bb(u::<L>(&s.a[0]).as_int().checked_mul_uint_right(&u::<L>(&s.a[1]))); });
        cell!($reg, t, "Int::overflowing_add", w, "", Gen::Any2, |s: &Slots| { bb((u::<L>(&s.a[0]).as_int().overflowing_add(&u::<L>(&s.a[1]).as_int()), u::<L>(&s.a[0]).as_int().wrapping_add(&u::<L>(&s.a[1]).as_int()))); });
        cell!($reg, t, "Int::overflowing_neg", w, "", Gen::Any1, |s: &Slots| { bb((u::<L>(&s.a[0]).as_int().overflowing_neg(), u::<L>(&s.a[0]).as_int().wrapping_neg())); });
        cell!($reg, t, "Int::sign_queries", w, "", Gen::Any1, |s: &Slots| { let x = u::<L>(&s.a[0]).as_int(); bb((x.is_negative(), x.is_positive(), x.abs())); });
        cell!($reg, t, "Int::Ord::cmp", w, "", Gen::Any2, |s: &Slots| { let (x, y) = (u::<L>(&s.a[0]).as_int(), u::<L>(&s.a[1]).as_int()); bb((x.cmp(&y), x == y, x < y)); });
        cell!($reg, t, "Int::shl", w, "", Gen::Scalar(shifts(bits, false)), |s: &Slots| { bb(u::<L>(&s.a[0]).as_int().shl(s.s[0] as u32)); });
        cell!($reg, t, "Int::overflowing_shl", w, "", Gen::Scalar(shifts(bits, true)), |s: &Slots| { bb((u::<L>(&s.a[0]).as_int().overflowing_shl(s.s[0] as u32), u::<L>(&s.a[0]).as_int().wrapping_shl(s.s[0] as u32))); });
        cell!($reg, t, "Int::shr", w, "", Gen::Scalar(shifts(bits, false)), |s: &Slots| { bb((u::<L>(&s.a[0]).as_int().shr(s.s[0] as u32), u::<L>(&s.a[0]).as_int().wrapping_shr(s.s[0] as u32))); });
        cell!($reg, t, "Int::conditional_select", w, "", Gen::Any2, |s: &Slots| {
            let (x, y): (Int<L>, Int<L>) = (u::<L>(&s.a[0]).as_int(), u::<L>(&s.a[1]).as_int());
            bb(Int::<L>::conditional_select(&x, &y, x.ct_lt(&y)));
        });
        cell!($reg, t, "Uint::inv_mod2k", w, "", Gen::Scalar(vec![0, 1, 63, 64, 65, bits - 1, bits]), |s: &Slots| {
            let mut x = u::<L>(&s.a[0]);
            x = x.bitor(&Uint::<L>::ONE);
            bb(x.inv_mod2k(s.s[0] as u32));
        });
        for k in [1u32, 64, bits as u32] {
            cell!($reg, t, "Uint::inv_mod2k_vartime", w, format!("k={}", k), Gen::Any1, move |s: &Slots| { bb(u::<L>(&s.a[0]).inv_mod2k_vartime(k)); });
        }
        cell!($reg, t, "Uint::inv_odd_mod", w, "", Gen::Mod { odd: true }, |s: &Slots| { bb(u::<L>(&s.a[0]).inv_odd_mod(&Odd::new(u::<L>(&s.a[2])).unwrap())); });
        cell!($reg, t, "Uint::inv_mod", w, "", Gen::Mod { odd: false }, |s: &Slots| { bb(u::<L>(&s.a[0]).inv_mod(&u::<L>(&s.a[2]))); });
        cell!($reg, t, "Uint::gcd", w, "", Gen::Any2, |s: &Slots| { bb(u::<L>(&s.a[0]).gcd(&u::<L>(&s.a[1]))); });
        for mi in 0..2usize {
            let m = public_modulus(w, mi);
            let params = MontyParams::<L>::new(Odd::new(u::<L>(&m)).unwrap());
            let pubs = format!("modulus#{}", mi);
            let g = Gen::BelowPublic(m.clone());
            cell!($reg, t, "MontyForm::new", w, pubs, g.clone(), move |s: &Slots| { bb(MontyForm::<L>::new(&u::<L>(&s.a[0]), params)); });
            cell!($reg, t, "MontyForm::retrieve", w, pubs, g.clone(), move |s: &Slots| { bb(MontyForm::<L>::from_montgomery(u::<L>(&s.a[0]), params).retrieve()); });
            cell!($reg, t, "MontyForm::add", w, pubs, g.clone(), move |s: &Slots| {
                let (x, y) = (MontyForm::<L>::from_montgomery(u::<L>(&s.a[0]), params), MontyForm::<L>::from_montgomery(u::<L>(&s.a[1]), params));
                bb(x + y);
            });
            cell!($reg, t, "MontyForm::sub", w, pubs, g.clone(), move |s: &Slots| {
                let (x, y) = (MontyForm::<L>::from_montgomery(u::<L>(&s.a[0]), params), MontyForm::<L>::from_montgomery(u::<L>(&s.a[1]), params));
                bb(x - y);
            });
            cell!($reg, t, "MontyForm::neg", w, pubs, g.clone(), move |s: &Slots| { bb(-MontyForm::<L>::from_montgomery(u::<L>(&s.a[0]), params)); });
            cell!($reg, t, "MontyForm::mul", w, pubs, g.clone(), move |s: &Slots| {
                let (x, y) = (MontyForm::<L>::from_montgomery(u::<L>(&s.a[0]), params), MontyForm::<L>::from_montgomery(u::<L>(&s.a[1]), params));
                bb(x * y);
            });
            cell!($reg, t, "MontyForm::square", w, pubs, g.clone(), move |s: &Slots| { bb(MontyForm::<L>::from_montgomery(u::<L>(&s.a[0]), params).square()); });
            cell!($reg, t, "MontyForm::div_by_2", w, pubs, g.clone(), move |s: &Slots| { bb(MontyForm::<L>::from_montgomery(u::<L>(&s.a[0]), params).div_by_2()); });
            cell!($reg, t, "MontyForm::double", w, pubs, g.clone(), move |s: &Slots| { bb(MontyForm::<L>::from_montgomery(u::<L>(&s.a[0]), params).double()); });
            cell!($reg, t, "MontyForm::ct_eq_select", w, pubs, g.clone(), move |s: &Slots| {
                let (x, y) = (MontyForm::<L>::from_montgomery(u::<L>(&s.a[0]), params), MontyForm::<L>::from_montgomery(u::<L>(&s.a[1]), params));
                let c = x.ct_eq(&y);
                bb((c, MontyForm::<L>::conditional_select(&x, &y, c), x == y));
            });
            cell!($reg, t, "MontyForm::assign_ops", w, pubs, g.clone(), move |s: &Slots| {
                let (mut x, y) = (MontyForm::<L>::from_montgomery(u::<L>(&s.a[0]), params), MontyForm::<L>::from_montgomery(u::<L>(&s.a[1]), params));
                x += y;
                x *= y;
                x -= y;
                bb(x);
            });
            cell!($reg, t, "MontyForm::inv", w, pubs, g.clone(), move |s: &Slots| { bb(MontyForm::<L>::from_montgomery(u::<L>(&s.a[0]), params).inv()); });
            for eb in [1u32, 5, 64, 65] {
                if (eb as u64) <= bits && (L <= 4 || eb <= 5) {
                    // exponent value secret, its bit bound public
                    cell!($reg, t, "MontyForm::pow_bounded_exp", w, format!("modulus#{},exponent_bits={}", mi, eb), g.clone(), move |s: &Slots| {
                        bb(MontyForm::<L>::from_montgomery(u::<L>(&s.a[0]), params).pow_bounded_exp(&u::<L>(&s.a[2]), eb));
                    });
                }
            }
            if L <= 2 {
                cell!($reg, t, "MontyForm::pow", w, pubs, g.clone(), move |s: &Slots| { bb(MontyForm::<L>::from_montgomery(u::<L>(&s.a[0]), params).pow(&u::<L>(&s.a[2]))); });
            }
        }
    }};
}

use crypto_bigint::impl_modulus;
impl_modulus!(P256, crypto_bigint::U256, "ffffffff00000001000000000000000000000000ffffffffffffffffffffffff");
type CF = crypto_bigint::modular::ConstMontyForm<P256, 4>;

fn const_monty_cells(reg: &mut Vec<Cell>) {
    let m = vec![0xffffffffffffffffu64, 0x00000000ffffffff, 0, 0xffffffff00000001];
    let g = Gen::BelowPublic(m);
    let pubs = "modulus=P-256 (compile-time)";
    cell!(reg, 0, "ConstMontyForm::new", 4, pubs, g.clone(), |s: &Slots| { bb(CF::new(&u::<4>(&s.a[0]))); });
    cell!(reg, 0, "ConstMontyForm::retrieve", 4, pubs, g.clone(), |s: &Slots| { bb(CF::from_montgomery(u::<4>(&s.a[0])).retrieve()); });
    cell!(reg, 0, "ConstMontyForm::add", 4, pubs, g.clone(), |s: &Slots| { bb(CF::from_montgomery(u::<4>(&s.a[0])).add(&CF::from_montgomery(u::<4>(&s.a[1])))); });
    cell!(reg, 0, "ConstMontyForm::sub", 4, pubs, g.clone(), |s: &Slots| { bb(CF::from_montgomery(u::<4>(&s.a[0])).sub(&CF::from_montgomery(u::<4>(&s.a[1])))); });
    cell!(reg, 0, "ConstMontyForm::neg", 4, pubs, g.clone(), |s: &Slots| { bb(CF::from_montgomery(u::<4>(&s.a[0])).neg()); });
    cell!(reg, 0, "ConstMontyForm::double", 4, pubs, g.clone(), |s: &Slots| { bb(CF::from_montgomery(u::<4>(&s.a[0])).double()); });
    cell!(reg, 0, "ConstMontyForm::mul", 4, pubs, g.clone(), |s: &Slots| { bb(CF::from_montgomery(u::<4>(&s.a[0])).mul(&CF::from_montgomery(u::<4>(&s.a[1])))); });
    cell!(reg, 0, "ConstMontyForm::square", 4, pubs, g.clone(), |s: &Slots| { bb(CF::from_montgomery(u::<4>(&s.a[0])).square()); });
    cell!(reg, 0, "ConstMontyForm::div_by_2", 4, pubs, g.clone(), |s: &Slots| { bb(CF::from_montgomery(u::<4>(&s.a[0])).div_by_2()); });
    cell!(reg, 0, "ConstMontyForm::inv", 4, pubs, g.clone(), |s: &Slots| { bb(CF::from_montgomery(u::<4>(&s.a[0])).inv()); });
    cell!(reg, 0, "ConstMontyForm::ct_eq_select", 4, pubs, g.clone(), |s: &Slots| {
        let (x, y) = (CF::from_montgomery(u::<4>(&s.a[0])), CF::from_montgomery(u::<4>(&s.a[1])));
        let c = x.ct_eq(&y);
        bb((c, CF::conditional_select(&x, &y, c)));
    });
    for eb in [1u32, 5, 64, 65] {
        cell!(reg, 0, "ConstMontyForm::pow_bounded_exp", 4, format!("{},exponent_bits={}", pubs, eb), g.clone(), move |s: &Slots| {
            bb(CF::from_montgomery(u::<4>(&s.a[0])).pow_bounded_exp(&u::<4>(&s.a[2]), eb));
        });
    }
}

fn limb_cells(reg: &mut Vec<Cell>) {
    cell!(reg, 0, "Limb::adc", 1, "", Gen::Limbs3, |s: &Slots| { bb(Limb(s.s[0]).adc(Limb(s.s[1]), Limb(s.s[2] & 1))); });
    cell!(reg, 0, "Limb::sbb", 1, "", Gen::Limbs3, |s: &Slots| { bb(Limb(s.s[0]).sbb(Limb(s.s[1]), Limb(s.s[2] & 1))); });
    cell!(reg, 0, "Limb::mac", 1, "", Gen::Limbs3, |s: &Slots| { bb(Limb(s.s[0]).mac(Limb(s.s[1]), Limb(s.s[2]), Limb(s.s[0] ^ s.s[2]))); });
    cell!(reg, 0, "Limb::wrapping_ops", 1, "", Gen::Limbs3, |s: &Slots| {
        let (a, b) = (Limb(s.s[0]), Limb(s.s[1]));
        bb((a.wrapping_add(b), a.wrapping_sub(b), a.wrapping_mul(b), a.wrapping_neg(), a.saturating_add(b), a.saturating_sub(b)));
    });
    cell!(reg, 0, "Limb::checked_ops", 1, "", Gen::Limbs3, |s: &Slots| {
        let (a, b) = (Limb(s.s[0]), Limb(s.s[1]));
        bb((crypto_bigint::CheckedAdd::checked_add(&a, &b), crypto_bigint::CheckedSub::checked_sub(&a, &b), crypto_bigint::CheckedMul::checked_mul(&a, &b)));
    });
    cell!(reg, 0, "Limb::shl_shr", 1, "", Gen::Limbs3, |s: &Slots| {
        let a = Limb(s.s[0]);
        let k = (s.s[1] % 64) as u32;
        bb((a.shl(k), a.shr(k), a << k, a >> k));
    });
    cell!(reg, 0, "Limb::bit_ops", 1, "", Gen::Limbs3, |s: &Slots| {
        let (a, b) = (Limb(s.s[0]), Limb(s.s[1]));
        bb((a & b, a | b, a ^ b, !a));
    });
    cell!(reg, 0, "Limb::ct_cmp", 1, "", Gen::Limbs3, |s: &Slots| {
        let (a, b) = (Limb(s.s[0]), Limb(s.s[1]));
        bb((a.ct_eq(&b), a.ct_lt(&b), a.ct_gt(&b), a == b, a.cmp(&b), Limb::conditional_select(&a, &b, a.ct_lt(&b))));
    });
    cell!(reg, 0, "Limb::bits", 1, "", Gen::Limbs3, |s: &Slots| {
        let a = Limb(s.s[0]);
        bb((a.bits(), a.leading_zeros(), a.trailing_zeros(), a.trailing_ones(), Zero::is_zero(&a)));
    });
}

fn boxed_cells(reg: &mut Vec<Cell>, w: usize, t: u8) {
    let bits = 64 * w as u64;
    cell!(reg, t, "BoxedUint::adc", w, "", Gen::Any2, |s: &Slots| { bb(bx(&s.a[0]).adc(&bx(&s.a[1]), Limb::ONE)); });
    cell!(reg, t, "BoxedUint::sbb", w, "", Gen::Any2, |s: &Slots| { bb(bx(&s.a[0]).sbb(&bx(&s.a[1]), Limb::ONE)); });
    cell!(reg, t, "BoxedUint::wrapping_add", w, "", Gen::Any2, |s: &Slots| { bb(bx(&s.a[0]).wrapping_add(&bx(&s.a[1]))); });
    cell!(reg, t, "BoxedUint::wrapping_sub", w, "", Gen::Any2, |s: &Slots| { bb(bx(&s.a[0]).wrapping_sub(&bx(&s.a[1]))); });
    cell!(reg, t, "BoxedUint::checked_add", w, "", Gen::Any2, |s: &Slots| { bb(CheckedAdd::checked_add(&bx(&s.a[0]), &bx(&s.a[1]))); });
    cell!(reg, t, "BoxedUint::checked_sub", w, "", Gen::Any2, |s: &Slots| { bb(crypto_bigint::CheckedSub::checked_sub(&bx(&s.a[0]), &bx(&s.a[1]))); });
    cell!(reg, t, "BoxedUint::wrapping_neg", w, "", Gen::Any1, |s: &Slots| { bb(bx(&s.a[0]).wrapping_neg()); });
    cell!(reg, t, "BoxedUint::mul", w, "", Gen::Any2, |s: &Slots| { bb(bx(&s.a[0]).mul(&bx(&s.a[1]))); });
    cell!(reg, t, "BoxedUint::wrapping_mul", w, "", Gen::Any2, |s: &Slots| { bb(bx(&s.a[0]).wrapping_mul(&bx(&s.a[1]))); });
    cell!(reg, t, "BoxedUint::checked_mul", w, "", Gen::Any2, |s: &Slots| { bb(crypto_bigint::CheckedMul::checked_mul(&bx(&s.a[0]), &bx(&s.a[1]))); });
    cell!(reg, t, "BoxedUint::square", w, "", Gen::Any1, |s: &Slots| { bb(bx(&s.a[0]).square()); });
    cell!(reg, t, "BoxedUint::ct_eq", w, "", Gen::Any2, |s: &Slots| { bb(bx(&s.a[0]).ct_eq(&bx(&s.a[1]))); });
    cell!(reg, t, "BoxedUint::ct_lt", w, "", Gen::Any2, |s: &Slots| { bb(bx(&s.a[0]).ct_lt(&bx(&s.a[1]))); });
    cell!(reg, t, "BoxedUint::ct_gt", w, "", Gen::Any2, |s: &Slots| { bb(bx(&s.a[0]).ct_gt(&bx(&s.a[1]))); });
    cell!(reg, t, "BoxedUint::PartialEq::eq", w, "", Gen::Any2, |s: &Slots| { bb(bx(&s.a[0]) == bx(&s.a[1])); });
    cell!(reg, t, "BoxedUint::Ord::cmp", w, "", Gen::Any2, |s: &Slots| { bb(bx(&s.a[0]).cmp(&bx(&s.a[1]))); });
    cell!(reg, t, "BoxedUint::PartialOrd::lt", w, "", Gen::Any2, |s: &Slots| { bb(bx(&s.a[0]) < bx(&s.a[1])); });
    cell!(reg, t, "BoxedUint::PartialOrd::partial_cmp", w, "", Gen::Any2, |s: &Slots| { bb(bx(&s.a[0]).partial_cmp(&bx(&s.a[1]))); });
    cell!(reg, t, "BoxedUint::is_zero", w, "", Gen::Any1, |s: &Slots| { bb(bx(&s.a[0]).is_zero()); });
    cell!(reg, t, "BoxedUint::is_odd", w, "", Gen::Any1, |s: &Slots| { bb(crypto_bigint::Integer::is_odd(&bx(&s.a[0]))); });
    cell!(reg, t, "BoxedUint::ct_select", w, "", Gen::Any2, |s: &Slots| {
        let (x, y) = (bx(&s.a[0]), bx(&s.a[1]));
        let c = x.ct_lt(&y);
        bb(<BoxedUint as crypto_bigint::ConstantTimeSelect>::ct_select(&x, &y, c));
    });
    cell!(reg, t, "NonZero<BoxedUint>::new", w, "", Gen::Any1, |s: &Slots| { bb(NonZero::new(bx(&s.a[0]))); });
    cell!(reg, t, "Odd<BoxedUint>::new", w, "", Gen::Any1, |s: &Slots| { bb(Odd::new(bx(&s.a[0]))); });
    cell!(reg, t, "BoxedUint::bits", w, "", Gen::Any1, |s: &Slots| { bb(bx(&s.a[0]).bits()); });
    cell!(reg, t, "BoxedUint::leading_zeros", w, "", Gen::Any1, |s: &Slots| { bb(bx(&s.a[0]).leading_zeros()); });
    cell!(reg, t, "BoxedUint::trailing_zeros", w, "", Gen::Any1, |s: &Slots| { bb(bx(&s.a[0]).trailing_zeros()); });
    cell!(reg, t, "BoxedUint::trailing_ones", w, "", Gen::Any1, |s: &Slots| { bb(bx(&s.a[0]).trailing_ones()); });
    cell!(reg, t, "BoxedUint::bit", w, "", Gen::Scalar(shifts(bits, true)), |s: &Slots| { bb(bx(&s.a[0]).bit(s.s[0] as u32)); });
    cell!(reg, t, "BoxedUint::bitand_or_xor_not", w, "", Gen::Any2, |s: &Slots| {
        let (x, y) = (bx(&s.a[0]), bx(&s.a[1]));
        bb((x.bitand(&y), x.bitor(&y), x.bitxor(&y), x.not()));
    });
    cell!(reg, t, "BoxedUint::shl", w, "", Gen::Scalar(shifts(bits, false)), |s: &Slots| { bb(bx(&s.a[0]).shl(s.s[0] as u32)); });
    cell!(reg, t, "BoxedUint::shr", w, "", Gen::Scalar(shifts(bits, false)), |s: &Slots| { bb(bx(&s.a[0]).shr(s.s[0] as u32)); });
    cell!(reg, t, "BoxedUint::overflowing_shl", w, "", Gen::Scalar(shifts(bits, true)), |s: &Slots| { bb(bx(&s.a[0]).overflowing_shl(s.s[0] as u32)); });
    cell!(reg, t, "BoxedUint::overflowing_shr", w, "", Gen::Scalar(shifts(bits, true)), |s: &Slots| { bb(bx(&s.a[0]).overflowing_shr(s.s[0] as u32)); });
    cell!(reg, t, "BoxedUint::wrapping_shl", w, "", Gen::Scalar(shifts(bits, true)), |s: &Slots| { bb(bx(&s.a[0]).wrapping_shl(s.s[0] as u32)); });
    cell!(reg, t, "BoxedUint::wrapping_shr", w, "", Gen::Scalar(shifts(bits, true)), |s: &Slots| { bb(bx(&s.a[0]).wrapping_shr(s.s[0] as u32)); });
    for k in [0u32, 1, 64, (bits - 1) as u32] {
        if (k as u64) < bits {
            cell!(reg, t, "BoxedUint::shl_vartime", w, format!("shift={}", k), Gen::Any1, move |s: &Slots| { bb(bx(&s.a[0]).shl_vartime(k)); });
            cell!(reg, t, "BoxedUint::shr_vartime", w, format!("shift={}", k), Gen::Any1, move |s: &Slots| { bb(bx(&s.a[0]).shr_vartime(k)); });
        }
    }
    cell!(reg, t, "BoxedUint::div_rem", w, "", Gen::Div, |s: &Slots| { bb(bx(&s.a[0]).div_rem(&NonZero::new(bx(&s.a[1])).unwrap())); });
    cell!(reg, t, "BoxedUint::rem", w, "", Gen::Div, |s: &Slots| { bb(bx(&s.a[0]).rem(&NonZero::new(bx(&s.a[1])).unwrap())); });
    cell!(reg, t, "BoxedUint::checked_div", w, "", Gen::Any2, |s: &Slots| { bb(bx(&s.a[0]).checked_div(&bx(&s.a[1]))); });
    cell!(reg, t, "BoxedUint::div_rem_limb", w, "", Gen::Div, |s: &Slots| { bb(bx(&s.a[0]).div_rem_limb(NonZero::new(Limb(s.a[1][0] | 1)).unwrap())); });
    cell!(reg, t, "BoxedUint::rem_limb", w, "", Gen::Div, |s: &Slots| { bb(bx(&s.a[0]).rem_limb(NonZero::new(Limb(s.a[1][0] | 1)).unwrap())); });
    for d in 0..2usize {
        let dv = public_modulus(w, d);
        let nz = NonZero::new(bx(&dv)).unwrap();
        let nz2 = nz.clone();
        cell!(reg, t, "BoxedUint::div_rem_vartime", w, format!("divisor#{}", d), Gen::Any1, move |s: &Slots| { bb(bx(&s.a[0]).div_rem_vartime(&nz)); });
        cell!(reg, t, "BoxedUint::rem_vartime", w, format!("divisor#{}", d), Gen::Any1, move |s: &Slots| { bb(bx(&s.a[0]).rem_vartime(&nz2)); });
    }
    cell!(reg, t, "BoxedUint::add_mod", w, "", Gen::Mod { odd: false }, |s: &Slots| { bb(bx(&s.a[0]).add_mod(&bx(&s.a[1]), &bx(&s.a[2]))); });
    cell!(reg, t, "BoxedUint::sub_mod", w, "", Gen::Mod { odd: false }, |s: &Slots| { bb(bx(&s.a[0]).sub_mod(&bx(&s.a[1]), &bx(&s.a[2]))); });
    cell!(reg, t, "BoxedUint::neg_mod", w, "", Gen::Mod { odd: false }, |s: &Slots| { bb(bx(&s.a[0]).neg_mod(&bx(&s.a[2]))); });
    cell!(reg, t, "BoxedUint::double_mod", w, "", Gen::Mod { odd: false }, |s: &Slots| { bb(bx(&s.a[0]).double_mod(&bx(&s.a[2]))); });
    cell!(reg, t, "BoxedUint::mul_mod", w, "", Gen::Mod { odd: true }, |s: &Slots| { bb(bx(&s.a[0]).mul_mod(&bx(&s.a[1]), &bx(&s.a[2]))); });
    cell!(reg, t, "BoxedUint::mul_mod_special", w, "c=189", Gen::Any2, |s: &Slots| { bb(bx(&s.a[0]).mul_mod_special(&bx(&s.a[1]), Limb(189))); });
    cell!(reg, t, "BoxedUint::sqrt", w, "", Gen::Any1, |s: &Slots| { bb(bx(&s.a[0]).sqrt()); });
    cell!(reg, t, "BoxedUint::checked_sqrt", w, "", Gen::Any1, |s: &Slots| { bb(bx(&s.a[0]).checked_sqrt()); });
    cell!(reg, t, "BoxedUint::inv_mod2k", w, "", Gen::Scalar(vec![0, 1, 63, 64, 65, bits - 1, bits]), |s: &Slots| {
        let mut v = s.a[0].clone();
        v[0] |= 1;
        bb(bx(&v).inv_mod2k(s.s[0] as u32));
    });
    cell!(reg, t, "BoxedUint::inv_odd_mod", w, "", Gen::Mod { odd: true }, |s: &Slots| { bb(bx(&s.a[0]).inv_odd_mod(&Odd::new(bx(&s.a[2])).unwrap())); });
    cell!(reg, t, "BoxedUint::inv_mod", w, "", Gen::Mod { odd: false }, |s: &Slots| { bb(bx(&s.a[0]).inv_mod(&bx(&s.a[2]))); });
    cell!(reg, t, "BoxedUint::gcd", w, "", Gen::Any2, |s: &Slots| { bb(Gcd::gcd(&bx(&s.a[0]), &bx(&s.a[1]))); });
    cell!(reg, t, "BoxedUint::is_one", w, "", Gen::Any1, |s: &Slots| { bb(bx(&s.a[0]).is_one()); });
    cell!(reg, t, "BoxedUint::ct_assign", w, "", Gen::Any2, |s: &Slots| {
        let (mut x, y) = (bx(&s.a[0]), bx(&s.a[1]));
        let c = x.ct_gt(&y);
        <BoxedUint as crypto_bigint::ConstantTimeSelect>::ct_assign(&mut x, &y, c);
        bb(x);
    });
    cell!(reg, t, "BoxedUint::from_be_slice", w, "", Gen::Any1, |s: &Slots| {
        let x = bx(&s.a[0]);
        let b = x.to_be_bytes();
        bb((BoxedUint::from_be_slice(&b, x.bits_precision()).ok(), x.to_le_bytes()));
    });
    cell!(reg, t, "BoxedUint::widen_shorten", w, "", Gen::Any1, |s: &Slots| {
        let x = bx(&s.a[0]);
        bb((x.widen(x.bits_precision() + 64), x.shorten(64)));
    });
    cell!(reg, t, "Wrapping<BoxedUint>::ops", w, "", Gen::Any2, |s: &Slots| {
        let (x, y) = (crypto_bigint::Wrapping(bx(&s.a[0])), crypto_bigint::Wrapping(bx(&s.a[1])));
        bb((&x + &y, &x - &y, &x * &y));
    });
    cell!(reg, t, "BoxedUint::neg_mod_special", w, "c=189", Gen::Any1, |s: &Slots| { bb(bx(&s.a[0]).neg_mod_special(Limb(189))); });
    cell!(reg, t, "BoxedUint::sub_mod_special", w, "c=189", Gen::Any2, |s: &Slots| { bb(bx(&s.a[0]).sub_mod_special(&bx(&s.a[1]), Limb(189))); });
    cell!(reg, t, "BoxedUint::to_be_bytes", w, "", Gen::Any1, |s: &Slots| { bb(bx(&s.a[0]).to_be_bytes()); });
    for mi in 0..2usize {
        let m = public_modulus(w, mi);
        let params = BoxedMontyParams::new(Odd::new(bx(&m)).unwrap());
        let pubs = format!("modulus#{}", mi);
        let g = Gen::BelowPublic(m.clone());
        let p = params.clone();
        cell!(reg, t, "BoxedMontyForm::new", w, pubs, g.clone(), move |s: &Slots| { bb(BoxedMontyForm::new(bx(&s.a[0]), p.clone())); });
        let p = params.clone();
        cell!(reg, t, "BoxedMontyForm::retrieve", w, pubs, g.clone(), move |s: &Slots| { bb(BoxedMontyForm::from_montgomery(bx(&s.a[0]), p.clone()).retrieve()); });
        let p = params.clone();
        cell!(reg, t, "BoxedMontyForm::add", w, pubs, g.clone(), move |s: &Slots| {
            let (x, y) = (BoxedMontyForm::from_montgomery(bx(&s.a[0]), p.clone()), BoxedMontyForm::from_montgomery(bx(&s.a[1]), p.clone()));
            bb(&x + &y);
        });
        let p = params.clone();
        cell!(reg, t, "BoxedMontyForm::sub", w, pubs, g.clone(), move |s: &Slots| {
            let (x, y) = (BoxedMontyForm::from_montgomery(bx(&s.a[0]), p.clone()), BoxedMontyForm::from_montgomery(bx(&s.a[1]), p.clone()));
            bb(&x - &y);
        });
        let p = params.clone();
        cell!(reg, t, "BoxedMontyForm::neg", w, pubs, g.clone(), move |s: &Slots| { bb(-&BoxedMontyForm::from_montgomery(bx(&s.a[0]), p.clone())); });
        let p = params.clone();
        cell!(reg, t, "BoxedMontyForm::mul", w, pubs, g.clone(), move |s: &Slots| {
            let (x, y) = (BoxedMontyForm::from_montgomery(bx(&s.a[0]), p.clone()), BoxedMontyForm::from_montgomery(bx(&s.a[1]), p.clone()));
            bb(&x * &y);
        });
        let p = params.clone();
        cell!(reg, t, "BoxedMontyForm::square", w, pubs, g.clone(), move |s: &Slots| { bb(BoxedMontyForm::from_montgomery(bx(&s.a[0]), p.clone()).square()); });
        let p = params.clone();
        cell!(reg, t, "BoxedMontyForm::div_by_2", w, pubs, g.clone(), move |s: &Slots| { bb(BoxedMontyForm::from_montgomery(bx(&s.a[0]), p.clone()).div_by_2()); });
        let p = params.clone();
        cell!(reg, t, "BoxedMontyForm::double", w, pubs, g.clone(), move |s: &Slots| { bb(BoxedMontyForm::from_montgomery(bx(&s.a[0]), p.clone()).double()); });
        let p = params.clone();
        cell!(reg, t, "BoxedMontyForm::assign_ops", w, pubs, g.clone(), move |s: &Slots| {
            let (mut x, y) = (BoxedMontyForm::from_montgomery(bx(&s.a[0]), p.clone()), BoxedMontyForm::from_montgomery(bx(&s.a[1]), p.clone()));
            x += &y;
            x *= &y;
            x -= &y;
            bb(x);
        });
        let p = params.clone();
        cell!(reg, t, "BoxedMontyForm::PartialEq::eq", w, pubs, g.clone(), move |s: &Slots| {
            let (x, y) = (BoxedMontyForm::from_montgomery(bx(&s.a[0]), p.clone()), BoxedMontyForm::from_montgomery(bx(&s.a[1]), p.clone()));
            bb(x == y);
        });
        if w <= 2 {
            let p = params.clone();
            cell!(reg, t, "BoxedMontyForm::pow", w, pubs, g.clone(), move |s: &Slots| { bb(BoxedMontyForm::from_montgomery(bx(&s.a[0]), p.clone()).pow(&bx(&s.a[2]))); });
        }
        let p = params.clone();
        cell!(reg, t, "BoxedMontyForm::invert", w, pubs, g.clone(), move |s: &Slots| { bb(BoxedMontyForm::from_montgomery(bx(&s.a[0]), p.clone()).invert()); });
        for eb in [1u32, 5, 64, 65] {
            if (eb as u64) <= bits && (w <= 4 || eb <= 5) {
                let p = params.clone();
                cell!(reg, t, "BoxedMontyForm::pow_bounded_exp", w, format!("modulus#{},exponent_bits={}", mi, eb), g.clone(), move |s: &Slots| {
                    bb(BoxedMontyForm::from_montgomery(bx(&s.a[0]), p.clone()).pow_bounded_exp(&bx(&s.a[2]), eb));
                });
            }
        }
    }
}

pub fn registry() -> Vec<Cell> {
    let mut reg: Vec<Cell> = Vec::new();
    limb_cells(&mut reg);
    const_monty_cells(&mut reg);
    uint_cells!(reg, 1, 1);
    uint_cells!(reg, 2, 0);
    uint_cells!(reg, 4, 0);
    uint_cells!(reg, 8, 1);
    uint_cells!(reg, 16, 1);
    uint_inv_cells!(reg, 1, 1);
    uint_inv_cells!(reg, 2, 0);
    uint_inv_cells!(reg, 4, 0);
    uint_inv_cells!(reg, 8, 1);
    boxed_cells(&mut reg, 1, 1);
    boxed_cells(&mut reg, 2, 0);
    boxed_cells(&mut reg, 4, 0);
    boxed_cells(&mut reg, 9, 1);
    reg
}
