#!/usr/bin/env python3
import json,sys
j=json.load(open(sys.argv[1]))
print('eval',j['evaluations'],'distinct',j['distinct_nontrivial'],'wall',round(j['wall_s'],1),'missing',j['mandatory_missing'])
print('ops',j['ops'])
cl=j['classes']; print('classes',{k:cl[k] for k in sorted(cl)})
print('viol keys',j['violation_keys'])
for v in j['violations'][:int(sys.argv[2]) if len(sys.argv)>2 else 8]: print(' *',v['key'],'|',v['detail'][:300],'|',json.dumps(v['case'])[:400])
print('inconclusive',j['inconclusive'])
