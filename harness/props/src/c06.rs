//! C06 — comparison, equality, hashing and conditional selection are mutually coherent.
use crate::dispatch;
use crate::util::*;
use crypto_bigint::subtle::{
    Choice, ConditionallyNegatable, ConditionallySelectable, ConstantTimeEq, ConstantTimeGreater, ConstantTimeLess,
};
use crypto_bigint::{
    BoxedUint, ConstCtOption, ConstantTimeSelect, Int, Integer, Limb, NonZero, Odd, Uint, Wrapping, Zero as CZero,
};
use std::cmp::Ordering;
use std::hash::{Hash, Hasher};

pub const DEF: PropDef = PropDef {
    id: "C06",
    workload,
    ops,
    mandatory: &["equal", "differ_low_only", "differ_high_only", "sign_bit_only", "mixed_precision_equal", "mixed_precision_less", "mixed_precision_greater", "zero_vs_extreme", "both_top_bits_set", "monty_select_different_bit_lengths"],
    rule: "cases are pairs (a, b) plus a choice bit for Limb, Uint (1,2,3,4,6,8,16 limbs), Int (same), BoxedUint (1..=12 limbs, equal and different precision incl. zero-padded equal values), NonZero/Odd wrappers and option types; pairs are derived by relation (equal, differ only in lowest / highest limb / sign bit, 0 vs MIN/MAX, +-1, complement); every predicate (ct_eq/ne/lt/gt, ==, <, <=, cmp, partial_cmp, cmp_vartime, eq_vartime, is_zero/is_one/is_odd/is_even/is_nonzero, is_min/is_max/is_negative/is_positive) is checked against the mathematical order AND a == b => hash(a) == hash(b) with two hashers; select/assign/swap/negate are checked bitwise for both choice values. non-trivial = named relation class; distinct by hash of (op, widths, operands)",
};

pub fn ops() -> Vec<(&'static str, Checker)> {
    vec![
        ("limb.cmp", c_limb),
        ("uint.cmp", c_uint),
        ("int.cmp", c_int),
        ("boxed.cmp", c_boxed),
        ("uint.select", c_uint_select),
        ("boxed.select", c_boxed_select),
        ("option", c_option),
        ("monty.select", c_monty_select),
    ]
}

/// Conditional select / assign / swap on Montgomery parameters and forms of two DIFFERENT moduli:
/// the result must be exactly the chosen operand (every field), never a mixture.
fn monty_select<const L: usize>(c: &Case, rep: &mut Rep) {
    use crypto_bigint::modular::{MontyForm, MontyParams};
    let (m1, m2, x1, x2) = (&c.a[0], &c.a[1], &c.a[2], &c.a[3]);
    rep.class("monty_select_distinct_moduli");
    if bits_of(m1) != bits_of(m2) {
        rep.class("monty_select_different_bit_lengths");
    }
    let (p1, p2) = (MontyParams::<L>::new_vartime(od::<L>(m1)), MontyParams::<L>::new_vartime(od::<L>(m2)));
    let (f1, f2) = (MontyForm::<L>::new(&u::<L>(x1), p1), MontyForm::<L>::new(&u::<L>(x2), p2));
    for bit in 0..2u8 {
        let ch = Choice::from(bit);
        let (wp, wf) = if bit == 1 { (p2, f2) } else { (p1, f1) };
        let (op, of) = if bit == 1 { (p1, f1) } else { (p2, f2) };
        let sp = MontyParams::<L>::conditional_select(&p1, &p2, ch);
        if sp != wp || sp.modulus() != wp.modulus() {
            rep.fail("MontyParams::conditional_select", format!("choice {}: result is not the chosen operand: {:?} vs {:?}", bit, sp, wp));
        }
        let mut t = p1;
        t.conditional_assign(&p2, ch);
        if t != wp {
            rep.fail("MontyParams::conditional_assign", format!("choice {}: {:?} vs {:?}", bit, t, wp));
        }
        let sf = MontyForm::<L>::conditional_select(&f1, &f2, ch);
        if sf != wf || sf.retrieve() != wf.retrieve() || sf.params() != wf.params() {
            rep.fail("MontyForm::conditional_select", format!("choice {}: result is not the chosen operand: {:?} vs {:?}", bit, sf, wf));
        }
        let mut t = f1;
        t.conditional_assign(&f2, ch);
        if t != wf || t.params() != wf.params() {
            rep.fail("MontyForm::conditional_assign", format!("choice {}: {:?} vs {:?}", bit, t, wf));
        }
        let (mut a, mut b) = (f1, f2);
        MontyForm::<L>::conditional_swap(&mut a, &mut b, ch);
        if a != wf || b != of || a.params() != wf.params() || b.params() != of.params() {
            rep.fail("MontyForm::conditional_swap", format!("choice {}: ({:?}, {:?})", bit, a, b));
        }
        let (mut a, mut b) = (p1, p2);
        MontyParams::<L>::conditional_swap(&mut a, &mut b, ch);
        if a != wp || b != op {
            rep.fail("MontyParams::conditional_swap", format!("choice {}: ({:?}, {:?})", bit, a, b));
        }
        // the selected form must still compute in its own ring
        let sq = sf.square().retrieve();
        let want = (to_big(&ul(&wf.retrieve())) * to_big(&ul(&wf.retrieve()))) % to_big(if bit == 1 { m2 } else { m1 });
        if to_big(&ul(&sq)) != want {
            rep.fail("MontyForm::conditional_select.usable", format!("choice {}: square of the selected value is wrong", bit));
        }
    }
}
fn c_monty_select(c: &Case, rep: &mut Rep) {
    match c.w[0] {
        1 => monty_select::<1>(c, rep),
        2 => monty_select::<2>(c, rep),
        4 => monty_select::<4>(c, rep),
        w => panic!("harness: width {}", w),
    }
}

/// transparent hasher that records exactly what was fed
#[derive(Default)]
struct Rec(Vec<u8>);
impl Hasher for Rec {
    fn finish(&self) -> u64 {
        0
    }
    fn write(&mut self, b: &[u8]) {
        self.0.extend_from_slice(b);
    }
}
fn h_std<T: Hash>(x: &T) -> u64 {
    let mut h = std::collections::hash_map::DefaultHasher::new();
    x.hash(&mut h);
    h.finish()
}
fn h_rec<T: Hash>(x: &T) -> Vec<u8> {
    let mut h = Rec::default();
    x.hash(&mut h);
    h.0
}

fn class_pair(a: &[u64], b: &[u64], rep: &mut Rep) {
    let n = a.len().min(b.len());
    let (ab, bb_) = (to_big(a), to_big(b));
    if ab == bb_ {
        rep.class("equal");
        return;
    }
    if a.len() == b.len() {
        let diff: Vec<usize> = (0..n).filter(|&i| a[i] != b[i]).collect();
        if diff == [0] {
            rep.class("differ_low_only");
        }
        if diff == [n - 1] {
            rep.class("differ_high_only");
            if a[n - 1] ^ b[n - 1] == 1 << 63 {
                rep.class("sign_bit_only");
            }
        }
        if a[n - 1] >> 63 == 1 && b[n - 1] >> 63 == 1 {
            rep.class("both_top_bits_set");
        }
    }
    if (is_zero(a) || is_zero(b)) && (a.iter().all(|&x| x == u64::MAX) || b.iter().all(|&x| x == u64::MAX) || bits_of(a) == 64 * a.len() || bits_of(b) == 64 * b.len()) {
        rep.class("zero_vs_extreme");
    }
    rep.nontrivial();
}

macro_rules! check_order {
    ($rep:expr, $tag:expr, $x:expr, $y:expr, $ord:expr) => {{
        let (x, y, ord): (_, _, Ordering) = (&$x, &$y, $ord);
        let t = $tag;
        let exp_eq = ord == Ordering::Equal;
        let exp_lt = ord == Ordering::Less;
        let exp_gt = ord == Ordering::Greater;
        let mut bad: Vec<String> = Vec::new();
        if bool::from(x.ct_eq(y)) != exp_eq { bad.push("ct_eq".into()); }
        if bool::from(x.ct_ne(y)) == exp_eq { bad.push("ct_ne".into()); }
        if bool::from(x.ct_lt(y)) != exp_lt { bad.push("ct_lt".into()); }
        if bool::from(x.ct_gt(y)) != exp_gt { bad.push("ct_gt".into()); }
        if (x == y) != exp_eq { bad.push("op_eq".into()); }
        if (x != y) == exp_eq { bad.push("op_ne".into()); }
        if (x < y) != exp_lt { bad.push("op_lt".into()); }
        if (x > y) != exp_gt { bad.push("op_gt".into()); }
        if (x <= y) != (exp_lt || exp_eq) { bad.push("op_le".into()); }
        if (x >= y) != (exp_gt || exp_eq) { bad.push("op_ge".into()); }
        match catch(|| Ord::cmp(x, y)) {
            Ok(o) => if o != ord { bad.push(format!("cmp={:?}", o)); },
            Err(m) => bad.push(format!("cmp.{}", panic_sig(&m))),
        }
        match catch(|| PartialOrd::partial_cmp(x, y)) {
            Ok(o) => if o != Some(ord) { bad.push(format!("partial_cmp={:?}", o)); },
            Err(m) => bad.push(format!("partial_cmp.{}", panic_sig(&m))),
        }
        if x.cmp_vartime(y) != ord { bad.push("cmp_vartime".into()); }
        // symmetric direction
        if bool::from(y.ct_lt(x)) != exp_gt { bad.push("ct_lt_swapped".into()); }
        if bool::from(y.ct_gt(x)) != exp_lt { bad.push("ct_gt_swapped".into()); }
        if y.cmp_vartime(x) != ord.reverse() { bad.push("cmp_vartime_swapped".into()); }
        for b in bad {
            let head = b.split('=').next().unwrap_or("").to_string();
            $rep.fail(&format!("{}.{}", t, head), format!("{} disagrees with the mathematical order {:?}", b, ord));
        }
    }};
}

macro_rules! check_hash {
    ($rep:expr, $tag:expr, $x:expr, $y:expr, $eq:expr) => {{
        if $eq {
            if h_std(&$x) != h_std(&$y) {
                $rep.fail(&format!("{}.eq_implies_hash_eq", $tag), "values compare equal but DefaultHasher hashes differ".into());
            }
            if h_rec(&$x) != h_rec(&$y) {
                $rep.fail(&format!("{}.eq_implies_hash_eq_recording", $tag), "values compare equal but feed different bytes to the hasher".into());
            }
        }
    }};
}

fn c_limb(c: &Case, rep: &mut Rep) {
    let (a, b) = (c.s[0], c.s[1]);
    class_pair(&[a], &[b], rep);
    let (x, y) = (Limb(a), Limb(b));
    let ord = a.cmp(&b);
    check_order!(rep, "Limb", x, y, ord);
    if x.eq_vartime(&y) != (a == b) {
        rep.fail("Limb.eq_vartime", "mismatch".into());
    }
    check_hash!(rep, "Limb", x, y, a == b);
    if bool::from(x.is_odd()) != (a & 1 == 1) {
        rep.fail("Limb.is_odd", "mismatch".into());
    }
    if bool::from(CZero::is_zero(&x)) != (a == 0) {
        rep.fail("Limb.is_zero", "mismatch".into());
    }
    if num_traits::Zero::is_zero(&x) != (a == 0) || num_traits::One::is_one(&x) != (a == 1) {
        rep.fail("Limb.num_traits_is_zero_one", "mismatch".into());
    }
    for ch in [0u8, 1] {
        let want = if ch == 1 { b } else { a };
        let choice = Choice::from(ch);
        if Limb::conditional_select(&x, &y, choice).0 != want || <Limb as ConstantTimeSelect>::ct_select(&x, &y, choice).0 != want {
            rep.fail("Limb.select", format!("choice {}", ch));
        }
        let mut t = x;
        t.conditional_assign(&y, choice);
        let mut t2 = x;
        ConstantTimeSelect::ct_assign(&mut t2, &y, choice);
        if t.0 != want || t2.0 != want {
            rep.fail("Limb.assign", format!("choice {}", ch));
        }
        let (mut p, mut q) = (x, y);
        Limb::conditional_swap(&mut p, &mut q, choice);
        let (mut p2, mut q2) = (x, y);
        ConstantTimeSelect::ct_swap(&mut p2, &mut q2, choice);
        let ws = if ch == 1 { (b, a) } else { (a, b) };
        if (p.0, q.0) != ws || (p2.0, q2.0) != ws {
            rep.fail("Limb.swap", format!("choice {}", ch));
        }
    }
}

fn uint_cmp<const L: usize>(c: &Case, rep: &mut Rep) {
    let (a, b) = (&c.a[0], &c.a[1]);
    class_pair(a, b, rep);
    let (x, y) = (u::<L>(a), u::<L>(b));
    let ord = to_big(a).cmp(&to_big(b));
    check_order!(rep, "Uint", x, y, ord);
    check_hash!(rep, "Uint", x, y, ord == Ordering::Equal);
    let ab = to_big(a);
    for (n, got, want) in [
        ("Uint.is_zero", bool::from(CZero::is_zero(&x)), ab.is_zero()),
        ("Uint.is_odd", bool::from(Integer::is_odd(&x)), a[0] & 1 == 1),
        ("Uint.is_even", bool::from(Integer::is_even(&x)), a[0] & 1 == 0),
        ("Uint.num_traits_is_zero", num_traits::Zero::is_zero(&x), ab.is_zero()),
        ("Uint.num_traits_is_one", num_traits::One::is_one(&x), ab.is_one()),
        ("Uint.to_nz.is_some", cct(x.to_nz()).is_some(), !ab.is_zero()),
        ("Uint.to_odd.is_some", cct(x.to_odd()).is_some(), a[0] & 1 == 1),
    ] {
        if got != want {
            rep.fail(n, format!("got {} want {}", got, want));
        }
    }
    // wrappers compare like their contents
    if !ab.is_zero() && !is_zero(b) {
        let (nx, ny) = (nz::<L>(a), nz::<L>(b));
        if nx.cmp(&ny) != ord || (nx == ny) != (ord == Ordering::Equal) || bool::from(nx.ct_eq(&ny)) != (ord == Ordering::Equal) {
            rep.fail("NonZero<Uint>.cmp", "disagrees".into());
        }
        check_hash!(rep, "NonZero<Uint>", nx, ny, ord == Ordering::Equal);
    }
    if a[0] & 1 == 1 && b[0] & 1 == 1 {
        let (ox, oy) = (od::<L>(a), od::<L>(b));
        if ox.cmp(&oy) != ord || (ox == oy) != (ord == Ordering::Equal) || bool::from(ox.ct_eq(&oy)) != (ord == Ordering::Equal) {
            rep.fail("Odd<Uint>.cmp", "disagrees".into());
        }
        check_hash!(rep, "Odd<Uint>", ox, oy, ord == Ordering::Equal);
    }
    let (wx, wy) = (Wrapping(x), Wrapping(y));
    if bool::from(wx.ct_eq(&wy)) != (ord == Ordering::Equal) || (wx == wy) != (ord == Ordering::Equal) || wx.cmp(&wy) != ord {
        rep.fail("Wrapping<Uint>.cmp", "disagrees".into());
    }
}
fn c_uint(c: &Case, rep: &mut Rep) {
    dispatch!(c.w[0], [1, 2, 3, 4, 6, 8, 16], uint_cmp(c, rep))
}

fn int_cmp<const L: usize>(c: &Case, rep: &mut Rep) {
    let (a, b) = (&c.a[0], &c.a[1]);
    class_pair(a, b, rep);
    let (x, y): (Int<L>, Int<L>) = (i::<L>(a), i::<L>(b));
    let (ai, bi) = (to_bigint(a), to_bigint(b));
    let ord = ai.cmp(&bi);
    if (ai < BigInt::zero()) != (bi < BigInt::zero()) {
        rep.class("opposite_signs");
    }
    check_order!(rep, "Int", x, y, ord);
    check_hash!(rep, "Int", x, y, ord == Ordering::Equal);
    let min = {
        let mut v = vec![0u64; L];
        v[L - 1] = 1 << 63;
        v
    };
    let max: Vec<u64> = min.iter().map(|x| !x).collect();
    for (n, got, want) in [
        ("Int.is_negative", bool::from(x.is_negative()), ai < BigInt::zero()),
        ("Int.is_positive", bool::from(x.is_positive()), ai > BigInt::zero()),
        ("Int.is_min", bool::from(x.is_min()), *a == min),
        ("Int.is_max", bool::from(x.is_max()), *a == max),
        ("Int.is_zero", bool::from(CZero::is_zero(&x)), ai.is_zero()),
    ] {
        if got != want {
            rep.fail(n, format!("got {} want {}", got, want));
        }
    }
    for ch in [0u8, 1] {
        let want = if ch == 1 { b } else { a };
        let choice = Choice::from(ch);
        if il(&Int::conditional_select(&x, &y, choice)) != *want {
            rep.fail("Int.conditional_select", format!("choice {}", ch));
        }
        let mut t = x;
        t.conditional_assign(&y, choice);
        if il(&t) != *want {
            rep.fail("Int.conditional_assign", format!("choice {}", ch));
        }
    }
}
fn c_int(c: &Case, rep: &mut Rep) {
    dispatch!(c.w[0], [1, 2, 3, 4, 6, 8, 16], int_cmp(c, rep))
}

fn c_boxed(c: &Case, rep: &mut Rep) {
    let (a, b) = (&c.a[0], &c.a[1]);
    let (ab, bb_) = (to_big(a), to_big(b));
    let ord = ab.cmp(&bb_);
    if a.len() != b.len() {
        match ord {
            Ordering::Equal => rep.class("mixed_precision_equal"),
            Ordering::Less => rep.class("mixed_precision_less"),
            Ordering::Greater => rep.class("mixed_precision_greater"),
        }
    } else {
        class_pair(a, b, rep);
    }
    let (x, y) = (bx(a), bx(b));
    check_order!(rep, "BoxedUint", x, y, ord);
    check_hash!(rep, "BoxedUint", x, y, ord == Ordering::Equal);
    for (n, got, want) in [
        ("BoxedUint.is_zero", bool::from(x.is_zero()), ab.is_zero()),
        ("BoxedUint.is_nonzero", bool::from(x.is_nonzero()), !ab.is_zero()),
        ("BoxedUint.is_one", bool::from(x.is_one()), ab.is_one()),
        ("BoxedUint.Zero::is_zero", bool::from(CZero::is_zero(&x)), ab.is_zero()),
        ("BoxedUint.is_odd", bool::from(Integer::is_odd(&x)), a[0] & 1 == 1),
        ("BoxedUint.is_even", bool::from(Integer::is_even(&x)), a[0] & 1 == 0),
        ("BoxedUint.to_odd.is_some", ct(x.to_odd()).is_some(), a[0] & 1 == 1),
        ("BoxedUint.NonZero::new.is_some", ct(NonZero::new(x.clone())).is_some(), !ab.is_zero()),
    ] {
        if got != want {
            rep.fail(n, format!("got {} want {}", got, want));
        }
    }
    if a[0] & 1 == 1 && b[0] & 1 == 1 {
        let (ox, oy): (Odd<BoxedUint>, Odd<BoxedUint>) = (odb(a), odb(b));
        if (ox == oy) != (ord == Ordering::Equal) || ox.cmp(&oy) != ord {
            rep.fail("Odd<BoxedUint>.cmp", "disagrees".into());
        }
        check_hash!(rep, "Odd<BoxedUint>", ox, oy, ord == Ordering::Equal);
    }
    if !ab.is_zero() && !bb_.is_zero() {
        let (nx, ny) = (nzb(a), nzb(b));
        if (nx == ny) != (ord == Ordering::Equal) || nx.cmp(&ny) != ord {
            rep.fail("NonZero<BoxedUint>.cmp", "disagrees".into());
        }
        check_hash!(rep, "NonZero<BoxedUint>", nx, ny, ord == Ordering::Equal);
    }
}

fn uint_select<const L: usize>(c: &Case, rep: &mut Rep) {
    let (a, b) = (&c.a[0], &c.a[1]);
    rep.nontrivial();
    let (x, y) = (u::<L>(a), u::<L>(b));
    for ch in [0u8, 1] {
        let want = if ch == 1 { b } else { a };
        let choice = Choice::from(ch);
        if ul(&Uint::conditional_select(&x, &y, choice)) != *want {
            rep.fail("Uint.conditional_select", format!("choice {}", ch));
        }
        if ul(&<Uint<L> as ConstantTimeSelect>::ct_select(&x, &y, choice)) != *want {
            rep.fail("Uint.ct_select", format!("choice {}", ch));
        }
        let mut t = x;
        t.conditional_assign(&y, choice);
        let mut t2 = x;
        ConstantTimeSelect::ct_assign(&mut t2, &y, choice);
        if ul(&t) != *want || ul(&t2) != *want {
            rep.fail("Uint.assign", format!("choice {}", ch));
        }
        let (mut p, mut q) = (x, y);
        Uint::conditional_swap(&mut p, &mut q, choice);
        let (mut p2, mut q2) = (x, y);
        ConstantTimeSelect::ct_swap(&mut p2, &mut q2, choice);
        let ws = if ch == 1 { (b.clone(), a.clone()) } else { (a.clone(), b.clone()) };
        if (ul(&p), ul(&q)) != ws || (ul(&p2), ul(&q2)) != ws {
            rep.fail("Uint.swap", format!("choice {}", ch));
        }
        // conditional negate: exactly self or its two's complement
        let neg = from_bigint(&-BigInt::from(to_big(a)), L);
        let wn = if ch == 1 { &neg } else { a };
        let mut t = Wrapping(x);
        t.conditional_negate(choice);
        if ul(&t.0) != *wn {
            rep.fail("Wrapping<Uint>.conditional_negate", format!("choice {}", ch));
        }
        if ul(&x.wrapping_neg_if(crypto_bigint::ConstChoice::from(choice))) != *wn {
            rep.fail("Uint.wrapping_neg_if", format!("choice {}", ch));
        }
        // NonZero / Odd selection between valid values stays one of the operands
        if !is_zero(a) && !is_zero(b) {
            let r = NonZero::conditional_select(&nz::<L>(a), &nz::<L>(b), choice);
            if ul(&r.get()) != *want {
                rep.fail("NonZero<Uint>.conditional_select", format!("choice {}", ch));
            }
        }
        if a[0] & 1 == 1 && b[0] & 1 == 1 {
            let r = Odd::conditional_select(&od::<L>(a), &od::<L>(b), choice);
            if ul(&r.get()) != *want {
                rep.fail("Odd<Uint>.conditional_select", format!("choice {}", ch));
            }
        }
        let r = Wrapping::conditional_select(&Wrapping(x), &Wrapping(y), choice);
        if ul(&r.0) != *want {
            rep.fail("Wrapping<Uint>.conditional_select", format!("choice {}", ch));
        }
    }
}
fn c_uint_select(c: &Case, rep: &mut Rep) {
    dispatch!(c.w[0], [1, 2, 3, 4, 6, 8, 16], uint_select(c, rep))
}

fn c_boxed_select(c: &Case, rep: &mut Rep) {
    let (a, b) = (&c.a[0], &c.a[1]);
    rep.nontrivial();
    let n = a.len();
    let (x, y) = (bx(a), bx(b));
    for ch in [0u8, 1] {
        let want = if ch == 1 { b } else { a };
        let choice = Choice::from(ch);
        if bl(&BoxedUint::ct_select(&x, &y, choice)) != *want {
            rep.fail("BoxedUint.ct_select", format!("choice {}", ch));
        }
        let mut t = x.clone();
        t.ct_assign(&y, choice);
        if bl(&t) != *want {
            rep.fail("BoxedUint.ct_assign", format!("choice {}", ch));
        }
        let (mut p, mut q) = (x.clone(), y.clone());
        BoxedUint::ct_swap(&mut p, &mut q, choice);
        let ws = if ch == 1 { (b.clone(), a.clone()) } else { (a.clone(), b.clone()) };
        if (bl(&p), bl(&q)) != ws {
            rep.fail("BoxedUint.ct_swap", format!("choice {}", ch));
        }
        let neg = from_bigint(&-BigInt::from(to_big(a)), n);
        let wn = if ch == 1 { &neg } else { a };
        let mut t = x.clone();
        t.conditional_negate(choice);
        if bl(&t) != *wn {
            rep.fail("BoxedUint.conditional_negate", format!("choice {} got {}", ch, hex(&bl(&t))));
        }
    }
}

/// Option-like results: is_some exactly as documented, unwrap_or returns value or default.
fn c_option(c: &Case, rep: &mut Rep) {
    let (a, d) = (&c.a[0], &c.a[1]);
    rep.nontrivial();
    let (x, dflt) = (u::<4>(a), u::<4>(d));
    // to_nz: some iff non-zero; to_odd: some iff odd
    let o: ConstCtOption<NonZero<Uint<4>>> = x.to_nz();
    if bool::from(o.is_some()) != !is_zero(a) || bool::from(o.is_none()) != is_zero(a) {
        rep.fail("ConstCtOption.is_some(to_nz)", "mismatch".into());
    }
    let o: ConstCtOption<Odd<Uint<4>>> = x.to_odd();
    if bool::from(o.is_some()) != (a[0] & 1 == 1) {
        rep.fail("ConstCtOption.is_some(to_odd)", "mismatch".into());
    }
    // checked_square: unwrap_or gives the value when it fits and the default otherwise
    let sq = to_big(a) * to_big(a);
    let o = x.checked_square();
    let fits_ = fits(&sq, 4);
    if bool::from(o.is_some()) != fits_ {
        rep.fail("ConstCtOption.is_some(checked_square)", "mismatch".into());
    }
    let got = o.unwrap_or(dflt);
    let want = if fits_ { from_big(&sq, 4) } else { d.clone() };
    if ul(&got) != want {
        rep.fail("ConstCtOption.unwrap_or", format!("got {} want {}", hex(&ul(&got)), hex(&want)));
    }
    // CtOption from checked_add
    let s = to_big(a) + to_big(d);
    let o = crypto_bigint::CheckedAdd::checked_add(&x, &dflt);
    if bool::from(o.is_some()) != fits(&s, 4) {
        rep.fail("CtOption.is_some(checked_add)", "mismatch".into());
    }
    let got = o.unwrap_or(dflt);
    let want = if fits(&s, 4) { from_big(&s, 4) } else { d.clone() };
    if ul(&got) != want {
        rep.fail("CtOption.unwrap_or", "mismatch".into());
    }
    // Into<CtOption> / Into<Option> conversions of ConstCtOption preserve is_some and value
    let o1: subtle::CtOption<Uint<4>> = x.checked_square().into();
    let o2: Option<Uint<4>> = x.checked_square().into();
    if bool::from(o1.is_some()) != fits_ || o2.is_some() != fits_ {
        rep.fail("ConstCtOption.into", "is_some changed by conversion".into());
    }
    if fits_ && (ul(&o2.unwrap()) != from_big(&sq, 4)) {
        rep.fail("ConstCtOption.into.value", "value changed by conversion".into());
    }
}

// -------------------------------------------------------------------------------------------

fn gen_pair(r: &mut Rng, n: usize) -> (Vec<u64>, Vec<u64>) {
    let a = match r.below(8) {
        0 => gn::zero(n),
        1 => gn::max(n),
        2 => gn::single_bit(n, 64 * n - 1),           // MIN as Int
        3 => gn::low_ones(n, 64 * n - 1),              // MAX as Int
        _ => gn::uint(r, n),
    };
    let b = match r.below(12) {
        0 | 1 => a.clone(),
        2 => {
            let mut v = a.clone();
            v[0] ^= 1 << r.below(64);
            v
        }
        3 => {
            let mut v = a.clone();
            v[n - 1] ^= 1 << r.below(64);
            v
        }
        4 => {
            let mut v = a.clone();
            v[n - 1] ^= 1 << 63;
            v
        }
        5 => gn::zero(n),
        6 => gn::max(n),
        7 => gn::single_bit(n, 64 * n - 1),
        8 => {
            // both top bits set, differ somewhere
            let mut v = gn::uint(r, n);
            v[n - 1] |= 1 << 63;
            v
        }
        _ => gn::related(r, &a),
    };
    if r.chance(1, 8) {
        let mut a2 = a.clone();
        a2[n - 1] |= 1 << 63;
        let mut b2 = b.clone();
        b2[n - 1] |= 1 << 63;
        return (a2, b2);
    }
    (a, b)
}

const WIDTHS: [usize; 7] = [1, 2, 3, 4, 6, 8, 16];

pub fn workload(ctx: &mut Ctx) {
    for &l in &[1usize, 2, 4] {
        for _ in 0..ctx.iters(30_000) {
            let m1 = gn::modulus(&mut ctx.rng, l, true);
            let m2 = gn::modulus(&mut ctx.rng, l, true);
            if m1 == m2 || to_big(&m1).is_one() || to_big(&m2).is_one() {
                continue;
            }
            let x1 = from_big(&gn::below(&mut ctx.rng, &to_big(&m1), l), l);
            let x2 = from_big(&gn::below(&mut ctx.rng, &to_big(&m2), l), l);
            ctx.exec(Case::new("monty.select").w(l).a(m1).a(m2).a(x1).a(x2), c_monty_select);
        }
    }
    for &a in &gn::PALETTE {
        for &b in &gn::PALETTE {
            if ctx.mine() {
                ctx.exec(Case::new("limb.cmp").s(a).s(b), c_limb);
            }
        }
    }
    for _ in 0..ctx.iters(1_500_000) {
        let (a, b) = gen_pair(&mut ctx.rng, 1);
        ctx.exec(Case::new("limb.cmp").s(a[0]).s(b[0]), c_limb);
    }
    for &l in &WIDTHS {
        for _ in 0..ctx.iters(900_000) {
            let (a, b) = gen_pair(&mut ctx.rng, l);
            ctx.exec(Case::new("uint.cmp").w(l).a(a.clone()).a(b.clone()), c_uint);
            ctx.exec(Case::new("int.cmp").w(l).a(a).a(b), c_int);
        }
        for _ in 0..ctx.iters(300_000) {
            let (a, b) = gen_pair(&mut ctx.rng, l);
            ctx.exec(Case::new("uint.select").w(l).a(a).a(b), c_uint_select);
        }
    }
    for _ in 0..ctx.iters(600_000) {
        let n = 1 + ctx.rng.usize_below(12);
        let (a, mut b) = gen_pair(&mut ctx.rng, n);
        // different precision: zero-pad, truncate-and-pad, or put something in the extra limbs
        let m = match ctx.rng.below(3) {
            0 => n,
            _ => 1 + ctx.rng.usize_below(12),
        };
        if m > n {
            b.resize(m, 0);
            if ctx.rng.chance(1, 3) {
                b[m - 1] = gn::limb(&mut ctx.rng);
            }
        } else if m < n {
            b.truncate(m);
        }
        ctx.exec(Case::new("boxed.cmp").w(n).w(m).a(a).a(b), c_boxed);
    }
    for _ in 0..ctx.iters(200_000) {
        let n = 1 + ctx.rng.usize_below(12);
        let mut a = gn::uint(&mut ctx.rng, n);
        if ctx.rng.chance(1, 3) {
            // low limbs zero: negation carries across limbs
            let z = 1 + ctx.rng.usize_below(n);
            for x in a.iter_mut().take(z) {
                *x = 0;
            }
        }
        let b = gn::uint(&mut ctx.rng, n);
        ctx.exec(Case::new("boxed.select").w(n).a(a).a(b), c_boxed_select);
    }
    for _ in 0..ctx.iters(150_000) {
        let a = match ctx.rng.below(4) {
            0 => {
                // around sqrt(2^256): squares just fitting / overflowing
                let mut v = gn::zero(4);
                v[2] = ctx.rng.below(3).wrapping_sub(1);
                v[1] = if v[2] == 0 { u64::MAX } else { 0 };
                v[0] = gn::limb(&mut ctx.rng);
                if v[2] > 1 {
                    v[2] = 0;
                }
                v
            }
            _ => gn::uint(&mut ctx.rng, 4),
        };
        let d = gn::related(&mut ctx.rng, &a);
        ctx.exec(Case::new("option").a(a).a(d), c_option);
    }
}
