//! C15 — all routes to the same operation give bit-identical results.
//!
//! Differential monitor: each named *form pair* runs two routes to the same mathematical operation
//! on identical inputs and requires bit-identical outputs (and the documented precision of boxed
//! results).  The evidence lists every pair with its evaluation count; a pair with zero evaluations
//! makes the run inconclusive.  Route families: boxed(P) vs fixed of the same width, constant-time
//! vs `_vartime`, trait vs inherent, precomputed vs one-shot, const-evaluated vs run-time.
use crate::util::*;
use crypto_bigint::modular::{BoxedMontyForm, BoxedMontyParams, MontyForm, MontyParams};
use crypto_bigint::{
    BitOps, BoxedUint, Gcd, Int, Inverter, Limb, NonZero, Odd, PrecomputeInverter, Reciprocal, U64, U192, U256, Uint,
};
use std::fmt::Debug;
use std::hint::black_box;

pub const DEF: PropDef = PropDef {
    id: "C15",
    workload,
    ops,
    mandatory: &["pairs_fixed_vs_boxed", "pairs_ct_vs_vartime", "pairs_const_vs_runtime", "pairs_precomputed_vs_oneshot", "pairs_trait_vs_inherent", "pairs_operators_and_wrappers", "boxed_ops_narrower_rhs", "width_64_limbs"],
    rule: "each case runs a set of named form pairs on one generated input tuple (x, y, modulus, shift/bit parameter) at widths Uint<N> <-> BoxedUint of 64*N bits for N in 1,2,3,4,8,16,32,64 (inversion / gcd / pow / sqrt up to 16 limbs); inputs come from the structured generators of the exactness properties (division pairs n = q*d + r and add-back constructions, Karatsuba halves, modular pairs a+b = p+{-1,0,1}, inversion operands sharing factors with the modulus); const-vs-runtime pairs use a fixed bank of literal operands whose const-evaluated results are frozen at harness compile time. non-trivial = every case; distinct by hash; coverage.pairs lists evaluations per pair",
};

pub fn ops() -> Vec<(&'static str, Checker)> {
    vec![("routes.arith", c_arith), ("routes.modular", c_modular), ("routes.const", c_const), ("routes.ops", c_ops_fixed), ("routes.boxed_ops", c_ops_boxed)]
}

fn pair<T: PartialEq + Debug>(rep: &mut Rep, fam: &str, name: &str, a: T, b: T) {
    rep.tally(&format!("pair:{}", name));
    rep.tally(fam);
    if a != b {
        rep.fail(name, format!("route A = {:?} route B = {:?}", a, b));
    }
}
/// fixed-vs-boxed: same limbs and the documented precision
fn pairb(rep: &mut Rep, name: &str, fixed: Vec<u64>, boxed: &BoxedUint, want_limbs: usize) {
    rep.tally(&format!("pair:{}", name));
    rep.tally("pairs_fixed_vs_boxed");
    let b = bl(boxed);
    if b.len() != want_limbs {
        rep.fail(&format!("{}.precision", name), format!("boxed result has {} limbs, documented {}", b.len(), want_limbs));
    }
    let mut f = fixed;
    f.resize(b.len().max(f.len()), 0);
    let mut bb_ = b.clone();
    bb_.resize(f.len(), 0);
    if f != bb_ {
        rep.fail(name, format!("fixed {} boxed {}", hex(&f), hex(&b)));
    }
}
const FB: &str = "pairs_fixed_vs_boxed";
const CV: &str = "pairs_ct_vs_vartime";
const TI: &str = "pairs_trait_vs_inherent";
const PO: &str = "pairs_precomputed_vs_oneshot";

fn arith<const L: usize>(c: &Case, rep: &mut Rep) {
    let (x, y) = (&c.a[0], &c.a[1]);
    let k = c.s[0] as u32;
    rep.nontrivial();
    if L == 64 {
        rep.class("width_64_limbs");
    }
    let (ux, uy) = (u::<L>(x), u::<L>(y));
    let (bx_, by_) = (bx(x), bx(y));
    // ---- fixed vs boxed
    pairb(rep, "fb.wrapping_add", ul(&ux.wrapping_add(&uy)), &bx_.wrapping_add(&by_), L);
    pairb(rep, "fb.wrapping_sub", ul(&ux.wrapping_sub(&uy)), &bx_.wrapping_sub(&by_), L);
    pairb(rep, "fb.wrapping_neg", ul(&ux.wrapping_neg()), &bx_.wrapping_neg(), L);
    let (s, cy) = ux.adc(&uy, Limb::ONE);
    let (sb, cyb) = bx_.adc(&by_, Limb::ONE);
    pairb(rep, "fb.adc", ul(&s), &sb, L);
    pair(rep, FB, "fb.adc.carry", cy.0, cyb.0);
    let (s, bo) = ux.sbb(&uy, Limb::ZERO);
    let (sb, bob) = bx_.sbb(&by_, Limb::ZERO);
    pairb(rep, "fb.sbb", ul(&s), &sb, L);
    pair(rep, FB, "fb.sbb.borrow", bo.0, bob.0);
    pairb(rep, "fb.wrapping_mul", ul(&ux.wrapping_mul(&uy)), &bx_.wrapping_mul(&by_), L);
    let (lo, hi) = ux.split_mul(&uy);
    pairb(rep, "fb.widening_mul", [ul(&lo), ul(&hi)].concat(), &bx_.mul(&by_), 2 * L);
    let (lo, hi) = ux.square_wide();
    pairb(rep, "fb.square", [ul(&lo), ul(&hi)].concat(), &bx_.square(), 2 * L);
    pairb(rep, "fb.bitand", ul(&ux.bitand(&uy)), &bx_.bitand(&by_), L);
    pairb(rep, "fb.bitor", ul(&ux.bitor(&uy)), &bx_.bitor(&by_), L);
    pairb(rep, "fb.bitxor", ul(&ux.bitxor(&uy)), &bx_.bitxor(&by_), L);
    pairb(rep, "fb.not", ul(&ux.not()), &bx_.not(), L);
    pair(rep, FB, "fb.bits", ux.bits(), bx_.bits());
    pair(rep, FB, "fb.bits_vartime", ux.bits_vartime(), bx_.bits_vartime());
    pair(rep, FB, "fb.leading_zeros", ux.leading_zeros(), bx_.leading_zeros());
    pair(rep, FB, "fb.trailing_zeros", ux.trailing_zeros(), bx_.trailing_zeros());
    pair(rep, FB, "fb.trailing_ones", ux.trailing_ones(), bx_.trailing_ones());
    pair(rep, FB, "fb.bit", bool::from(ux.bit(k)), bool::from(bx_.bit(k)));
    pair(rep, FB, "fb.cmp", ux.cmp(&uy), bx_.cmp(&by_));
    pair(rep, FB, "fb.cmp_vartime", ux.cmp_vartime(&uy), bx_.cmp_vartime(&by_));
    pair(rep, FB, "fb.eq", ux == uy, bx_ == by_);
    let ks = k % (64 * L as u32);
    pairb(rep, "fb.shl", ul(&ux.shl(ks)), &bx_.shl(ks), L);
    pairb(rep, "fb.shr", ul(&ux.shr(ks)), &bx_.shr(ks), L);
    pairb(rep, "fb.wrapping_shl", ul(&ux.wrapping_shl(k)), &bx_.wrapping_shl(k), L);
    pairb(rep, "fb.wrapping_shr", ul(&ux.wrapping_shr(k)), &bx_.wrapping_shr(k), L);
    pairb(rep, "fb.wrapping_shl_vartime", ul(&ux.wrapping_shl_vartime(k)), &bx_.wrapping_shl_vartime(k), L);
    pair(rep, FB, "fb.shl_vartime.some", cct(ux.overflowing_shl_vartime(k)).map(|v| ul(&v)), bx_.shl_vartime(k).map(|v| bl(&v)));
    pair(rep, FB, "fb.shr_vartime.some", cct(ux.overflowing_shr_vartime(k)).map(|v| ul(&v)), bx_.shr_vartime(k).map(|v| bl(&v)));
    pair(rep, FB, "fb.to_be_bytes", x.iter().rev().flat_map(|l| l.to_be_bytes()).collect::<Vec<u8>>(), bx_.to_be_bytes().to_vec());
    pair(rep, FB, "fb.fmt_lower_hex", format!("{:x}", ux), format!("{:x}", bx_));
    pair(rep, FB, "fb.fmt_binary", format!("{:b}", ux), format!("{:b}", bx_));
    if L <= 16 {
        let radix = 2 + k % 35;
        pair(rep, FB, "fb.to_string_radix", ux.to_string_radix_vartime(radix), bx_.to_string_radix_vartime(radix));
    }
    // ---- ct vs vartime (fixed and boxed)
    pair(rep, CV, "cv.bits", ux.bits(), ux.bits_vartime());
    pair(rep, CV, "cv.leading_zeros", ux.leading_zeros(), ux.leading_zeros_vartime());
    pair(rep, CV, "cv.trailing_zeros", ux.trailing_zeros(), ux.trailing_zeros_vartime());
    pair(rep, CV, "cv.trailing_ones", ux.trailing_ones(), ux.trailing_ones_vartime());
    pair(rep, CV, "cv.boxed.bits", bx_.bits(), bx_.bits_vartime());
    pair(rep, CV, "cv.boxed.trailing_zeros", bx_.trailing_zeros(), bx_.trailing_zeros_vartime());
    pair(rep, CV, "cv.boxed.trailing_ones", bx_.trailing_ones(), bx_.trailing_ones_vartime());
    pair(rep, CV, "cv.cmp", ux.cmp(&uy), ux.cmp_vartime(&uy));
    pair(rep, CV, "cv.boxed.cmp", bx_.cmp(&by_), bx_.cmp_vartime(&by_));
    pair(rep, CV, "cv.overflowing_shl", cct(ux.overflowing_shl(k)).map(|v| ul(&v)), cct(ux.overflowing_shl_vartime(k)).map(|v| ul(&v)));
    pair(rep, CV, "cv.overflowing_shr", cct(ux.overflowing_shr(k)).map(|v| ul(&v)), cct(ux.overflowing_shr_vartime(k)).map(|v| ul(&v)));
    pair(rep, CV, "cv.wrapping_shl", ul(&ux.wrapping_shl(k)), ul(&ux.wrapping_shl_vartime(k)));
    pair(rep, CV, "cv.wrapping_shr", ul(&ux.wrapping_shr(k)), ul(&ux.wrapping_shr_vartime(k)));
    pair(rep, CV, "cv.boxed.wrapping_shl", bl(&bx_.wrapping_shl(k)), bl(&bx_.wrapping_shl_vartime(k)));
    pair(rep, CV, "cv.boxed.wrapping_shr", bl(&bx_.wrapping_shr(k)), bl(&bx_.wrapping_shr_vartime(k)));
    let ix: Int<L> = i::<L>(x);
    pair(rep, CV, "cv.int.overflowing_shr", cct(ix.overflowing_shr(k)).map(|v| il(&v)), cct(ix.overflowing_shr_vartime(k)).map(|v| il(&v)));
    pair(rep, CV, "cv.int.wrapping_shr", il(&ix.wrapping_shr(k)), il(&ix.wrapping_shr_vartime(k)));
    pair(rep, CV, "cv.bit", bool::from(ux.bit(ks)), ux.bit_vartime(ks));
    pair(rep, CV, "cv.boxed.bit", bool::from(bx_.bit(ks)), bx_.bit_vartime(ks));
    // ---- trait vs inherent
    pair(rep, TI, "ti.BitOps::bits", BitOps::bits(&ux), ux.bits());
    pair(rep, TI, "ti.BitOps::trailing_zeros", BitOps::trailing_zeros(&ux), ux.trailing_zeros());
    pair(rep, TI, "ti.boxed.BitOps::bits", BitOps::bits(&bx_), bx_.bits());
    pair(rep, TI, "ti.WrappingAdd", ul(&crypto_bigint::WrappingAdd::wrapping_add(&ux, &uy)), ul(&ux.wrapping_add(&uy)));
    pair(rep, TI, "ti.WrappingMul", ul(&crypto_bigint::WrappingMul::wrapping_mul(&ux, &uy)), ul(&ux.wrapping_mul(&uy)));
    pair(rep, TI, "ti.op_bitand", ul(&(ux & uy)), ul(&ux.bitand(&uy)));
    pair(rep, TI, "ti.op_shl", ul(&(ux << ks)), ul(&ux.shl(ks)));
    pair(rep, TI, "ti.boxed.op_shr", bl(&(&bx_ >> ks)), bl(&bx_.shr(ks)));
    // ---- division routes
    if !is_zero(y) {
        let (nzy, nzby) = (nz::<L>(y), nzb(y));
        let (q, r) = ux.div_rem(&nzy);
        let (qb, rb) = bx_.div_rem(&nzby);
        pairb(rep, "fb.div_rem.q", ul(&q), &qb, L);
        pairb(rep, "fb.div_rem.r", ul(&r), &rb, L);
        let (qv, rv) = ux.div_rem_vartime(&nzy);
        pair(rep, CV, "cv.div_rem", (ul(&q), ul(&r)), (ul(&qv), ul(&rv)));
        let (qbv, rbv) = bx_.div_rem_vartime(&nzby);
        pair(rep, CV, "cv.boxed.div_rem", (bl(&qb), bl(&rb)), (bl(&qbv), bl(&rbv)));
        pairb(rep, "fb.div_rem_vartime.q", ul(&qv), &qbv, L);
        pair(rep, CV, "cv.rem", ul(&ux.rem(&nzy)), ul(&ux.rem_vartime(&nzy)));
        pair(rep, CV, "cv.boxed.rem", bl(&bx_.rem(&nzby)), bl(&bx_.rem_vartime(&nzby)));
        pair(rep, CV, "cv.wrapping_div", ul(&ux.wrapping_div(&nzy)), ul(&ux.wrapping_div_vartime(&nzy)));
        pair(rep, TI, "ti.op_div", ul(&(ux / nzy)), ul(&q));
        pair(rep, TI, "ti.op_rem", ul(&(ux % nzy)), ul(&r));
        pair(rep, TI, "ti.boxed.op_div", bl(&(&bx_ / &nzby)), bl(&qb));
        pair(rep, TI, "ti.DivVartime", ul(&crypto_bigint::DivVartime::div_vartime(&ux, &nzy)), ul(&qv));
        // signed ct vs vartime
        let iy: Int<L> = i::<L>(y);
        if let Some(nzi) = cct(iy.to_nz()) {
            let (q1, r1) = ix.checked_div_rem(&nzi);
            let (q2, r2) = ix.checked_div_rem_vartime(&nzi);
            pair(rep, CV, "cv.int.checked_div_rem", (cct(q1).map(|v| il(&v)), il(&r1)), (cct(q2).map(|v| il(&v)), il(&r2)));
            let (q1, r1) = ix.checked_div_rem_floor(&nzi);
            let (q2, r2) = ix.checked_div_rem_floor_vartime(&nzi);
            pair(rep, CV, "cv.int.checked_div_rem_floor", (cct(q1).map(|v| il(&v)), il(&r1)), (cct(q2).map(|v| il(&v)), il(&r2)));
        }
        let (q1, r1) = ix.div_rem_uint(&nzy);
        let (q2, r2) = ix.div_rem_uint_vartime(&nzy);
        pair(rep, CV, "cv.int.div_rem_uint", (il(&q1), il(&r1)), (il(&q2), il(&r2)));
        let (q1, r1) = ix.div_rem_floor_uint(&nzy);
        let (q2, r2) = ix.div_rem_floor_uint_vartime(&nzy);
        pair(rep, CV, "cv.int.div_rem_floor_uint", (il(&q1), ul(&r1)), (il(&q2), ul(&r2)));
        // limb division: precomputed reciprocal vs one-shot, fixed vs boxed
        if y[0] != 0 {
            let d = nzl(y[0]);
            let rec = Reciprocal::new(d);
            let (q1, r1) = ux.div_rem_limb(d);
            let (q2, r2) = ux.div_rem_limb_with_reciprocal(&rec);
            pair(rep, PO, "po.div_rem_limb", (ul(&q1), r1.0), (ul(&q2), r2.0));
            let (q3, r3) = bx_.div_rem_limb(d);
            pairb(rep, "fb.div_rem_limb.q", ul(&q1), &q3, L);
            pair(rep, FB, "fb.div_rem_limb.r", r1.0, r3.0);
            pair(rep, PO, "po.rem_limb", ux.rem_limb(d).0, ux.rem_limb_with_reciprocal(&rec).0);
            pair(rep, PO, "po.boxed.rem_limb", bx_.rem_limb(d).0, bx_.rem_limb_with_reciprocal(&rec).0);
        }
    }
    if L <= 16 {
        pairb(rep, "fb.sqrt", ul(&ux.sqrt()), &bx_.sqrt(), L);
        pair(rep, CV, "cv.sqrt", ul(&ux.sqrt()), ul(&ux.sqrt_vartime()));
        pair(rep, CV, "cv.boxed.sqrt", bl(&bx_.sqrt()), bl(&bx_.sqrt_vartime()));
        pair(rep, CV, "cv.checked_sqrt", ct(ux.checked_sqrt()).map(|v| ul(&v)), ct(ux.checked_sqrt_vartime()).map(|v| ul(&v)));
        let kk = k % (64 * L as u32 + 1);
        pair(rep, CV, "cv.inv_mod2k", cct(ux.inv_mod2k(kk)).map(|v| ul(&v)), cct(ux.inv_mod2k_vartime(kk)).map(|v| ul(&v)));
        let (v1, c1) = bx_.inv_mod2k(kk);
        pair(rep, FB, "fb.inv_mod2k", cct(ux.inv_mod2k(kk)).map(|v| ul(&v)), if bool::from(c1) { Some(bl(&v1)) } else { None });
    }
}
fn c_arith(c: &Case, rep: &mut Rep) {
    match c.w[0] {
        1 => arith::<1>(c, rep),
        2 => arith::<2>(c, rep),
        3 => arith::<3>(c, rep),
        4 => arith::<4>(c, rep),
        8 => arith::<8>(c, rep),
        16 => arith::<16>(c, rep),
        32 => arith::<32>(c, rep),
        64 => arith::<64>(c, rep),
        w => panic!("harness: width {}", w),
    }
}

macro_rules! def_modular {
    ($f:ident, $l:literal, $u:literal) => {
        fn $f(c: &Case, rep: &mut Rep) {
            const L: usize = $l;
            let (a, b, m, e) = (&c.a[0], &c.a[1], &c.a[2], &c.a[3]);
            let k = c.s[0] as u32;
            rep.nontrivial();
            let (ua, ub_, um) = (u::<L>(a), u::<L>(b), u::<L>(m));
            let (ba, bb__, bm) = (bx(a), bx(b), bx(m));
            // modular add/sub/neg/double: fixed vs boxed
            pairb(rep, "fb.add_mod", ul(&ua.add_mod(&ub_, &um)), &ba.add_mod(&bb__, &bm), L);
            pairb(rep, "fb.sub_mod", ul(&ua.sub_mod(&ub_, &um)), &ba.sub_mod(&bb__, &bm), L);
            pairb(rep, "fb.neg_mod", ul(&ua.neg_mod(&um)), &ba.neg_mod(&bm), L);
            pairb(rep, "fb.double_mod", ul(&ua.double_mod(&um)), &ba.double_mod(&bm), L);
            pair(rep, TI, "ti.AddMod", ul(&crypto_bigint::AddMod::add_mod(&ua, &ub_, &um)), ul(&ua.add_mod(&ub_, &um)));
            pair(rep, TI, "ti.SubMod", ul(&crypto_bigint::SubMod::sub_mod(&ua, &ub_, &um)), ul(&ua.sub_mod(&ub_, &um)));
            pair(rep, TI, "ti.NegMod", ul(&crypto_bigint::NegMod::neg_mod(&ua, &um)), ul(&ua.neg_mod(&um)));
            // special modulus forms
            let cc = Limb(c.s[1] | 1);
            pairb(rep, "fb.mul_mod_special", ul(&ua.mul_mod_special(&ub_, cc)), &ba.mul_mod_special(&bb__, cc), L);
            pairb(rep, "fb.sub_mod_special", ul(&ua.sub_mod_special(&ub_, cc)), &ba.sub_mod_special(&bb__, cc), L);
            pairb(rep, "fb.neg_mod_special", ul(&ua.neg_mod_special(cc)), &ba.neg_mod_special(cc), L);
            // odd modulus: mul_mod ct vs vartime vs boxed; Montgomery routes
            let nzm = nz::<L>(m);
            pair(rep, CV, "cv.mul_mod", ul(&ua.mul_mod(&ub_, &nzm)), ul(&ua.mul_mod_vartime(&ub_, &nzm)));
            pairb(rep, "fb.mul_mod", ul(&ua.mul_mod(&ub_, &nzm)), &ba.mul_mod(&bb__, &bm), L);
            pair(rep, TI, "ti.MulMod", ul(&crypto_bigint::MulMod::mul_mod(&ua, &ub_, &um)), ul(&ua.mul_mod_vartime(&ub_, &nzm)));
            let om = od::<L>(m);
            let p1 = MontyParams::<L>::new(om);
            let p2 = MontyParams::<L>::new_vartime(om);
            pair(rep, CV, "cv.MontyParams::new", p1, p2);
            let bp1 = BoxedMontyParams::new(odb(m));
            let bp2 = BoxedMontyParams::new_vartime(odb(m));
            pair(rep, CV, "cv.BoxedMontyParams::new", bp1.clone(), bp2);
            let (fa, fb_) = (MontyForm::new(&ua, p1), MontyForm::new(&ub_, p1));
            let (ga, gb) = (BoxedMontyForm::new(ba.clone(), bp1.clone()), BoxedMontyForm::new(bb__.clone(), bp1.clone()));
            pairb(rep, "fb.monty.new", ul(fa.as_montgomery()), ga.as_montgomery(), L);
            pairb(rep, "fb.monty.mul", ul((fa * fb_).as_montgomery()), (&ga * &gb).as_montgomery(), L);
            pairb(rep, "fb.monty.add", ul((fa + fb_).as_montgomery()), (&ga + &gb).as_montgomery(), L);
            pairb(rep, "fb.monty.sub", ul((fa - fb_).as_montgomery()), (&ga - &gb).as_montgomery(), L);
            pairb(rep, "fb.monty.neg", ul((-fa).as_montgomery()), (-&ga).as_montgomery(), L);
            pairb(rep, "fb.monty.square", ul(fa.square().as_montgomery()), ga.square().as_montgomery(), L);
            pairb(rep, "fb.monty.div_by_2", ul(fa.div_by_2().as_montgomery()), ga.div_by_2().as_montgomery(), L);
            pairb(rep, "fb.monty.retrieve", ul(&(fa * fb_).retrieve()), &(&ga * &gb).retrieve(), L);
            pair(rep, TI, "ti.monty.op_mul", ul((fa * fb_).as_montgomery()), ul(fa.mul(&fb_).as_montgomery()));
            pair(rep, TI, "ti.monty.Square", ul(crypto_bigint::Square::square(&fa).as_montgomery()), ul(fa.square().as_montgomery()));
            let ue = u::<L>(e);
            let kb = k % (64 * L as u32 + 1);
            pairb(rep, "fb.monty.pow_bounded_exp", ul(fa.pow_bounded_exp(&ue, kb).as_montgomery()), ga.pow_bounded_exp(&bx(e), kb).as_montgomery(), L);
            pair(rep, TI, "ti.monty.PowBoundedExp", ul(crypto_bigint::PowBoundedExp::pow_bounded_exp(&fa, &ue, kb).as_montgomery()), ul(fa.pow_bounded_exp(&ue, kb).as_montgomery()));
            pair(rep, TI, "ti.monty.pow_eq_bounded_full", ul(fa.pow(&ue).as_montgomery()), ul(fa.pow_bounded_exp(&ue, 64 * L as u32).as_montgomery()));
            // linear combinations: fixed vs boxed, trait vs inherent (values near m-1, full-width
            // moduli take the multi-window path from two products on)
            {
                let m1 = u::<L>(m).wrapping_sub(&Uint::<L>::ONE);
                let fm1 = MontyForm::new(&m1, p1);
                let gm1 = BoxedMontyForm::new(bx(&ul(&m1)), bp1.clone());
                let fterms = [(fa, fb_), (fm1, fm1), (fb_, fb_), (fa, fm1), (fm1, fb_), (fm1, fm1)];
                let gterms = [(&ga, &gb), (&gm1, &gm1), (&gb, &gb), (&ga, &gm1), (&gm1, &gb), (&gm1, &gm1)];
                let n = 1 + (c.s[1] as usize) % fterms.len();
                let fr: Vec<(&MontyForm<L>, &MontyForm<L>)> = fterms[..n].iter().map(|t| (&t.0, &t.1)).collect();
                let fl = MontyForm::<L>::lincomb_vartime(&fr);
                let gl = BoxedMontyForm::lincomb_vartime(&gterms[..n]);
                pairb(rep, "fb.monty.lincomb_vartime", ul(fl.as_montgomery()), gl.as_montgomery(), L);
                pair(rep, TI, "ti.Monty::lincomb_vartime", ul(<MontyForm<L> as crypto_bigint::Monty>::lincomb_vartime(&fr).as_montgomery()), ul(fl.as_montgomery()));
                let mut acc = fterms[0].0 * fterms[0].1;
                for t in &fterms[1..n] {
                    acc += t.0 * t.1;
                }
                pair(rep, TI, "ti.lincomb_eq_sum_of_products", ul(fl.as_montgomery()), ul(acc.as_montgomery()));
            }
            // inversion routes
            let i1 = cct(ua.inv_odd_mod(&om)).map(|v| ul(&v));
            let i2 = ct(ba.inv_odd_mod(&odb(m))).map(|v| bl(&v));
            pair(rep, FB, "fb.inv_odd_mod", i1.clone(), i2);
            let inverter = om.precompute_inverter();
            pair(rep, PO, "po.inv_odd_mod", ct(inverter.invert(&ua)).map(|v| ul(&v)), i1.clone());
            pair(rep, CV, "cv.Inverter::invert", ct(inverter.invert(&ua)).map(|v| ul(&v)), ct(inverter.invert_vartime(&ua)).map(|v| ul(&v)));
            pair(rep, FB, "fb.inv_mod", cct(ua.inv_mod(&ub_)).map(|v| ul(&v)), ct(ba.inv_mod(&bb__)).map(|v| bl(&v)));
            pair(rep, TI, "ti.InvMod", ct(crypto_bigint::InvMod::inv_mod(&ua, &ub_)).map(|v| ul(&v)), cct(ua.inv_mod(&ub_)).map(|v| ul(&v)));
            let mi = cct(fa.inv()).map(|v| ul(v.as_montgomery()));
            pair(rep, CV, "cv.monty.inv", mi.clone(), cct(fa.inv_vartime()).map(|v| ul(v.as_montgomery())));
            pair(rep, FB, "fb.monty.inv", mi.clone(), ct(ga.invert()).map(|v| bl(v.as_montgomery())));
            let minv = p1.precompute_inverter();
            pair(rep, PO, "po.monty.inv", ct(minv.invert(&fa)).map(|v| ul(v.as_montgomery())), mi);
            let binv = bp1.precompute_inverter();
            pair(rep, PO, "po.boxed.monty.inv", ct(binv.invert(&ga)).map(|v| bl(v.as_montgomery())), ct(ga.invert()).map(|v| bl(v.as_montgomery())));
            pair(rep, CV, "cv.boxed.monty.invert", ct(ga.invert()).map(|v| bl(v.as_montgomery())), ct(ga.invert_vartime()).map(|v| bl(v.as_montgomery())));
            // gcd routes
            let g1 = ul(&ua.gcd(&ub_));
            pair(rep, CV, "cv.gcd", ul(&Gcd::gcd(&ua, &ub_)), ul(&Gcd::gcd_vartime(&ua, &ub_)));
            pair(rep, TI, "ti.Gcd", ul(&Gcd::gcd(&ua, &ub_)), g1.clone());
            pairb(rep, "fb.gcd", g1, &Gcd::gcd(&ba, &bb__), L);
            pair(rep, CV, "cv.boxed.gcd", bl(&Gcd::gcd(&ba, &bb__)), bl(&Gcd::gcd_vartime(&ba, &bb__)));
            let _ = (Odd::<Uint<L>>::new(ua), NonZero::<Uint<L>>::new(ua));
        }
    };
}
def_modular!(modular_1, 1, 3);
def_modular!(modular_2, 2, 4);
def_modular!(modular_3, 3, 5);
def_modular!(modular_4, 4, 6);
def_modular!(modular_8, 8, 10);
def_modular!(modular_16, 16, 18);
fn c_modular(c: &Case, rep: &mut Rep) {
    match c.w[0] {
        1 => modular_1(c, rep),
        2 => modular_2(c, rep),
        3 => modular_3(c, rep),
        4 => modular_4(c, rep),
        8 => modular_8(c, rep),
        16 => modular_16(c, rep),
        w => panic!("harness: width {}", w),
    }
}

// ---------------------------------------------------------------------------------------------
// const-evaluated vs run-time

const CR: &str = "pairs_const_vs_runtime";

macro_rules! const_bank {
    ($ty:ty, $l:literal, $( ($a:literal, $b:literal, $m:literal, $k:literal) ),* $(,)?) => {{
        let mut out: Vec<(String, Vec<u64>, Vec<u64>)> = Vec::new();
        $(
            {
                const A: $ty = <$ty>::from_be_hex($a);
                const B: $ty = <$ty>::from_be_hex($b);
                const M: $ty = <$ty>::from_be_hex($m); // odd modulus, also used as non-zero divisor
                const NZM: NonZero<$ty> = NonZero::<$ty>::new_unwrap(M);
                const ODM: Odd<$ty> = Odd::<$ty>::from_be_hex($m);
                const K: u32 = $k;
                const C_ADD: $ty = A.wrapping_add(&B);
                const C_SUB: $ty = A.wrapping_sub(&B);
                const C_MUL: ($ty, $ty) = A.split_mul(&B);
                const C_SQ: ($ty, $ty) = A.square_wide();
                const C_DIV: ($ty, $ty) = A.div_rem(&NZM);
                const C_DIVV: ($ty, $ty) = A.div_rem_vartime(&NZM);
                const C_SHL: $ty = A.wrapping_shl(K);
                const C_SHR: $ty = A.wrapping_shr(K);
                const C_SHLV: $ty = A.wrapping_shl_vartime(K);
                const C_SQRT: $ty = A.sqrt();
                const C_BITS: u32 = A.bits();
                const C_TZ: u32 = A.trailing_zeros();
                const C_ADDMOD: $ty = C_DIV.1.add_mod(&B.rem(&NZM), &M);
                const C_SUBMOD: $ty = C_DIV.1.sub_mod(&B.rem(&NZM), &M);
                const C_NEGMOD: $ty = C_DIV.1.neg_mod(&M);
                const C_MULSP: $ty = A.mul_mod_special(&B, Limb(189));
                const C_INV: crypto_bigint::ConstCtOption<$ty> = A.inv_odd_mod(&ODM);
                const C_INV2K: crypto_bigint::ConstCtOption<$ty> = A.inv_mod2k(K);
                const C_GCD: $ty = A.gcd(&B);
                const C_PARAMS: MontyParams<$l> = MontyParams::<$l>::new_vartime(ODM);
                const C_POW: $ty = MontyForm::<$l>::new(&A, C_PARAMS).pow_bounded_exp(&B, K).retrieve();
                const C_NEG: $ty = A.wrapping_neg();
                let (a, b, m, k) = (black_box(A), black_box(B), black_box(M), black_box(K));
                let nzm = NonZero::<$ty>::new_unwrap(m);
                let odm = Odd::<$ty>::from_be_hex(black_box($m));
                let mut p = |n: &str, c: Vec<u64>, r: Vec<u64>| out.push((n.to_string(), c, r));
                p("cr.wrapping_add", ul(&C_ADD), ul(&a.wrapping_add(&b)));
                p("cr.wrapping_sub", ul(&C_SUB), ul(&a.wrapping_sub(&b)));
                p("cr.split_mul", [ul(&C_MUL.0), ul(&C_MUL.1)].concat(), { let t = a.split_mul(&b); [ul(&t.0), ul(&t.1)].concat() });
                p("cr.square_wide", [ul(&C_SQ.0), ul(&C_SQ.1)].concat(), { let t = a.square_wide(); [ul(&t.0), ul(&t.1)].concat() });
                p("cr.div_rem", [ul(&C_DIV.0), ul(&C_DIV.1)].concat(), { let t = a.div_rem(&nzm); [ul(&t.0), ul(&t.1)].concat() });
                p("cr.div_rem_vartime", [ul(&C_DIVV.0), ul(&C_DIVV.1)].concat(), { let t = a.div_rem_vartime(&nzm); [ul(&t.0), ul(&t.1)].concat() });
                p("cr.wrapping_shl", ul(&C_SHL), ul(&a.wrapping_shl(k)));
                p("cr.wrapping_shr", ul(&C_SHR), ul(&a.wrapping_shr(k)));
                p("cr.wrapping_shl_vartime", ul(&C_SHLV), ul(&a.wrapping_shl_vartime(k)));
                p("cr.sqrt", ul(&C_SQRT), ul(&a.sqrt()));
                p("cr.bits", vec![C_BITS as u64], vec![a.bits() as u64]);
                p("cr.trailing_zeros", vec![C_TZ as u64], vec![a.trailing_zeros() as u64]);
                let (ra, rb) = (a.rem(&nzm), b.rem(&nzm));
                p("cr.add_mod", ul(&C_ADDMOD), ul(&ra.add_mod(&rb, &m)));
                p("cr.sub_mod", ul(&C_SUBMOD), ul(&ra.sub_mod(&rb, &m)));
                p("cr.neg_mod", ul(&C_NEGMOD), ul(&ra.neg_mod(&m)));
                p("cr.mul_mod_special", ul(&C_MULSP), ul(&a.mul_mod_special(&b, Limb(189))));
                let enc = |o: crypto_bigint::ConstCtOption<$ty>| { let s = bool::from(o.is_some()); let mut v = ul(&o.unwrap_or(<$ty>::ZERO)); v.push(s as u64); if !s { v = vec![0] } v };
                p("cr.inv_odd_mod", enc(C_INV), enc(a.inv_odd_mod(&odm)));
                p("cr.inv_mod2k", enc(C_INV2K), enc(a.inv_mod2k(k)));
                p("cr.gcd", ul(&C_GCD), ul(&a.gcd(&b)));
                let params = MontyParams::<$l>::new_vartime(odm);
                p("cr.MontyParams", vec![(C_PARAMS == params) as u64], vec![1]);
                p("cr.monty.pow_bounded_exp", ul(&C_POW), ul(&MontyForm::<$l>::new(&a, params).pow_bounded_exp(&b, k).retrieve()));
                p("cr.wrapping_neg", ul(&C_NEG), ul(&a.wrapping_neg()));
            }
        )*
        out
    }};
}

fn c_const(_c: &Case, rep: &mut Rep) {
    rep.nontrivial();
    let mut all = Vec::new();
    all.extend(const_bank!(U64, 1,
        ("ffffffffffffffff", "0000000000000003", "ffffffffffffffc5", 1),
        ("8000000000000000", "7fffffffffffffff", "0000000000000003", 63),
        ("0123456789abcdef", "fedcba9876543211", "8000000000000001", 17),
        ("0000000000000000", "0000000000000001", "00000000ffffffff", 0),
        ("ffffffff00000000", "00000000ffffffff", "5555555555555555", 32),
    ));
    all.extend(const_bank!(U192, 3,
        ("ffffffffffffffffffffffffffffffffffffffffffffffff", "000000000000000000000000000000000000000000000003", "fffffffffffffffffffffffffffffffeffffffffffffffff", 64),
        ("800000000000000000000000000000000000000000000000", "7fffffffffffffffffffffffffffffffffffffffffffffff", "000000000000000100000000000000000000000000000001", 191),
        ("0123456789abcdef0123456789abcdef0123456789abcdef", "fedcba9876543210fedcba9876543210fedcba9876543211", "555555555555555555555555555555555555555555555555", 65),
        ("00000000000000000000000000000000ffffffffffffffff", "0000000000000000ffffffffffffffff0000000000000000", "0000000000000000000000000000000000000000ffffffc5", 127),
    ));
    all.extend(const_bank!(U256, 4,
        ("ffffffffffffffffffffffffffffffffffffffffffffffffffffffffffffffff", "0000000000000000000000000000000000000000000000000000000000000003", "ffffffff00000001000000000000000000000000ffffffffffffffffffffffff", 4),
        ("8000000000000000000000000000000000000000000000000000000000000000", "7fffffffffffffffffffffffffffffffffffffffffffffffffffffffffffffff", "ffffffff00000000ffffffffffffffffbce6faada7179e84f3b9cac2fc632551", 255),
        ("0123456789abcdef0123456789abcdef0123456789abcdef0123456789abcdef", "fedcba9876543210fedcba9876543210fedcba9876543210fedcba9876543211", "8000000000000000000000000000000000000000000000000000000000000001", 129),
        ("00000000000000000000000000000000ffffffffffffffffffffffffffffffff", "ffffffffffffffffffffffffffffffff00000000000000000000000000000000", "000000000000000000000000000000000000000000000000fffffffffffffffb", 64),
        ("deadbeefcafebabe0badc0dedeadc0de1337c0de0ddba11f00dfacade5ca1ab1", "0000000000000000000000000000000000000000000000000000000000010001", "c90fdaa22168c234c4c6628b80dc1cd129024e088a67cc74020bbea63b139b23", 200),
    ));
    for (name, cval, rval) in all {
        pair(rep, CR, &name, cval, rval);
    }
}

// ---------------------------------------------------------------------------------------------

pub fn workload(ctx: &mut Ctx) {
    for &l in &[1usize, 2, 3, 4, 8, 16, 32, 64] {
        let cnt = match l {
            1..=4 => 25_000,
            8 => 12_000,
            16 => 5_000,
            32 => 1_500,
            _ => 400,
        };
        for _ in 0..ctx.iters(cnt) {
            // inputs from the exactness generators: division pairs, Karatsuba halves, related pairs
            let (x, y) = match ctx.rng.below(3) {
                0 => crate::c02::gen_pair(&mut ctx.rng, l, l),
                1 => {
                    let x = gn::uint(&mut ctx.rng, l);
                    let y = gn::related(&mut ctx.rng, &x);
                    (x, y)
                }
                _ => (gn::uint(&mut ctx.rng, l), gn::uint(&mut ctx.rng, l)),
            };
            let k = match ctx.rng.below(4) {
                0 => *ctx.rng.pick(&[0u64, 1, 63, 64, 65]),
                1 => 64 * l as u64 - 1 + ctx.rng.below(3),
                2 => u32::MAX as u64,
                _ => ctx.rng.below(64 * l as u64 + 2),
            };
            ctx.exec(Case::new("routes.arith").w(l).a(x).a(y).s(k), c_arith);
        }
    }
    for &l in &[1usize, 2, 3, 4, 8, 16] {
        let cnt = match l {
            1..=4 => 4_000,
            8 => 1_000,
            _ => 200,
        };
        for _ in 0..ctx.iters(cnt) {
            let m = gn::modulus(&mut ctx.rng, l, true);
            let mb = to_big(&m);
            if mb.is_one() {
                continue; // modulus 1: known finding of C08, every route shares it
            }
            let (a, b) = gn::pair_below(&mut ctx.rng, &mb, l);
            let e = gn::uint(&mut ctx.rng, l);
            let k = ctx.rng.below(64 * l as u64 + 1);
            let cc = gn::limb(&mut ctx.rng);
            ctx.exec(Case::new("routes.modular").w(l).a(from_big(&a, l)).a(from_big(&b, l)).a(m).a(e).s(k).s(cc), c_modular);
        }
    }
    workload_ops(ctx);
    for _ in 0..ctx.iters(16) {
        ctx.exec(Case::new("routes.const").s(ctx.worker as u64), c_const);
    }
}

// ---------------------------------------------------------------------------------------------
// operator forests, Wrapping / Checked wrappers and traits versus the inherent methods

const OP: &str = "pairs_operators_and_wrappers";
use crypto_bigint::{Checked, CheckedAdd, CheckedMul, CheckedSub, Wrapping, WrappingAdd, WrappingMul, WrappingNeg, WrappingShl, WrappingShr, WrappingSub};
use vcore::run::catch;

/// Forms of one binary operator on fixed-width integers: `refw` is the inherent wrapping result,
/// `refc` the inherent checked result (None on overflow).  Operator forms must panic exactly when
/// the checked form is None and agree with it otherwise.
macro_rules! forest_fixed {
    ($rep:ident, $n:literal, $op:tt, $opa:tt, $x:ident, $y:ident, $refw:expr, $refc:expr) => {{
        let refw: Vec<u64> = $refw;
        let refc: Option<Vec<u64>> = $refc;
        let (x, y) = ($x, $y);
        pair($rep, OP, concat!("op.", $n, ".val_val"), catch(|| x $op y).ok().map(|v| ul(&v)), refc.clone());
        pair($rep, OP, concat!("op.", $n, ".val_ref"), catch(|| x $op &y).ok().map(|v| ul(&v)), refc.clone());
        pair($rep, OP, concat!("op.", $n, ".assign_val"), catch(|| { let mut t = x; t $opa y; t }).ok().map(|v| ul(&v)), refc.clone());
        pair($rep, OP, concat!("op.", $n, ".assign_ref"), catch(|| { let mut t = x; t $opa &y; t }).ok().map(|v| ul(&v)), refc.clone());
        let (wx, wy) = (Wrapping(x), Wrapping(y));
        pair($rep, OP, concat!("wrapping.", $n, ".val_val"), ul(&(wx $op wy).0), refw.clone());
        pair($rep, OP, concat!("wrapping.", $n, ".val_ref"), ul(&(wx $op &wy).0), refw.clone());
        pair($rep, OP, concat!("wrapping.", $n, ".ref_val"), ul(&(&wx $op wy).0), refw.clone());
        pair($rep, OP, concat!("wrapping.", $n, ".ref_ref"), ul(&(&wx $op &wy).0), refw.clone());
        pair($rep, OP, concat!("wrapping.", $n, ".assign_val"), { let mut t = wx; t $opa wy; ul(&t.0) }, refw.clone());
        pair($rep, OP, concat!("wrapping.", $n, ".assign_ref"), { let mut t = wx; t $opa &wy; ul(&t.0) }, refw.clone());
        let (cx, cy) = (Checked::new(x), Checked::new(y));
        pair($rep, OP, concat!("checked.", $n, ".val_val"), ct((cx $op cy).0).map(|v| ul(&v)), refc.clone());
        pair($rep, OP, concat!("checked.", $n, ".val_ref"), ct((cx $op &cy).0).map(|v| ul(&v)), refc.clone());
        pair($rep, OP, concat!("checked.", $n, ".ref_val"), ct((&cx $op cy).0).map(|v| ul(&v)), refc.clone());
        pair($rep, OP, concat!("checked.", $n, ".ref_ref"), ct((&cx $op &cy).0).map(|v| ul(&v)), refc.clone());
        pair($rep, OP, concat!("checked.", $n, ".assign_val"), { let mut t = cx; t $opa cy; ct(t.0).map(|v| ul(&v)) }, refc.clone());
        pair($rep, OP, concat!("checked.", $n, ".assign_ref"), { let mut t = cx; t $opa &cy; ct(t.0).map(|v| ul(&v)) }, refc.clone());
    }};
}

macro_rules! bitforest_fixed {
    ($rep:ident, $n:literal, $op:tt, $opa:tt, $x:ident, $y:ident, $refw:expr) => {{
        let refw: Vec<u64> = $refw;
        let (x, y) = ($x, $y);
        pair($rep, OP, concat!("op.", $n, ".val_val"), ul(&(x $op y)), refw.clone());
        pair($rep, OP, concat!("op.", $n, ".val_ref"), ul(&(x $op &y)), refw.clone());
        pair($rep, OP, concat!("op.", $n, ".ref_val"), ul(&(&x $op y)), refw.clone());
        pair($rep, OP, concat!("op.", $n, ".ref_ref"), ul(&(&x $op &y)), refw.clone());
        pair($rep, OP, concat!("op.", $n, ".assign_val"), { let mut t = x; t $opa y; ul(&t) }, refw.clone());
        pair($rep, OP, concat!("op.", $n, ".assign_ref"), { let mut t = x; t $opa &y; ul(&t) }, refw.clone());
        let (wx, wy) = (Wrapping(x), Wrapping(y));
        pair($rep, OP, concat!("wrapping.", $n, ".val_val"), ul(&(wx $op wy).0), refw.clone());
        pair($rep, OP, concat!("wrapping.", $n, ".val_ref"), ul(&(wx $op &wy).0), refw.clone());
        pair($rep, OP, concat!("wrapping.", $n, ".ref_val"), ul(&(&wx $op wy).0), refw.clone());
        pair($rep, OP, concat!("wrapping.", $n, ".ref_ref"), ul(&(&wx $op &wy).0), refw.clone());
        pair($rep, OP, concat!("wrapping.", $n, ".assign_val"), { let mut t = wx; t $opa wy; ul(&t.0) }, refw.clone());
        pair($rep, OP, concat!("wrapping.", $n, ".assign_ref"), { let mut t = wx; t $opa &wy; ul(&t.0) }, refw.clone());
    }};
}

fn ops_fixed<const L: usize>(c: &Case, rep: &mut Rep) {
    let (x, y) = (u::<L>(&c.a[0]), u::<L>(&c.a[1]));
    let k = c.s[0] as u32;
    rep.nontrivial();
    rep.class("pairs_operators_and_wrappers");
    let cadd = ct(x.checked_add(&y)).map(|v| ul(&v));
    pair(rep, TI, "ti.CheckedAdd", ct(CheckedAdd::checked_add(&x, &y)).map(|v| ul(&v)), cadd.clone());
    pair(rep, TI, "ti.WrappingAdd", ul(&WrappingAdd::wrapping_add(&x, &y)), ul(&x.wrapping_add(&y)));
    forest_fixed!(rep, "add", +, +=, x, y, ul(&x.wrapping_add(&y)), cadd);
    let csub = ct(x.checked_sub(&y)).map(|v| ul(&v));
    pair(rep, TI, "ti.CheckedSub", ct(CheckedSub::checked_sub(&x, &y)).map(|v| ul(&v)), csub.clone());
    pair(rep, TI, "ti.WrappingSub", ul(&WrappingSub::wrapping_sub(&x, &y)), ul(&x.wrapping_sub(&y)));
    forest_fixed!(rep, "sub", -, -=, x, y, ul(&x.wrapping_sub(&y)), csub);
    let cmul = ct(x.checked_mul(&y)).map(|v| ul(&v));
    pair(rep, TI, "ti.CheckedMul", ct(CheckedMul::checked_mul(&x, &y)).map(|v| ul(&v)), cmul.clone());
    pair(rep, TI, "ti.WrappingMul", ul(&WrappingMul::wrapping_mul(&x, &y)), ul(&x.wrapping_mul(&y)));
    pair(rep, OP, "op.mul.ref_val", catch(|| &x * y).ok().map(|v| ul(&v)), cmul.clone());
    pair(rep, OP, "op.mul.ref_ref", catch(|| &x * &y).ok().map(|v| ul(&v)), cmul.clone());
    forest_fixed!(rep, "mul", *, *=, x, y, ul(&x.wrapping_mul(&y)), cmul);
    bitforest_fixed!(rep, "bitand", &, &=, x, y, ul(&x.bitand(&y)));
    bitforest_fixed!(rep, "bitor", |, |=, x, y, ul(&x.bitor(&y)));
    bitforest_fixed!(rep, "bitxor", ^, ^=, x, y, ul(&x.bitxor(&y)));
    pair(rep, OP, "op.not", ul(&!x), ul(&x.not()));
    pair(rep, OP, "wrapping.not", ul(&(!Wrapping(x)).0), ul(&x.not()));
    pair(rep, OP, "wrapping.neg", ul(&(-Wrapping(x)).0), ul(&x.wrapping_neg()));
    pair(rep, OP, "wrapping.neg.ref", ul(&(-&Wrapping(x)).0), ul(&x.wrapping_neg()));
    pair(rep, TI, "ti.WrappingNeg", ul(&WrappingNeg::wrapping_neg(&x)), ul(&x.wrapping_neg()));
    // shifts: operators panic iff k >= BITS
    let cshl = cct(x.overflowing_shl(k)).map(|v| ul(&v));
    let cshr = cct(x.overflowing_shr(k)).map(|v| ul(&v));
    pair(rep, OP, "op.shl.u32", catch(|| x << k).ok().map(|v| ul(&v)), cshl.clone());
    pair(rep, OP, "op.shl.ref_u32", catch(|| &x << k).ok().map(|v| ul(&v)), cshl.clone());
    pair(rep, OP, "op.shl.usize", catch(|| x << (k as usize)).ok().map(|v| ul(&v)), cshl.clone());
    pair(rep, OP, "op.shl_assign.u32", catch(|| { let mut t = x; t <<= k; t }).ok().map(|v| ul(&v)), cshl.clone());
    pair(rep, OP, "op.shr.u32", catch(|| x >> k).ok().map(|v| ul(&v)), cshr.clone());
    pair(rep, OP, "op.shr.ref_u32", catch(|| &x >> k).ok().map(|v| ul(&v)), cshr.clone());
    pair(rep, OP, "op.shr.usize", catch(|| x >> (k as usize)).ok().map(|v| ul(&v)), cshr.clone());
    pair(rep, OP, "op.shr_assign.u32", catch(|| { let mut t = x; t >>= k; t }).ok().map(|v| ul(&v)), cshr.clone());
    if k <= i32::MAX as u32 {
        pair(rep, OP, "op.shl.i32", catch(|| x << (k as i32)).ok().map(|v| ul(&v)), cshl.clone());
        pair(rep, OP, "op.shr.i32", catch(|| x >> (k as i32)).ok().map(|v| ul(&v)), cshr.clone());
    }
    pair(rep, OP, "wrapping.shl", ul(&(Wrapping(x) << k).0), ul(&x.wrapping_shl(k)));
    pair(rep, OP, "wrapping.shl.ref", ul(&(&Wrapping(x) << k).0), ul(&x.wrapping_shl(k)));
    pair(rep, OP, "wrapping.shr", ul(&(Wrapping(x) >> k).0), ul(&x.wrapping_shr(k)));
    pair(rep, OP, "wrapping.shr.ref", ul(&(&Wrapping(x) >> k).0), ul(&x.wrapping_shr(k)));
    pair(rep, TI, "ti.WrappingShl", ul(&WrappingShl::wrapping_shl(&x, k)), ul(&x.wrapping_shl(k)));
    pair(rep, TI, "ti.WrappingShr", ul(&WrappingShr::wrapping_shr(&x, k)), ul(&x.wrapping_shr(k)));
    pair(rep, TI, "ti.ShlVartime::overflowing", ct(crypto_bigint::ShlVartime::overflowing_shl_vartime(&x, k)).map(|v| ul(&v)), cshl.clone());
    pair(rep, TI, "ti.ShrVartime::overflowing", ct(crypto_bigint::ShrVartime::overflowing_shr_vartime(&x, k)).map(|v| ul(&v)), cshr.clone());
    pair(rep, TI, "ti.ShlVartime::wrapping", ul(&crypto_bigint::ShlVartime::wrapping_shl_vartime(&x, k)), ul(&x.wrapping_shl(k)));
    pair(rep, TI, "ti.ShrVartime::wrapping", ul(&crypto_bigint::ShrVartime::wrapping_shr_vartime(&x, k)), ul(&x.wrapping_shr(k)));
    // division operator forest
    if let Some(nzy) = ct(NonZero::<Uint<L>>::new(y)) {
        let (q, r) = x.div_rem(&nzy);
        let (q, r) = (ul(&q), ul(&r));
        pair(rep, OP, "op.div.val_val", ul(&(x / nzy)), q.clone());
        pair(rep, OP, "op.div.val_ref", ul(&(x / &nzy)), q.clone());
        pair(rep, OP, "op.div.ref_val", ul(&(&x / nzy)), q.clone());
        pair(rep, OP, "op.div.ref_ref", ul(&(&x / &nzy)), q.clone());
        pair(rep, OP, "op.div.assign_val", { let mut t = x; t /= nzy; ul(&t) }, q.clone());
        pair(rep, OP, "op.div.assign_ref", { let mut t = x; t /= &nzy; ul(&t) }, q.clone());
        pair(rep, OP, "op.rem.val_val", ul(&(x % nzy)), r.clone());
        pair(rep, OP, "op.rem.val_ref", ul(&(x % &nzy)), r.clone());
        pair(rep, OP, "op.rem.ref_val", ul(&(&x % nzy)), r.clone());
        pair(rep, OP, "op.rem.ref_ref", ul(&(&x % &nzy)), r.clone());
        pair(rep, OP, "op.rem.assign_val", { let mut t = x; t %= nzy; ul(&t) }, r.clone());
        pair(rep, OP, "op.rem.assign_ref", { let mut t = x; t %= &nzy; ul(&t) }, r.clone());
        let wx = Wrapping(x);
        pair(rep, OP, "wrapping.div.val_val", ul(&(wx / nzy).0), q.clone());
        pair(rep, OP, "wrapping.div.val_ref", ul(&(wx / &nzy).0), q.clone());
        pair(rep, OP, "wrapping.div.ref_val", ul(&(&wx / nzy).0), q.clone());
        pair(rep, OP, "wrapping.div.ref_ref", ul(&(&wx / &nzy).0), q.clone());
        pair(rep, OP, "wrapping.div.assign_val", { let mut t = wx; t /= nzy; ul(&t.0) }, q.clone());
        pair(rep, OP, "wrapping.div.assign_ref", { let mut t = wx; t /= &nzy; ul(&t.0) }, q.clone());
        pair(rep, OP, "wrapping.rem.val_val", ul(&(wx % nzy).0), r.clone());
        pair(rep, OP, "wrapping.rem.val_ref", ul(&(wx % &nzy).0), r.clone());
        pair(rep, OP, "wrapping.rem.ref_val", ul(&(&wx % nzy).0), r.clone());
        pair(rep, OP, "wrapping.rem.ref_ref", ul(&(&wx % &nzy).0), r.clone());
        pair(rep, OP, "wrapping.rem.assign_val", { let mut t = wx; t %= nzy; ul(&t.0) }, r.clone());
        pair(rep, OP, "wrapping.rem.assign_ref", { let mut t = wx; t %= &nzy; ul(&t.0) }, r.clone());
        pair(rep, TI, "ti.CheckedDiv", ct(crypto_bigint::CheckedDiv::checked_div(&x, &y)).map(|v| ul(&v)), Some(q.clone()));
        pair(rep, TI, "ti.checked_div", ct(x.checked_div(&y)).map(|v| ul(&v)), Some(q.clone()));
        pair(rep, TI, "ti.checked_rem", ct(x.checked_rem(&y)).map(|v| ul(&v)), Some(r.clone()));
        pair(rep, TI, "ti.wrapping_rem_vartime", ul(&x.wrapping_rem_vartime(&y)), r.clone());
        let (cx, cy) = (Checked::new(x), Checked::new(y));
        pair(rep, OP, "checked.div.val_val", ct((cx / cy).0).map(|v| ul(&v)), Some(q.clone()));
        pair(rep, OP, "checked.div.ref_ref", ct((&cx / &cy).0).map(|v| ul(&v)), Some(q.clone()));
        if y.as_words()[0] != 0 {
            let d = nzl(y.as_words()[0]);
            let (ql, rl) = x.div_rem_limb(d);
            pair(rep, OP, "op.div_limb.val", ul(&(x / d)), ul(&ql));
            pair(rep, OP, "op.div_limb.ref", ul(&(&x / &d)), ul(&ql));
            pair(rep, OP, "op.div_limb.assign", { let mut t = x; t /= d; ul(&t) }, ul(&ql));
            pair(rep, OP, "op.rem_limb.val", (x % d).0, rl.0);
            pair(rep, OP, "op.rem_limb.ref", (&x % &d).0, rl.0);
            pair(rep, OP, "wrapping.div_limb", ul(&(Wrapping(x) / d).0), ul(&ql));
            pair(rep, OP, "wrapping.rem_limb", (Wrapping(x) % d).0.0, rl.0);
            pair(rep, TI, "ti.DivRemLimb", { let t = crypto_bigint::DivRemLimb::div_rem_limb(&x, d); (ul(&t.0), t.1.0) }, (ul(&ql), rl.0));
            pair(rep, TI, "ti.RemLimb", crypto_bigint::RemLimb::rem_limb(&x, d).0, rl.0);
        }
    } else {
        pair(rep, TI, "ti.CheckedDiv.zero", ct(crypto_bigint::CheckedDiv::checked_div(&x, &y)).map(|v| ul(&v)), None);
        pair(rep, TI, "ti.checked_div.zero", ct(x.checked_div(&y)).map(|v| ul(&v)), None);
        pair(rep, TI, "ti.checked_rem.zero", ct(x.checked_rem(&y)).map(|v| ul(&v)), None);
    }
}
fn c_ops_fixed(c: &Case, rep: &mut Rep) {
    match c.w[0] {
        1 => ops_fixed::<1>(c, rep),
        2 => ops_fixed::<2>(c, rep),
        3 => ops_fixed::<3>(c, rep),
        4 => ops_fixed::<4>(c, rep),
        8 => ops_fixed::<8>(c, rep),
        16 => ops_fixed::<16>(c, rep),
        32 => ops_fixed::<32>(c, rep),
        64 => ops_fixed::<64>(c, rep),
        w => panic!("harness: width {}", w),
    }
}

/// Boxed forests with a right-hand side of the same or a smaller precision.  Reference route: the
/// inherent method applied to the right-hand side widened to the receiver's precision.
macro_rules! forest_boxed {
    ($rep:ident, $n:literal, $op:tt, $opa:tt, $x:ident, $y:ident, $refw:expr, $refc:expr) => {{
        let refw: Vec<u64> = $refw;
        let refc: Option<Vec<u64>> = $refc;
        let (x, y) = ($x, $y);
        pair($rep, OP, concat!("boxed.op.", $n, ".val_val"), catch(|| x.clone() $op y.clone()).ok().map(|v| bl(&v)), refc.clone());
        pair($rep, OP, concat!("boxed.op.", $n, ".val_ref"), catch(|| x.clone() $op y).ok().map(|v| bl(&v)), refc.clone());
        pair($rep, OP, concat!("boxed.op.", $n, ".ref_val"), catch(|| x $op y.clone()).ok().map(|v| bl(&v)), refc.clone());
        pair($rep, OP, concat!("boxed.op.", $n, ".ref_ref"), catch(|| x $op y).ok().map(|v| bl(&v)), refc.clone());
        pair($rep, OP, concat!("boxed.op.", $n, ".assign_val"), catch(|| { let mut t = x.clone(); t $opa y.clone(); t }).ok().map(|v| bl(&v)), refc.clone());
        pair($rep, OP, concat!("boxed.op.", $n, ".assign_ref"), catch(|| { let mut t = x.clone(); t $opa y; t }).ok().map(|v| bl(&v)), refc.clone());
        let (wx, wy) = (Wrapping(x.clone()), Wrapping(y.clone()));
        pair($rep, OP, concat!("boxed.wrapping.", $n, ".val_val"), bl(&(wx.clone() $op wy.clone()).0), refw.clone());
        pair($rep, OP, concat!("boxed.wrapping.", $n, ".val_ref"), bl(&(wx.clone() $op &wy).0), refw.clone());
        pair($rep, OP, concat!("boxed.wrapping.", $n, ".ref_val"), bl(&(&wx $op wy.clone()).0), refw.clone());
        pair($rep, OP, concat!("boxed.wrapping.", $n, ".ref_ref"), bl(&(&wx $op &wy).0), refw.clone());
        pair($rep, OP, concat!("boxed.wrapping.", $n, ".assign_val"), { let mut t = wx.clone(); t $opa wy.clone(); bl(&t.0) }, refw.clone());
        pair($rep, OP, concat!("boxed.wrapping.", $n, ".assign_ref"), { let mut t = wx.clone(); t $opa &wy; bl(&t.0) }, refw.clone());
    }};
}

macro_rules! forest_boxed_uint {
    ($rep:ident, $n:literal, $op:tt, $opa:tt, $x:ident, $y:expr, $tag:literal, $refc:expr) => {{
        let refc: Option<Vec<u64>> = $refc;
        let (x, y) = ($x, $y);
        pair($rep, OP, concat!("boxed.op.", $n, ".", $tag, ".val_val"), catch(|| x.clone() $op y).ok().map(|v| bl(&v)), refc.clone());
        pair($rep, OP, concat!("boxed.op.", $n, ".", $tag, ".ref_val"), catch(|| x $op y).ok().map(|v| bl(&v)), refc.clone());
        pair($rep, OP, concat!("boxed.op.", $n, ".", $tag, ".assign_val"), catch(|| { let mut t = x.clone(); t $opa y; t }).ok().map(|v| bl(&v)), refc.clone());
    }};
}

fn c_ops_boxed(c: &Case, rep: &mut Rep) {
    let (xl, yl) = (&c.a[0], &c.a[1]);
    let (nl, rl) = (xl.len(), yl.len());
    assert!(rl <= nl, "harness: rhs wider than receiver");
    rep.nontrivial();
    rep.class(if rl < nl { "boxed_ops_narrower_rhs" } else { "boxed_ops_same_precision" });
    let x = &bx(xl);
    let y = &bx(yl);
    let mut ywl = yl.clone();
    ywl.resize(nl, 0);
    let yw = &bx(&ywl);
    let lim = |v: &BoxedUint| bl(v);
    // add
    let (s, carry) = x.adc(yw, Limb::ZERO);
    let cadd = if carry.0 == 0 { Some(lim(&s)) } else { None };
    pair(rep, TI, "ti.boxed.wrapping_add.mixed", bl(&x.wrapping_add(y)), lim(&s));
    pair(rep, TI, "ti.boxed.WrappingAdd", bl(&WrappingAdd::wrapping_add(x, y)), lim(&s));
    pair(rep, TI, "ti.boxed.CheckedAdd", ct(CheckedAdd::checked_add(x, y)).map(|v| bl(&v)), cadd.clone());
    pair(rep, TI, "ti.boxed.adc_assign", { let mut t = x.clone(); let cy = t.adc_assign(y, Limb::ZERO); (bl(&t), cy.0) }, (lim(&s), carry.0));
    forest_boxed!(rep, "add", +, +=, x, y, lim(&s), cadd.clone());
    // sub
    let (d, borrow) = x.sbb(yw, Limb::ZERO);
    let csub = if borrow.0 == 0 { Some(lim(&d)) } else { None };
    pair(rep, TI, "ti.boxed.wrapping_sub.mixed", bl(&x.wrapping_sub(y)), lim(&d));
    pair(rep, TI, "ti.boxed.WrappingSub", bl(&WrappingSub::wrapping_sub(x, y)), lim(&d));
    pair(rep, TI, "ti.boxed.CheckedSub", ct(CheckedSub::checked_sub(x, y)).map(|v| bl(&v)), csub.clone());
    pair(rep, TI, "ti.boxed.sbb_assign", { let mut t = x.clone(); let b = t.sbb_assign(y, Limb::ZERO); (bl(&t), b.0) }, (lim(&d), borrow.0));
    forest_boxed!(rep, "sub", -, -=, x, y, lim(&d), csub.clone());
    // right-hand sides of other types
    macro_rules! with_uint {
        ($R:literal, $tag:literal, $tagr:literal) => {
            if rl == $R {
                let uy = u::<$R>(yl);
                forest_boxed_uint!(rep, "add", +, +=, x, uy, $tag, cadd.clone());
                forest_boxed_uint!(rep, "add", +, +=, x, &uy, $tagr, cadd.clone());
                forest_boxed_uint!(rep, "sub", -, -=, x, uy, $tag, csub.clone());
                forest_boxed_uint!(rep, "sub", -, -=, x, &uy, $tagr, csub.clone());
            }
        };
    }
    with_uint!(1, "U64", "U64_ref");
    with_uint!(2, "U128", "U128_ref");
    with_uint!(3, "U192", "U192_ref");
    with_uint!(4, "U256", "U256_ref");
    with_uint!(8, "U512", "U512_ref");
    if rl == 1 {
        let v = yl[0];
        forest_boxed_uint!(rep, "add", +, +=, x, v, "u64", cadd.clone());
        forest_boxed_uint!(rep, "sub", -, -=, x, v, "u64", csub.clone());
        if v <= u32::MAX as u64 {
            forest_boxed_uint!(rep, "add", +, +=, x, v as u32, "u32", cadd.clone());
            forest_boxed_uint!(rep, "sub", -, -=, x, v as u32, "u32", csub.clone());
        }
        if v <= u16::MAX as u64 {
            forest_boxed_uint!(rep, "add", +, +=, x, v as u16, "u16", cadd.clone());
            forest_boxed_uint!(rep, "sub", -, -=, x, v as u16, "u16", csub.clone());
        }
        if v <= u8::MAX as u64 {
            forest_boxed_uint!(rep, "add", +, +=, x, v as u8, "u8", cadd.clone());
            forest_boxed_uint!(rep, "sub", -, -=, x, v as u8, "u8", csub.clone());
        }
    }
    if rl == 2 && nl >= 2 {
        let v = yl[0] as u128 | (yl[1] as u128) << 64;
        forest_boxed_uint!(rep, "add", +, +=, x, v, "u128", cadd.clone());
        forest_boxed_uint!(rep, "sub", -, -=, x, v, "u128", csub.clone());
    }
    // mul: the product of the operators has the documented precision nl + rl limbs (never overflows)
    let wide = x.mul(y);
    let sw = Some(bl(&wide));
    pair(rep, OP, "boxed.op.mul.val_val", catch(|| x.clone() * y.clone()).ok().map(|v| bl(&v)), sw.clone());
    pair(rep, OP, "boxed.op.mul.val_ref", catch(|| x.clone() * y).ok().map(|v| bl(&v)), sw.clone());
    pair(rep, OP, "boxed.op.mul.ref_val", catch(|| x * y.clone()).ok().map(|v| bl(&v)), sw.clone());
    pair(rep, OP, "boxed.op.mul.ref_ref", catch(|| x * y).ok().map(|v| bl(&v)), sw.clone());
    pair(rep, OP, "boxed.op.mul.assign_val", catch(|| { let mut t = x.clone(); t *= y.clone(); t }).ok().map(|v| bl(&v)), sw.clone());
    pair(rep, OP, "boxed.op.mul.assign_ref", catch(|| { let mut t = x.clone(); t *= y; t }).ok().map(|v| bl(&v)), sw.clone());
    pair(rep, TI, "ti.boxed.WideningMul", bl(&crypto_bigint::WideningMul::widening_mul(x, y)), bl(&wide));
    if bl(&wide).len() != nl + rl {
        rep.fail("boxed.mul.precision", format!("{} limbs, documented {}", bl(&wide).len(), nl + rl));
    }
    if nl == rl {
        let wm = x.wrapping_mul(y);
        pair(rep, TI, "ti.boxed.WrappingMul", bl(&WrappingMul::wrapping_mul(x, y)), bl(&wm));
        pair(rep, OP, "boxed.wrapping.mul.val_val", bl(&(Wrapping(x.clone()) * Wrapping(y.clone())).0), bl(&wm));
        pair(rep, OP, "boxed.wrapping.mul.ref_ref", bl(&(&Wrapping(x.clone()) * &Wrapping(y.clone())).0), bl(&wm));
        pair(rep, OP, "boxed.wrapping.mul.assign_val", { let mut t = Wrapping(x.clone()); t *= Wrapping(y.clone()); bl(&t.0) }, bl(&wm));
        pair(rep, OP, "boxed.wrapping.mul.assign_ref", { let mut t = Wrapping(x.clone()); t *= &Wrapping(y.clone()); bl(&t.0) }, bl(&wm));
        let cm = ct(CheckedMul::checked_mul(x, y)).map(|v| bl(&v));
        let hi_zero = bl(&wide)[nl..].iter().all(|&l| l == 0);
        pair(rep, TI, "ti.boxed.CheckedMul", cm, if hi_zero { Some(bl(&wide)[..nl].to_vec()) } else { None });
        // bit operators
        macro_rules! bitf {
            ($n:literal, $op:tt, $opa:tt, $m:ident) => {{
                let r = bl(&x.$m(y));
                pair(rep, OP, concat!("boxed.op.", $n, ".val_val"), bl(&(x.clone() $op y.clone())), r.clone());
                pair(rep, OP, concat!("boxed.op.", $n, ".val_ref"), bl(&(x.clone() $op y)), r.clone());
                pair(rep, OP, concat!("boxed.op.", $n, ".ref_val"), bl(&(x $op y.clone())), r.clone());
                pair(rep, OP, concat!("boxed.op.", $n, ".ref_ref"), bl(&(x $op y)), r.clone());
                pair(rep, OP, concat!("boxed.op.", $n, ".assign_val"), { let mut t = x.clone(); t $opa y.clone(); bl(&t) }, r.clone());
                pair(rep, OP, concat!("boxed.op.", $n, ".assign_ref"), { let mut t = x.clone(); t $opa y; bl(&t) }, r.clone());
                let (wx, wy) = (Wrapping(x.clone()), Wrapping(y.clone()));
                pair(rep, OP, concat!("boxed.wrapping.", $n, ".val_val"), bl(&(wx.clone() $op wy.clone()).0), r.clone());
                pair(rep, OP, concat!("boxed.wrapping.", $n, ".val_ref"), bl(&(wx.clone() $op &wy).0), r.clone());
                pair(rep, OP, concat!("boxed.wrapping.", $n, ".ref_val"), bl(&(&wx $op wy.clone()).0), r.clone());
                pair(rep, OP, concat!("boxed.wrapping.", $n, ".ref_ref"), bl(&(&wx $op &wy).0), r.clone());
                pair(rep, OP, concat!("boxed.wrapping.", $n, ".assign_val"), { let mut t = wx.clone(); t $opa wy.clone(); bl(&t.0) }, r.clone());
                pair(rep, OP, concat!("boxed.wrapping.", $n, ".assign_ref"), { let mut t = wx.clone(); t $opa &wy; bl(&t.0) }, r.clone());
            }};
        }
        bitf!("bitand", &, &=, bitand);
        bitf!("bitor", |, |=, bitor);
        bitf!("bitxor", ^, ^=, bitxor);
        pair(rep, OP, "boxed.op.not", bl(&!x.clone()), bl(&x.not()));
        pair(rep, OP, "boxed.wrapping.not", bl(&(!Wrapping(x.clone())).0), bl(&x.not()));
        pair(rep, TI, "ti.boxed.WrappingNeg", bl(&WrappingNeg::wrapping_neg(x)), bl(&x.wrapping_neg()));
    }
    // division forest (rhs widened: the documented domain of boxed division operators)
    if !is_zero(yl) {
        let nzy = nzb(&ywl);
        let (q, r) = x.div_rem(&nzy);
        let (q, r) = (bl(&q), bl(&r));
        pair(rep, OP, "boxed.op.div.val_val", bl(&(x.clone() / nzy.clone())), q.clone());
        pair(rep, OP, "boxed.op.div.val_ref", bl(&(x.clone() / &nzy)), q.clone());
        pair(rep, OP, "boxed.op.div.ref_val", bl(&(x / nzy.clone())), q.clone());
        pair(rep, OP, "boxed.op.div.ref_ref", bl(&(x / &nzy)), q.clone());
        pair(rep, OP, "boxed.op.div.assign_val", { let mut t = x.clone(); t /= nzy.clone(); bl(&t) }, q.clone());
        pair(rep, OP, "boxed.op.div.assign_ref", { let mut t = x.clone(); t /= &nzy; bl(&t) }, q.clone());
        pair(rep, OP, "boxed.op.rem.val_val", bl(&(x.clone() % nzy.clone())), r.clone());
        pair(rep, OP, "boxed.op.rem.val_ref", bl(&(x.clone() % &nzy)), r.clone());
        pair(rep, OP, "boxed.op.rem.ref_val", bl(&(x % nzy.clone())), r.clone());
        pair(rep, OP, "boxed.op.rem.ref_ref", bl(&(x % &nzy)), r.clone());
        pair(rep, OP, "boxed.op.rem.assign_val", { let mut t = x.clone(); t %= nzy.clone(); bl(&t) }, r.clone());
        pair(rep, OP, "boxed.op.rem.assign_ref", { let mut t = x.clone(); t %= &nzy; bl(&t) }, r.clone());
        let wx = Wrapping(x.clone());
        pair(rep, OP, "boxed.wrapping.div.val_val", bl(&(wx.clone() / nzy.clone()).0), q.clone());
        pair(rep, OP, "boxed.wrapping.div.val_ref", bl(&(wx.clone() / &nzy).0), q.clone());
        pair(rep, OP, "boxed.wrapping.div.ref_val", bl(&(&wx / nzy.clone()).0), q.clone());
        pair(rep, OP, "boxed.wrapping.div.ref_ref", bl(&(&wx / &nzy).0), q.clone());
        pair(rep, OP, "boxed.wrapping.div.assign_val", { let mut t = wx.clone(); t /= nzy.clone(); bl(&t.0) }, q.clone());
        pair(rep, OP, "boxed.wrapping.div.assign_ref", { let mut t = wx.clone(); t /= &nzy; bl(&t.0) }, q.clone());
        pair(rep, TI, "ti.boxed.CheckedDiv", ct(crypto_bigint::CheckedDiv::checked_div(x, yw)).map(|v| bl(&v)), Some(q.clone()));
        pair(rep, TI, "ti.boxed.DivVartime", bl(&crypto_bigint::DivVartime::div_vartime(x, &nzy)), q.clone());
        pair(rep, TI, "ti.boxed.wrapping_div", bl(&x.wrapping_div(&nzy)), q.clone());
        pair(rep, TI, "ti.boxed.checked_div", ct(x.checked_div(yw)).map(|v| bl(&v)), Some(q.clone()));
        // mixed-precision remainder: RemMixed and rem_vartime with the narrower divisor
        let nzn = nzb(yl);
        let mut rn = r.clone();
        rn.truncate(rl);
        pair(rep, TI, "ti.boxed.RemMixed", bl(&crypto_bigint::RemMixed::rem_mixed(x, &nzn)), rn.clone());
        pair(rep, TI, "ti.boxed.rem_vartime.mixed", bl(&x.rem_vartime(&nzn)), rn.clone());
        if yl[0] != 0 {
            let dl = nzl(yl[0]);
            let (ql, rll) = x.div_rem_limb(dl);
            pair(rep, TI, "ti.boxed.DivRemLimb", { let t = crypto_bigint::DivRemLimb::div_rem_limb(x, dl); (bl(&t.0), t.1.0) }, (bl(&ql), rll.0));
            pair(rep, TI, "ti.boxed.RemLimb", crypto_bigint::RemLimb::rem_limb(x, dl).0, rll.0);
        }
    } else {
        pair(rep, TI, "ti.boxed.CheckedDiv.zero", ct(crypto_bigint::CheckedDiv::checked_div(x, yw)).map(|v| bl(&v)), None);
    }
    // shifts
    let k = c.s[0] as u32;
    let (sl, ovl) = x.overflowing_shl(k);
    let cshl = if bool::from(ovl) { None } else { Some(bl(&sl)) };
    let (sr, ovr) = x.overflowing_shr(k);
    let cshr = if bool::from(ovr) { None } else { Some(bl(&sr)) };
    pair(rep, OP, "boxed.op.shl.u32", catch(|| x.clone() << k).ok().map(|v| bl(&v)), cshl.clone());
    pair(rep, OP, "boxed.op.shl.ref_u32", catch(|| x << k).ok().map(|v| bl(&v)), cshl.clone());
    pair(rep, OP, "boxed.op.shl.usize", catch(|| x << (k as usize)).ok().map(|v| bl(&v)), cshl.clone());
    pair(rep, OP, "boxed.op.shl_assign", catch(|| { let mut t = x.clone(); t <<= k; t }).ok().map(|v| bl(&v)), cshl.clone());
    pair(rep, OP, "boxed.op.shr.u32", catch(|| x.clone() >> k).ok().map(|v| bl(&v)), cshr.clone());
    pair(rep, OP, "boxed.op.shr.ref_u32", catch(|| x >> k).ok().map(|v| bl(&v)), cshr.clone());
    pair(rep, OP, "boxed.op.shr.usize", catch(|| x >> (k as usize)).ok().map(|v| bl(&v)), cshr.clone());
    pair(rep, OP, "boxed.op.shr_assign", catch(|| { let mut t = x.clone(); t >>= k; t }).ok().map(|v| bl(&v)), cshr.clone());
    pair(rep, OP, "boxed.wrapping.shl", bl(&(Wrapping(x.clone()) << k).0), bl(&x.wrapping_shl(k)));
    pair(rep, OP, "boxed.wrapping.shr", bl(&(Wrapping(x.clone()) >> k).0), bl(&x.wrapping_shr(k)));
    pair(rep, TI, "ti.boxed.WrappingShl", bl(&WrappingShl::wrapping_shl(x, k)), bl(&x.wrapping_shl(k)));
    pair(rep, TI, "ti.boxed.WrappingShr", bl(&WrappingShr::wrapping_shr(x, k)), bl(&x.wrapping_shr(k)));
    pair(rep, TI, "ti.boxed.ShlVartime", ct(crypto_bigint::ShlVartime::overflowing_shl_vartime(x, k)).map(|v| bl(&v)), cshl.clone());
    pair(rep, TI, "ti.boxed.ShrVartime", ct(crypto_bigint::ShrVartime::overflowing_shr_vartime(x, k)).map(|v| bl(&v)), cshr.clone());
    pair(rep, CV, "cv.boxed.shl_vartime", x.shl_vartime(k).map(|v| bl(&v)), cshl);
    pair(rep, CV, "cv.boxed.shr_vartime", x.shr_vartime(k).map(|v| bl(&v)), cshr);
}

pub fn workload_ops(ctx: &mut Ctx) {
    for &l in &[1usize, 2, 3, 4, 8, 16, 32, 64] {
        let cnt = match l {
            1..=4 => 12_000,
            8 | 16 => 5_000,
            32 => 1_000,
            _ => 300,
        };
        for _ in 0..ctx.iters(cnt) {
            let x = gn::uint(&mut ctx.rng, l);
            let y = match ctx.rng.below(8) {
                0 => gn::zero(l),
                1 => gn::one(l),
                2 => {
                    // x + y = 2^BITS + {-1, 0, 1}: the overflow boundary of the panicking operators
                    let t = pow2(64 * l) + BigUint::from(ctx.rng.below(3)) - 1u32 - to_big(&x);
                    if fits(&t, l) { from_big(&t, l) } else { gn::one(l) }
                }
                3 | 4 => gn::related(&mut ctx.rng, &x),
                5 => {
                    let mut v = gn::zero(l);
                    v[0] = gn::limb(&mut ctx.rng);
                    v
                }
                _ => gn::uint(&mut ctx.rng, l),
            };
            let k = match ctx.rng.below(4) {
                0 => *ctx.rng.pick(&[0u64, 1, 63, 64, 65]),
                1 => 64 * l as u64 - 1 + ctx.rng.below(3),
                2 => *ctx.rng.pick(&[u32::MAX as u64, i32::MAX as u64, 1 << 31]),
                _ => ctx.rng.below(64 * l as u64 + 2),
            };
            ctx.exec(Case::new("routes.ops").w(l).a(x).a(y).s(k), c_ops_fixed);
        }
    }
    for _ in 0..ctx.iters(60_000) {
        let nl = 1 + if ctx.rng.chance(3, 4) { ctx.rng.usize_below(8) } else { ctx.rng.usize_below(33) };
        let rl = match ctx.rng.below(3) {
            0 => nl,
            1 => 1 + ctx.rng.usize_below(nl),
            _ => *ctx.rng.pick(&[1usize, 2, 3, 4, 8]),
        }
        .min(nl);
        let x = match ctx.rng.below(8) {
            0 => gn::max(nl),
            1 => {
                let b = ctx.rng.usize_below(64 * nl);
                gn::single_bit(nl, b)
            }
            2 => {
                // 2^(64 j): a borrow out of the low limbs ripples through zero limbs
                let mut v = gn::zero(nl);
                let j = ctx.rng.usize_below(nl);
                v[j] = 1;
                v
            }
            3 => {
                let mut v = gn::max(nl);
                let j = ctx.rng.usize_below(nl);
                v[j] = gn::limb(&mut ctx.rng);
                v
            }
            _ => gn::uint(&mut ctx.rng, nl),
        };
        let y = match ctx.rng.below(6) {
            0 => gn::zero(rl),
            1 => gn::one(rl),
            2 => gn::max(rl),
            3 => {
                let mut xs = x.clone();
                xs.truncate(rl);
                gn::related(&mut ctx.rng, &xs)
            }
            _ => gn::uint(&mut ctx.rng, rl),
        };
        let k = match ctx.rng.below(4) {
            0 => *ctx.rng.pick(&[0u64, 1, 63, 64, 65]),
            1 => 64 * nl as u64 - 1 + ctx.rng.below(3),
            2 => u32::MAX as u64,
            _ => ctx.rng.below(64 * nl as u64 + 2),
        };
        ctx.exec(Case::new("routes.boxed_ops").w(nl).w(rl).a(x).a(y).s(k), c_ops_boxed);
    }
}
