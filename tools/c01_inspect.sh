#!/bin/bash
# usage: c01_inspect.sh <replay.json> — re-trace the pair and show the first differing records with disassembly
set -e
R=$(readlink -f "$1")
cd /verif/harness
python3 -c "
import json,sys
v=json.load(open('$R')); json.dump(v.get('case',v), open('/verif/harness/target/out/insp-pair.json','w'))"
A=$(nm target/${PROFILE:-vrel}/ct_target | grep ' ct_anchor$' | cut -d' ' -f1)
target/${PROFILE:-vrel}/ct_reader --target target/${PROFILE:-vrel}/ct_target --out target/out/insp-out.json --anchor-vaddr $A -- pair target/out/insp-pair.json
python3 - <<'P'
import json,subprocess,os
d=json.load(open('/verif/harness/target/out/insp-out.json'))
for r in d['regions']:
    print({k:(v if k not in('cf_insns','addr_insns') else v[:12]) for k,v in r.items()})
    fd=r.get('first_diff')
    if fd:
        for key in ('insn','base_insn'):
            a=int(fd[key],16)
            out=subprocess.run(['objdump','-d','--no-show-raw-insn','-C','--start-address=%#x'%(a-40),'--stop-address=%#x'%(a+24),'/verif/harness/target/'+os.environ.get('PROFILE','vrel')+'/ct_target'],stdout=subprocess.PIPE,text=True).stdout
            print(key, fd[key]); print('\n'.join(out.splitlines()[6:]))
P
