//! C05 — shifts and bit queries agree with the binary expansion for every shift amount.
use crate::dispatch;
use crate::util::*;
use crypto_bigint::{BitOps, BoxedUint, Int, Limb, ShlVartime, ShrVartime, Uint, Wrapping, WrappingShl, WrappingShr};

pub const DEF: PropDef = PropDef {
    id: "C05",
    workload,
    ops,
    mandatory: &["shift_0", "shift_limb_multiple", "shift_bits_minus_1", "shift_eq_bits", "shift_gt_bits", "shift_u32_max", "wide_shift_ge_bits", "int_negative_shr", "bit_index_ge_bits", "nonpow2_width", "boxed_grid"],
    rule: "exhaustive grid: for every width (Uint 1,2,3,4,5,6,8,16 limbs; Int same; BoxedUint 1..=20 limbs; Limb) every shift amount s in 0..=2*BITS+1 plus 2^31 and u32::MAX, and every bit index in 0..=BITS+1, each with a palette of values (0, 1, MAX, single bits at limb boundaries, runs of ones ending at limb boundaries, structured randoms); all forms (ct, _vartime, overflowing, wrapping, wide, operators with i32/u32/usize, traits, Wrapping<T>, in-place boxed) are evaluated per grid point. non-trivial = every grid point with a non-zero value (classes: shift 0, limb multiples, BITS-1, BITS, >BITS, u32::MAX, negative Int, index>=BITS); distinct = hash of (op,width,shift,value)",
};

pub fn ops() -> Vec<(&'static str, Checker)> {
    vec![
        ("limb.shift", c_limb_shift),
        ("limb.bits", c_limb_bits),
        ("uint.shift", c_uint_shift),
        ("uint.shift_wide", c_uint_shift_wide),
        ("uint.bits", c_uint_bits),
        ("uint.bit_index", c_uint_bit_index),
        ("uint.bitwise", c_uint_bitwise),
        ("int.shift", c_int_shift),
        ("boxed.shift", c_boxed_shift),
        ("boxed.bits", c_boxed_bits),
        ("boxed.bit_index", c_boxed_bit_index),
        ("boxed.bitwise", c_boxed_bitwise),
    ]
}

fn ex(rep: &mut Rep, rel: &str, got: &[u64], want: &[u64]) {
    if got != want {
        rep.fail(rel, format!("got {} want {}", hex(got), hex(want)));
    }
}

fn shl_o(x: &BigUint, s: u64, bits: usize) -> BigUint {
    if s >= bits as u64 { BigUint::zero() } else { (x << s as usize) & mask(bits) }
}
fn shr_o(x: &BigUint, s: u64, bits: usize) -> BigUint {
    if s >= bits as u64 { BigUint::zero() } else { x >> s as usize }
}

fn class_shift(rep: &mut Rep, s: u64, bits: usize) {
    let b = bits as u64;
    if s == 0 {
        rep.class("shift_0");
    } else if s < b && s % 64 == 0 {
        rep.class("shift_limb_multiple");
    }
    if s + 1 == b {
        rep.class("shift_bits_minus_1");
    }
    if s == b {
        rep.class("shift_eq_bits");
    }
    if s > b {
        rep.class("shift_gt_bits");
    }
    if s == u32::MAX as u64 {
        rep.class("shift_u32_max");
    }
}


fn c_limb_shift(c: &Case, rep: &mut Rep) {
    let x = c.s[0];
    let s = c.s[1] as u32;
    class_shift(rep, s as u64, 64);
    rep.nontrivial();
    let l = Limb(x);
    let ovf = s >= 64;
    let wl = if ovf { 0 } else { x << s };
    let wr = if ovf { 0 } else { x >> s };
    // documented: "Panics if shift overflows Limb::BITS"
    if let Some(v) = panics_iff(rep, "Limb::shl", ovf, || l.shl(s)) {
        if v.0 != wl {
            rep.fail("Limb::shl", format!("got {:x} want {:x}", v.0, wl));
        }
    }
    if let Some(v) = panics_iff(rep, "Limb::shr", ovf, || l.shr(s)) {
        if v.0 != wr {
            rep.fail("Limb::shr", format!("got {:x} want {:x}", v.0, wr));
        }
    }
    macro_rules! opforms {
        ($t:ty, $tag:expr) => {{
            if let Ok(sh) = <$t>::try_from(s) {
                if let Some(v) = panics_iff(rep, concat!("Limb.op_shl_", $tag), ovf, || l << sh) {
                    if v.0 != wl {
                        rep.fail(concat!("Limb.op_shl_", $tag), format!("got {:x}", v.0));
                    }
                }
                if let Some(v) = panics_iff(rep, concat!("Limb.op_shl_ref_", $tag), ovf, || &l << sh) {
                    if v.0 != wl {
                        rep.fail(concat!("Limb.op_shl_ref_", $tag), format!("got {:x}", v.0));
                    }
                }
                if let Some(v) = panics_iff(rep, concat!("Limb.op_shl_assign_", $tag), ovf, || {
                    let mut t = l;
                    t <<= sh;
                    t
                }) {
                    if v.0 != wl {
                        rep.fail(concat!("Limb.op_shl_assign_", $tag), format!("got {:x}", v.0));
                    }
                }
                if let Some(v) = panics_iff(rep, concat!("Limb.op_shr_", $tag), ovf, || l >> sh) {
                    if v.0 != wr {
                        rep.fail(concat!("Limb.op_shr_", $tag), format!("got {:x}", v.0));
                    }
                }
                if let Some(v) = panics_iff(rep, concat!("Limb.op_shr_ref_", $tag), ovf, || &l >> sh) {
                    if v.0 != wr {
                        rep.fail(concat!("Limb.op_shr_ref_", $tag), format!("got {:x}", v.0));
                    }
                }
                if let Some(v) = panics_iff(rep, concat!("Limb.op_shr_assign_", $tag), ovf, || {
                    let mut t = l;
                    t >>= sh;
                    t
                }) {
                    if v.0 != wr {
                        rep.fail(concat!("Limb.op_shr_assign_", $tag), format!("got {:x}", v.0));
                    }
                }
            }
        }};
    }
    opforms!(u32, "u32");
    opforms!(i32, "i32");
    opforms!(usize, "usize");
    // usize shift amounts that do not fit in u32 are >= BITS for every width: all operator forms panic
    if s == 0 {
        rep.class("usize_shift_beyond_u32");
        for big in [1usize << 32, (1usize << 32) + 3, usize::MAX] {
            panics_iff(rep, "Limb.op_shl_usize_beyond_u32", true, || l << big);
            panics_iff(rep, "Limb.op_shr_usize_beyond_u32", true, || l >> big);
            panics_iff(rep, "Limb.op_shl_ref_usize_beyond_u32", true, || &l << big);
            panics_iff(rep, "Limb.op_shr_ref_usize_beyond_u32", true, || &l >> big);
            panics_iff(rep, "Limb.op_shl_assign_usize_beyond_u32", true, || {
                let mut t = l;
                t <<= big;
                t
            });
            panics_iff(rep, "Limb.op_shr_assign_usize_beyond_u32", true, || {
                let mut t = l;
                t >>= big;
                t
            });
        }
    }
    // num_traits::WrappingShl on Limb follows the primitive semantics (shift masked to the width)
    let wm = x.wrapping_shl(s);
    if WrappingShl::wrapping_shl(&l, s).0 != wm {
        rep.fail("Limb::WrappingShl", "differs from u64::wrapping_shl".into());
    }
    if WrappingShr::wrapping_shr(&l, s).0 != x.wrapping_shr(s) {
        rep.fail("Limb::WrappingShr", "differs from u64::wrapping_shr".into());
    }
}

fn c_limb_bits(c: &Case, rep: &mut Rep) {
    let x = c.s[0];
    rep.nontrivial();
    let l = Limb(x);
    if l.bits() != 64 - x.leading_zeros() {
        rep.fail("Limb::bits", format!("got {}", l.bits()));
    }
    if l.leading_zeros() != x.leading_zeros() {
        rep.fail("Limb::leading_zeros", format!("got {}", l.leading_zeros()));
    }
    if l.trailing_zeros() != x.trailing_zeros() {
        rep.fail("Limb::trailing_zeros", format!("got {}", l.trailing_zeros()));
    }
    if l.trailing_ones() != x.trailing_ones() {
        rep.fail("Limb::trailing_ones", format!("got {}", l.trailing_ones()));
    }
    let y = c.s[1];
    let m = Limb(y);
    if (l & m).0 != x & y || (l | m).0 != x | y || (l ^ m).0 != x ^ y || (!l).0 != !x {
        rep.fail("Limb.bitwise_ops", "mismatch".into());
    }
    let mut t = l;
    t &= m;
    let mut t2 = l;
    t2 |= m;
    let mut t3 = l;
    t3 ^= m;
    if t.0 != x & y || t2.0 != x | y || t3.0 != x ^ y {
        rep.fail("Limb.bitwise_assign_ops", "mismatch".into());
    }
}

fn uint_shift<const L: usize>(c: &Case, rep: &mut Rep) {
    let x = &c.a[0];
    let s64 = c.s[0];
    let s = s64 as u32;
    let bits = 64 * L;
    class_shift(rep, s64, bits);
    if L & (L - 1) != 0 {
        rep.class("nonpow2_width");
    }
    if !is_zero(x) {
        rep.nontrivial();
    }
    let ux = u::<L>(x);
    let xb = to_big(x);
    let ovf = s64 >= bits as u64;
    let wl = from_big(&shl_o(&xb, s64, bits), L);
    let wr = from_big(&shr_o(&xb, s64, bits), L);
    let some = |v: &[u64]| if ovf { None } else { Some(v.to_vec()) };
    // panicking forms
    if let Some(v) = panics_iff(rep, "shl", ovf, || ux.shl(s)) {
        ex(rep, "shl", &ul(&v), &wl);
    }
    if let Some(v) = panics_iff(rep, "shr", ovf, || ux.shr(s)) {
        ex(rep, "shr", &ul(&v), &wr);
    }
    if let Some(v) = panics_iff(rep, "shl_vartime", ovf, || ux.shl_vartime(s)) {
        ex(rep, "shl_vartime", &ul(&v), &wl);
    }
    if let Some(v) = panics_iff(rep, "shr_vartime", ovf, || ux.shr_vartime(s)) {
        ex(rep, "shr_vartime", &ul(&v), &wr);
    }
    // overflowing forms: none iff s >= BITS
    for (n, got, want) in [
        ("overflowing_shl", cct(ux.overflowing_shl(s)), &wl),
        ("overflowing_shr", cct(ux.overflowing_shr(s)), &wr),
        ("overflowing_shl_vartime", cct(ux.overflowing_shl_vartime(s)), &wl),
        ("overflowing_shr_vartime", cct(ux.overflowing_shr_vartime(s)), &wr),
        ("ShlVartime::overflowing_shl_vartime", ct(ShlVartime::overflowing_shl_vartime(&ux, s)), &wl),
        ("ShrVartime::overflowing_shr_vartime", ct(ShrVartime::overflowing_shr_vartime(&ux, s)), &wr),
    ] {
        if got.map(|v| ul(&v)) != some(want) {
            rep.fail(n, format!("shift {} ovf {} some={}", s, ovf, got.is_some()));
        }
    }
    // wrapping forms: zero when s >= BITS
    ex(rep, "wrapping_shl", &ul(&ux.wrapping_shl(s)), &wl);
    ex(rep, "wrapping_shr", &ul(&ux.wrapping_shr(s)), &wr);
    ex(rep, "wrapping_shl_vartime", &ul(&ux.wrapping_shl_vartime(s)), &wl);
    ex(rep, "wrapping_shr_vartime", &ul(&ux.wrapping_shr_vartime(s)), &wr);
    ex(rep, "WrappingShl", &ul(&WrappingShl::wrapping_shl(&ux, s)), &wl);
    ex(rep, "WrappingShr", &ul(&WrappingShr::wrapping_shr(&ux, s)), &wr);
    ex(rep, "ShlVartime::wrapping_shl_vartime", &ul(&ShlVartime::wrapping_shl_vartime(&ux, s)), &wl);
    ex(rep, "ShrVartime::wrapping_shr_vartime", &ul(&ShrVartime::wrapping_shr_vartime(&ux, s)), &wr);
    ex(rep, "Wrapping.op_shl", &ul(&(Wrapping(ux) << s).0), &wl);
    ex(rep, "Wrapping.op_shl_ref", &ul(&(&Wrapping(ux) << s).0), &wl);
    ex(rep, "Wrapping.op_shr", &ul(&(Wrapping(ux) >> s).0), &wr);
    ex(rep, "Wrapping.op_shr_ref", &ul(&(&Wrapping(ux) >> s).0), &wr);
    macro_rules! opforms {
        ($t:ty, $tag:expr) => {{
            if let Ok(sh) = <$t>::try_from(s) {
                if let Some(v) = panics_iff(rep, concat!("op_shl_", $tag), ovf, || ux << sh) {
                    ex(rep, concat!("op_shl_", $tag), &ul(&v), &wl);
                }
                if let Some(v) = panics_iff(rep, concat!("op_shl_ref_", $tag), ovf, || &ux << sh) {
                    ex(rep, concat!("op_shl_ref_", $tag), &ul(&v), &wl);
                }
                if let Some(v) = panics_iff(rep, concat!("op_shl_assign_", $tag), ovf, || {
                    let mut t = ux;
                    t <<= sh;
                    t
                }) {
                    ex(rep, concat!("op_shl_assign_", $tag), &ul(&v), &wl);
                }
                if let Some(v) = panics_iff(rep, concat!("op_shr_", $tag), ovf, || ux >> sh) {
                    ex(rep, concat!("op_shr_", $tag), &ul(&v), &wr);
                }
                if let Some(v) = panics_iff(rep, concat!("op_shr_ref_", $tag), ovf, || &ux >> sh) {
                    ex(rep, concat!("op_shr_ref_", $tag), &ul(&v), &wr);
                }
                if let Some(v) = panics_iff(rep, concat!("op_shr_assign_", $tag), ovf, || {
                    let mut t = ux;
                    t >>= sh;
                    t
                }) {
                    ex(rep, concat!("op_shr_assign_", $tag), &ul(&v), &wr);
                }
            }
        }};
    }
    opforms!(u32, "u32");
    opforms!(i32, "i32");
    opforms!(usize, "usize");
    // usize shift amounts that do not fit in u32 are >= BITS for every width: all operator forms panic
    if s == 0 {
        rep.class("usize_shift_beyond_u32");
        for big in [1usize << 32, (1usize << 32) + 3, usize::MAX] {
            panics_iff(rep, "op_shl_usize_beyond_u32", true, || ux << big);
            panics_iff(rep, "op_shr_usize_beyond_u32", true, || ux >> big);
            panics_iff(rep, "op_shl_ref_usize_beyond_u32", true, || &ux << big);
            panics_iff(rep, "op_shr_ref_usize_beyond_u32", true, || &ux >> big);
            panics_iff(rep, "op_shl_assign_usize_beyond_u32", true, || {
                let mut t = ux;
                t <<= big;
                t
            });
            panics_iff(rep, "op_shr_assign_usize_beyond_u32", true, || {
                let mut t = ux;
                t >>= big;
                t
            });
        }
    }
}
fn c_uint_shift(c: &Case, rep: &mut Rep) {
    dispatch!(c.w[0], [1, 2, 3, 4, 5, 6, 8, 16], uint_shift(c, rep))
}

fn uint_shift_wide<const L: usize>(c: &Case, rep: &mut Rep) {
    let (lo, hi) = (&c.a[0], &c.a[1]);
    let s64 = c.s[0];
    let s = s64 as u32;
    let bits = 64 * L;
    class_shift(rep, s64, 2 * bits);
    if s64 >= bits as u64 && s64 < 2 * bits as u64 {
        rep.class("wide_shift_ge_bits");
    }
    if lo != hi {
        rep.nontrivial();
    }
    let mut w = lo.clone();
    w.extend_from_slice(hi);
    let wb = to_big(&w);
    let ovf = s64 >= 2 * bits as u64;
    let wl = from_big(&shl_o(&wb, s64, 2 * bits), 2 * L);
    let wr = from_big(&shr_o(&wb, s64, 2 * bits), 2 * L);
    let got = cct(Uint::<L>::overflowing_shl_vartime_wide((u::<L>(lo), u::<L>(hi)), s));
    let g = got.map(|(a, b)| [ul(&a), ul(&b)].concat());
    if g != if ovf { None } else { Some(wl.clone()) } {
        rep.fail("overflowing_shl_vartime_wide", format!("shift {} got {:?} want {}", s, g.map(|x| hex(&x)), hex(&wl)));
    }
    let got = cct(Uint::<L>::overflowing_shr_vartime_wide((u::<L>(lo), u::<L>(hi)), s));
    let g = got.map(|(a, b)| [ul(&a), ul(&b)].concat());
    if g != if ovf { None } else { Some(wr.clone()) } {
        rep.fail("overflowing_shr_vartime_wide", format!("shift {} got {:?} want {}", s, g.map(|x| hex(&x)), hex(&wr)));
    }
}
fn c_uint_shift_wide(c: &Case, rep: &mut Rep) {
    dispatch!(c.w[0], [1, 2, 3, 4, 5, 6, 8, 16], uint_shift_wide(c, rep))
}

struct BitFacts {
    bits: u32,
    lz: u32,
    tz: u32,
    to: u32,
}
fn facts(x: &[u64]) -> BitFacts {
    let prec = 64 * x.len() as u32;
    let bits = bits_of(x) as u32;
    let mut tz = 0;
    for &l in x {
        if l == 0 {
            tz += 64;
        } else {
            tz += l.trailing_zeros();
            break;
        }
    }
    let mut to = 0;
    for &l in x {
        if l == u64::MAX {
            to += 64;
        } else {
            to += l.trailing_ones();
            break;
        }
    }
    BitFacts { bits, lz: prec - bits, tz: tz.min(prec), to }
}

fn uint_bits<const L: usize>(c: &Case, rep: &mut Rep) {
    let x = &c.a[0];
    let f = facts(x);
    if !is_zero(x) {
        rep.nontrivial();
    }
    let ux = u::<L>(x);
    let checks: [(&str, u32, u32); 18] = [
        ("bits", ux.bits(), f.bits),
        ("bits_vartime", ux.bits_vartime(), f.bits),
        ("leading_zeros", ux.leading_zeros(), f.lz),
        ("leading_zeros_vartime", ux.leading_zeros_vartime(), f.lz),
        ("trailing_zeros", ux.trailing_zeros(), f.tz),
        ("trailing_zeros_vartime", ux.trailing_zeros_vartime(), f.tz),
        ("trailing_ones", ux.trailing_ones(), f.to),
        ("trailing_ones_vartime", ux.trailing_ones_vartime(), f.to),
        ("BitOps::bits", BitOps::bits(&ux), f.bits),
        ("BitOps::bits_vartime", BitOps::bits_vartime(&ux), f.bits),
        ("BitOps::leading_zeros", BitOps::leading_zeros(&ux), f.lz),
        ("BitOps::leading_zeros_vartime", BitOps::leading_zeros_vartime(&ux), f.lz),
        ("BitOps::trailing_zeros", BitOps::trailing_zeros(&ux), f.tz),
        ("BitOps::trailing_zeros_vartime", BitOps::trailing_zeros_vartime(&ux), f.tz),
        ("BitOps::trailing_ones", BitOps::trailing_ones(&ux), f.to),
        ("BitOps::trailing_ones_vartime", BitOps::trailing_ones_vartime(&ux), f.to),
        ("BitOps::bits_precision", BitOps::bits_precision(&ux), 64 * L as u32),
        ("BitOps::bytes_precision", BitOps::bytes_precision(&ux) as u32, 8 * L as u32),
    ];
    for (n, got, want) in checks {
        if got != want {
            rep.fail(n, format!("got {} want {}", got, want));
        }
    }
}
fn c_uint_bits(c: &Case, rep: &mut Rep) {
    dispatch!(c.w[0], [1, 2, 3, 4, 5, 6, 8, 16], uint_bits(c, rep))
}

fn uint_bit_index<const L: usize>(c: &Case, rep: &mut Rep) {
    let x = &c.a[0];
    let idx = c.s[0] as u32;
    let bits = 64 * L as u32;
    rep.nontrivial();
    let in_range = idx < bits;
    if !in_range {
        rep.class("bit_index_ge_bits");
    }
    let want = in_range && (x[(idx / 64) as usize] >> (idx % 64)) & 1 == 1;
    let ux = u::<L>(x);
    if bool::from(ux.bit(idx)) != want {
        rep.fail("bit", format!("index {} got {} want {}", idx, bool::from(ux.bit(idx)), want));
    }
    if bool::from(BitOps::bit(&ux, idx)) != want {
        rep.fail("BitOps::bit", format!("index {}", idx));
    }
    // bit_vartime: out-of-range index is not in its documented domain for Uint (inherent) — only judged in range
    if in_range {
        if ux.bit_vartime(idx) != want {
            rep.fail("bit_vartime", format!("index {}", idx));
        }
        if BitOps::bit_vartime(&ux, idx) != want {
            rep.fail("BitOps::bit_vartime", format!("index {}", idx));
        }
        for val in [false, true] {
            let mut w = x.clone();
            if val {
                w[(idx / 64) as usize] |= 1 << (idx % 64);
            } else {
                w[(idx / 64) as usize] &= !(1 << (idx % 64));
            }
            let mut t = ux;
            BitOps::set_bit(&mut t, idx, (val as u8).into());
            ex(rep, "BitOps::set_bit", &ul(&t), &w);
            let mut t = ux;
            BitOps::set_bit_vartime(&mut t, idx, val);
            ex(rep, "BitOps::set_bit_vartime", &ul(&t), &w);
        }
    } else {
        // constant-time set_bit with an out-of-range index must leave the value unchanged
        let mut t = ux;
        BitOps::set_bit(&mut t, idx, 1u8.into());
        ex(rep, "BitOps::set_bit.out_of_range_noop", &ul(&t), x);
    }
}
fn c_uint_bit_index(c: &Case, rep: &mut Rep) {
    dispatch!(c.w[0], [1, 2, 3, 4, 5, 6, 8, 16], uint_bit_index(c, rep))
}

fn uint_bitwise<const L: usize>(c: &Case, rep: &mut Rep) {
    let (x, y) = (&c.a[0], &c.a[1]);
    rep.nontrivial();
    let (ux, uy) = (u::<L>(x), u::<L>(y));
    let and: Vec<u64> = x.iter().zip(y).map(|(a, b)| a & b).collect();
    let or: Vec<u64> = x.iter().zip(y).map(|(a, b)| a | b).collect();
    let xor: Vec<u64> = x.iter().zip(y).map(|(a, b)| a ^ b).collect();
    let not: Vec<u64> = x.iter().map(|a| !a).collect();
    ex(rep, "bitand", &ul(&ux.bitand(&uy)), &and);
    // `bitand_limb` ANDs every limb with the same word (Uint and Int forms)
    let andl: Vec<u64> = x.iter().map(|a| a & y[0]).collect();
    ex(rep, "bitand_limb", &ul(&ux.bitand_limb(Limb(y[0]))), &andl);
    ex(rep, "Int::bitand_limb", &ul(ux.as_int().bitand_limb(Limb(y[0])).as_uint()), &andl);
    // the signed type offers the same bitwise surface on the two's-complement bit pattern
    // (found unreached by the coverage audit): inherent, checked, operator, assigning and
    // Wrapping<Int> forms of and / or / xor / not
    {
        let (ix, iy) = (ux.as_int(), uy.as_int());
        macro_rules! int_bitop {
            ($name:literal, $m:ident, $w:ident, $c:ident, $op:tt, $opa:tt, $want:expr) => {{
                let want: &Vec<u64> = $want;
                ex(rep, concat!("Int::", $name), &ul(ix.$m(&iy).as_uint()), want);
                ex(rep, concat!("Int::wrapping_", $name), &ul(ix.$w(&iy).as_uint()), want);
                match Option::<Int<L>>::from(ix.$c(&iy)) {
                    Some(v) => ex(rep, concat!("Int::checked_", $name), &ul(v.as_uint()), want),
                    None => rep.fail(concat!("Int::checked_", $name, ".always_some"), "none".into()),
                }
                ex(rep, concat!("Int::op_", $name, "_val_val"), &ul((ix $op iy).as_uint()), want);
                ex(rep, concat!("Int::op_", $name, "_val_ref"), &ul((ix $op &iy).as_uint()), want);
                ex(rep, concat!("Int::op_", $name, "_ref_val"), &ul((&ix $op iy).as_uint()), want);
                ex(rep, concat!("Int::op_", $name, "_ref_ref"), &ul((&ix $op &iy).as_uint()), want);
                let mut t = ix;
                t $opa iy;
                ex(rep, concat!("Int::op_", $name, "_assign"), &ul(t.as_uint()), want);
                let mut t = ix;
                t $opa &iy;
                ex(rep, concat!("Int::op_", $name, "_assign_ref"), &ul(t.as_uint()), want);
                let (wx, wy) = (Wrapping(ix), Wrapping(iy));
                ex(rep, concat!("Wrapping<Int>::op_", $name, "_val_val"), &ul((wx $op wy).0.as_uint()), want);
                ex(rep, concat!("Wrapping<Int>::op_", $name, "_val_ref"), &ul((wx $op &wy).0.as_uint()), want);
                ex(rep, concat!("Wrapping<Int>::op_", $name, "_ref_val"), &ul((&wx $op wy).0.as_uint()), want);
                ex(rep, concat!("Wrapping<Int>::op_", $name, "_ref_ref"), &ul((&wx $op &wy).0.as_uint()), want);
                let mut t = wx;
                t $opa wy;
                ex(rep, concat!("Wrapping<Int>::op_", $name, "_assign"), &ul(t.0.as_uint()), want);
                let mut t = wx;
                t $opa &wy;
                ex(rep, concat!("Wrapping<Int>::op_", $name, "_assign_ref"), &ul(t.0.as_uint()), want);
            }};
        }
        int_bitop!("and", bitand, wrapping_and, checked_and, &, &=, &and);
        int_bitop!("or", bitor, wrapping_or, checked_or, |, |=, &or);
        int_bitop!("xor", bitxor, wrapping_xor, checked_xor, ^, ^=, &xor);
        ex(rep, "Int::not", &ul(ix.not().as_uint()), &not);
        ex(rep, "Int::op_not", &ul((!ix).as_uint()), &not);
        ex(rep, "Wrapping<Int>::op_not", &ul((!Wrapping(ix)).0.as_uint()), &not);
    }
    ex(rep, "wrapping_and", &ul(&ux.wrapping_and(&uy)), &and);
    ex(rep, "op_and", &ul(&(ux & uy)), &and);
    ex(rep, "op_and_ref", &ul(&(&ux & &uy)), &and);
    ex(rep, "op_and_val_ref", &ul(&(ux & &uy)), &and);
    ex(rep, "op_and_ref_val", &ul(&(&ux & uy)), &and);
    ex(rep, "checked_and", &ul(&ct(ux.checked_and(&uy)).unwrap()), &and);
    ex(rep, "bitor", &ul(&ux.bitor(&uy)), &or);
    ex(rep, "wrapping_or", &ul(&ux.wrapping_or(&uy)), &or);
    ex(rep, "op_or", &ul(&(ux | uy)), &or);
    ex(rep, "op_or_ref", &ul(&(&ux | &uy)), &or);
    ex(rep, "checked_or", &ul(&ct(ux.checked_or(&uy)).unwrap()), &or);
    ex(rep, "bitxor", &ul(&ux.bitxor(&uy)), &xor);
    ex(rep, "wrapping_xor", &ul(&ux.wrapping_xor(&uy)), &xor);
    ex(rep, "op_xor", &ul(&(ux ^ uy)), &xor);
    ex(rep, "op_xor_ref", &ul(&(&ux ^ &uy)), &xor);
    ex(rep, "checked_xor", &ul(&ct(ux.checked_xor(&uy)).unwrap()), &xor);
    ex(rep, "not", &ul(&ux.not()), &not);
    ex(rep, "op_not", &ul(&(!ux)), &not);
    let mut t = ux;
    t &= uy;
    ex(rep, "op_and_assign", &ul(&t), &and);
    let mut t = ux;
    t &= &uy;
    ex(rep, "op_and_assign_ref", &ul(&t), &and);
    let mut t = ux;
    t |= uy;
    ex(rep, "op_or_assign", &ul(&t), &or);
    let mut t = ux;
    t |= &uy;
    ex(rep, "op_or_assign_ref", &ul(&t), &or);
    let mut t = ux;
    t ^= uy;
    ex(rep, "op_xor_assign", &ul(&t), &xor);
    let mut t = ux;
    t ^= &uy;
    ex(rep, "op_xor_assign_ref", &ul(&t), &xor);
    let (wx, wy) = (Wrapping(ux), Wrapping(uy));
    ex(rep, "Wrapping.op_and", &ul(&(wx & wy).0), &and);
    ex(rep, "Wrapping.op_or", &ul(&(wx | wy).0), &or);
    ex(rep, "Wrapping.op_xor", &ul(&(wx ^ wy).0), &xor);
    ex(rep, "Wrapping.op_not", &ul(&(!wx).0), &not);
}
fn c_uint_bitwise(c: &Case, rep: &mut Rep) {
    dispatch!(c.w[0], [1, 2, 3, 4, 5, 6, 8, 16], uint_bitwise(c, rep))
}

fn int_shift<const L: usize>(c: &Case, rep: &mut Rep) {
    let x = &c.a[0];
    let s64 = c.s[0];
    let s = s64 as u32;
    let bits = 64 * L;
    class_shift(rep, s64, bits);
    let ix: Int<L> = i::<L>(x);
    let xi = to_bigint(x);
    let neg = x[L - 1] >> 63 == 1;
    if neg {
        rep.class("int_negative_shr");
    }
    rep.nontrivial();
    let ovf = s64 >= bits as u64;
    // left shift: logical on the two's complement pattern
    let wl = from_big(&shl_o(&to_big(x), s64, bits), L);
    // arithmetic right shift: floor(x / 2^s); sign fill when s >= BITS
    let fill: Vec<u64> = if neg { vec![u64::MAX; L] } else { vec![0; L] };
    let wr = if ovf { fill.clone() } else { from_bigint(&(xi >> s64 as usize), L) };
    let some = |v: &[u64]| if ovf { None } else { Some(v.to_vec()) };
    if let Some(v) = panics_iff(rep, "Int::shl", ovf, || ix.shl(s)) {
        ex(rep, "Int::shl", &il(&v), &wl);
    }
    if let Some(v) = panics_iff(rep, "Int::shr", ovf, || ix.shr(s)) {
        ex(rep, "Int::shr", &il(&v), &wr);
    }
    if let Some(v) = panics_iff(rep, "Int::shl_vartime", ovf, || ix.shl_vartime(s)) {
        ex(rep, "Int::shl_vartime", &il(&v), &wl);
    }
    if let Some(v) = panics_iff(rep, "Int::shr_vartime", ovf, || ix.shr_vartime(s)) {
        ex(rep, "Int::shr_vartime", &il(&v), &wr);
    }
    for (n, got, want) in [
        ("Int::overflowing_shl", cct(ix.overflowing_shl(s)), &wl),
        ("Int::overflowing_shr", cct(ix.overflowing_shr(s)), &wr),
        ("Int::overflowing_shl_vartime", cct(ix.overflowing_shl_vartime(s)), &wl),
        ("Int::overflowing_shr_vartime", cct(ix.overflowing_shr_vartime(s)), &wr),
        ("Int::ShlVartime::overflowing_shl_vartime", ct(ShlVartime::overflowing_shl_vartime(&ix, s)), &wl),
        ("Int::ShrVartime::overflowing_shr_vartime", ct(ShrVartime::overflowing_shr_vartime(&ix, s)), &wr),
    ] {
        if got.map(|v| il(&v)) != some(want) {
            rep.fail(n, format!("shift {} ovf {} some={}", s, ovf, got.is_some()));
        }
    }
    ex(rep, "Int::wrapping_shl", &il(&ix.wrapping_shl(s)), &wl);
    ex(rep, "Int::wrapping_shr", &il(&ix.wrapping_shr(s)), &wr);
    ex(rep, "Int::wrapping_shl_vartime", &il(&ix.wrapping_shl_vartime(s)), &wl);
    ex(rep, "Int::wrapping_shr_vartime", &il(&ix.wrapping_shr_vartime(s)), &wr);
    ex(rep, "Int::WrappingShl", &il(&WrappingShl::wrapping_shl(&ix, s)), &wl);
    ex(rep, "Int::WrappingShr", &il(&WrappingShr::wrapping_shr(&ix, s)), &wr);
    ex(rep, "Int::ShlVartime::wrapping", &il(&ShlVartime::wrapping_shl_vartime(&ix, s)), &wl);
    ex(rep, "Int::ShrVartime::wrapping", &il(&ShrVartime::wrapping_shr_vartime(&ix, s)), &wr);
    macro_rules! opforms {
        ($t:ty, $tag:expr) => {{
            if let Ok(sh) = <$t>::try_from(s) {
                if let Some(v) = panics_iff(rep, concat!("Int.op_shl_", $tag), ovf, || ix << sh) {
                    ex(rep, concat!("Int.op_shl_", $tag), &il(&v), &wl);
                }
                if let Some(v) = panics_iff(rep, concat!("Int.op_shl_ref_", $tag), ovf, || &ix << sh) {
                    ex(rep, concat!("Int.op_shl_ref_", $tag), &il(&v), &wl);
                }
                if let Some(v) = panics_iff(rep, concat!("Int.op_shl_assign_", $tag), ovf, || {
                    let mut t = ix;
                    t <<= sh;
                    t
                }) {
                    ex(rep, concat!("Int.op_shl_assign_", $tag), &il(&v), &wl);
                }
                if let Some(v) = panics_iff(rep, concat!("Int.op_shr_", $tag), ovf, || ix >> sh) {
                    ex(rep, concat!("Int.op_shr_", $tag), &il(&v), &wr);
                }
                if let Some(v) = panics_iff(rep, concat!("Int.op_shr_ref_", $tag), ovf, || &ix >> sh) {
                    ex(rep, concat!("Int.op_shr_ref_", $tag), &il(&v), &wr);
                }
                if let Some(v) = panics_iff(rep, concat!("Int.op_shr_assign_", $tag), ovf, || {
                    let mut t = ix;
                    t >>= sh;
                    t
                }) {
                    ex(rep, concat!("Int.op_shr_assign_", $tag), &il(&v), &wr);
                }
            }
        }};
    }
    opforms!(u32, "u32");
    opforms!(i32, "i32");
    opforms!(usize, "usize");
    // usize shift amounts that do not fit in u32 are >= BITS for every width: all operator forms panic
    if s == 0 {
        rep.class("usize_shift_beyond_u32");
        for big in [1usize << 32, (1usize << 32) + 3, usize::MAX] {
            panics_iff(rep, "Int.op_shl_usize_beyond_u32", true, || ix << big);
            panics_iff(rep, "Int.op_shr_usize_beyond_u32", true, || ix >> big);
            panics_iff(rep, "Int.op_shl_ref_usize_beyond_u32", true, || &ix << big);
            panics_iff(rep, "Int.op_shr_ref_usize_beyond_u32", true, || &ix >> big);
            panics_iff(rep, "Int.op_shl_assign_usize_beyond_u32", true, || {
                let mut t = ix;
                t <<= big;
                t
            });
            panics_iff(rep, "Int.op_shr_assign_usize_beyond_u32", true, || {
                let mut t = ix;
                t >>= big;
                t
            });
        }
    }
}
fn c_int_shift(c: &Case, rep: &mut Rep) {
    dispatch!(c.w[0], [1, 2, 3, 4, 5, 6, 8, 16], int_shift(c, rep))
}

fn exb(rep: &mut Rep, rel: &str, got: &BoxedUint, want: &[u64]) {
    let g = bl(got);
    if g != want {
        rep.fail(rel, format!("got {} ({} limbs) want {}", hex(&g), g.len(), hex(want)));
    }
}

fn c_boxed_shift(c: &Case, rep: &mut Rep) {
    let x = &c.a[0];
    let n = x.len();
    let s64 = c.s[0];
    let s = s64 as u32;
    let bits = 64 * n;
    class_shift(rep, s64, bits);
    rep.class("boxed_grid");
    let b = bx(x);
    let xb = to_big(x);
    let ovf = s64 >= bits as u64;
    let wl = from_big(&shl_o(&xb, s64, bits), n);
    let wr = from_big(&shr_o(&xb, s64, bits), n);
    if let Some(v) = panics_iff(rep, "boxed.shl", ovf, || b.shl(s)) {
        exb(rep, "boxed.shl", &v, &wl);
    }
    if let Some(v) = panics_iff(rep, "boxed.shr", ovf, || b.shr(s)) {
        exb(rep, "boxed.shr", &v, &wr);
    }
    if let Some(v) = panics_iff(rep, "boxed.shl_assign", ovf, || {
        let mut t = b.clone();
        t.shl_assign(s);
        t
    }) {
        exb(rep, "boxed.shl_assign", &v, &wl);
    }
    if let Some(v) = panics_iff(rep, "boxed.shr_assign", ovf, || {
        let mut t = b.clone();
        t.shr_assign(s);
        t
    }) {
        exb(rep, "boxed.shr_assign", &v, &wr);
    }
    let (v, o) = b.overflowing_shl(s);
    if bool::from(o) != ovf {
        rep.fail("boxed.overflowing_shl.flag", format!("shift {} flag {}", s, bool::from(o)));
    }
    exb(rep, "boxed.overflowing_shl", &v, &wl);
    let (v, o) = b.overflowing_shr(s);
    if bool::from(o) != ovf {
        rep.fail("boxed.overflowing_shr.flag", format!("shift {} flag {}", s, bool::from(o)));
    }
    exb(rep, "boxed.overflowing_shr", &v, &wr);
    let mut t = b.clone();
    let o = t.overflowing_shl_assign(s);
    if bool::from(o) != ovf {
        rep.fail("boxed.overflowing_shl_assign.flag", format!("shift {}", s));
    }
    exb(rep, "boxed.overflowing_shl_assign", &t, &wl);
    let mut t = b.clone();
    let o = t.overflowing_shr_assign(s);
    if bool::from(o) != ovf {
        rep.fail("boxed.overflowing_shr_assign.flag", format!("shift {}", s));
    }
    exb(rep, "boxed.overflowing_shr_assign", &t, &wr);
    exb(rep, "boxed.wrapping_shl", &b.wrapping_shl(s), &wl);
    exb(rep, "boxed.wrapping_shr", &b.wrapping_shr(s), &wr);
    exb(rep, "boxed.wrapping_shl_vartime", &b.wrapping_shl_vartime(s), &wl);
    exb(rep, "boxed.wrapping_shr_vartime", &b.wrapping_shr_vartime(s), &wr);
    exb(rep, "boxed.WrappingShl", &WrappingShl::wrapping_shl(&b, s), &wl);
    exb(rep, "boxed.WrappingShr", &WrappingShr::wrapping_shr(&b, s), &wr);
    exb(rep, "boxed.ShlVartime::wrapping", &ShlVartime::wrapping_shl_vartime(&b, s), &wl);
    exb(rep, "boxed.ShrVartime::wrapping", &ShrVartime::wrapping_shr_vartime(&b, s), &wr);
    for (nm, got, want) in [
        ("boxed.shl_vartime", b.shl_vartime(s), &wl),
        ("boxed.shr_vartime", b.shr_vartime(s), &wr),
        ("boxed.ShlVartime::overflowing", ct(ShlVartime::overflowing_shl_vartime(&b, s)), &wl),
        ("boxed.ShrVartime::overflowing", ct(ShrVartime::overflowing_shr_vartime(&b, s)), &wr),
    ] {
        if got.map(|v| bl(&v)) != if ovf { None } else { Some(want.clone()) } {
            rep.fail(nm, format!("shift {} ovf {}", s, ovf));
        }
    }
    macro_rules! opforms {
        ($t:ty, $tag:expr) => {{
            if let Ok(sh) = <$t>::try_from(s) {
                if let Some(v) = panics_iff(rep, concat!("boxed.op_shl_", $tag), ovf, || b.clone() << sh) {
                    exb(rep, concat!("boxed.op_shl_", $tag), &v, &wl);
                }
                if let Some(v) = panics_iff(rep, concat!("boxed.op_shl_ref_", $tag), ovf, || &b << sh) {
                    exb(rep, concat!("boxed.op_shl_ref_", $tag), &v, &wl);
                }
                if let Some(v) = panics_iff(rep, concat!("boxed.op_shl_assign_", $tag), ovf, || {
                    let mut t = b.clone();
                    t <<= sh;
                    t
                }) {
                    exb(rep, concat!("boxed.op_shl_assign_", $tag), &v, &wl);
                }
                if let Some(v) = panics_iff(rep, concat!("boxed.op_shr_", $tag), ovf, || b.clone() >> sh) {
                    exb(rep, concat!("boxed.op_shr_", $tag), &v, &wr);
                }
                if let Some(v) = panics_iff(rep, concat!("boxed.op_shr_ref_", $tag), ovf, || &b >> sh) {
                    exb(rep, concat!("boxed.op_shr_ref_", $tag), &v, &wr);
                }
                if let Some(v) = panics_iff(rep, concat!("boxed.op_shr_assign_", $tag), ovf, || {
                    let mut t = b.clone();
                    t >>= sh;
                    t
                }) {
                    exb(rep, concat!("boxed.op_shr_assign_", $tag), &v, &wr);
                }
            }
        }};
    }
    opforms!(u32, "u32");
    opforms!(i32, "i32");
    opforms!(usize, "usize");
    // usize shift amounts that do not fit in u32 are >= BITS for every width: all operator forms panic
    if s == 0 {
        rep.class("usize_shift_beyond_u32");
        for big in [1usize << 32, (1usize << 32) + 3, usize::MAX] {
            panics_iff(rep, "boxed.op_shl_usize_beyond_u32", true, || b.clone() << big);
            panics_iff(rep, "boxed.op_shr_usize_beyond_u32", true, || b.clone() >> big);
            panics_iff(rep, "boxed.op_shl_ref_usize_beyond_u32", true, || &b << big);
            panics_iff(rep, "boxed.op_shr_ref_usize_beyond_u32", true, || &b >> big);
            panics_iff(rep, "boxed.op_shl_assign_usize_beyond_u32", true, || {
                let mut t = b.clone();
                t <<= big;
                t
            });
            panics_iff(rep, "boxed.op_shr_assign_usize_beyond_u32", true, || {
                let mut t = b.clone();
                t >>= big;
                t
            });
        }
    }
}

fn c_boxed_bits(c: &Case, rep: &mut Rep) {
    let x = &c.a[0];
    let f = facts(x);
    rep.nontrivial();
    let b = bx(x);
    let n = x.len() as u32;
    let checks: [(&str, u32, u32); 17] = [
        ("boxed.bits", b.bits(), f.bits),
        ("boxed.bits_vartime", b.bits_vartime(), f.bits),
        ("boxed.leading_zeros", b.leading_zeros(), f.lz),
        ("boxed.trailing_zeros", b.trailing_zeros(), f.tz),
        ("boxed.trailing_zeros_vartime", b.trailing_zeros_vartime(), f.tz),
        ("boxed.trailing_ones", b.trailing_ones(), f.to),
        ("boxed.trailing_ones_vartime", b.trailing_ones_vartime(), f.to),
        ("boxed.bits_precision", b.bits_precision(), 64 * n),
        ("boxed.BitOps::bits", BitOps::bits(&b), f.bits),
        ("boxed.BitOps::bits_vartime", BitOps::bits_vartime(&b), f.bits),
        ("boxed.BitOps::leading_zeros", BitOps::leading_zeros(&b), f.lz),
        ("boxed.BitOps::leading_zeros_vartime", BitOps::leading_zeros_vartime(&b), f.lz),
        ("boxed.BitOps::trailing_zeros", BitOps::trailing_zeros(&b), f.tz),
        ("boxed.BitOps::trailing_zeros_vartime", BitOps::trailing_zeros_vartime(&b), f.tz),
        ("boxed.BitOps::trailing_ones", BitOps::trailing_ones(&b), f.to),
        ("boxed.BitOps::trailing_ones_vartime", BitOps::trailing_ones_vartime(&b), f.to),
        ("boxed.BitOps::bytes_precision", BitOps::bytes_precision(&b) as u32, 8 * n),
    ];
    for (nm, got, want) in checks {
        if got != want {
            rep.fail(nm, format!("got {} want {}", got, want));
        }
    }
}

fn c_boxed_bit_index(c: &Case, rep: &mut Rep) {
    let x = &c.a[0];
    let idx = c.s[0] as u32;
    let bits = 64 * x.len() as u32;
    rep.nontrivial();
    let in_range = idx < bits;
    if !in_range {
        rep.class("bit_index_ge_bits");
    }
    let want = in_range && (x[(idx / 64) as usize] >> (idx % 64)) & 1 == 1;
    let b = bx(x);
    if bool::from(b.bit(idx)) != want || bool::from(BitOps::bit(&b, idx)) != want {
        rep.fail("boxed.bit", format!("index {}", idx));
    }
    if in_range {
        if b.bit_vartime(idx) != want || BitOps::bit_vartime(&b, idx) != want {
            rep.fail("boxed.bit_vartime", format!("index {}", idx));
        }
        for val in [false, true] {
            let mut w = x.clone();
            if val {
                w[(idx / 64) as usize] |= 1 << (idx % 64);
            } else {
                w[(idx / 64) as usize] &= !(1 << (idx % 64));
            }
            let mut t = b.clone();
            BitOps::set_bit(&mut t, idx, (val as u8).into());
            exb(rep, "boxed.BitOps::set_bit", &t, &w);
            let mut t = b.clone();
            BitOps::set_bit_vartime(&mut t, idx, val);
            exb(rep, "boxed.BitOps::set_bit_vartime", &t, &w);
        }
    } else {
        let mut t = b.clone();
        BitOps::set_bit(&mut t, idx, 1u8.into());
        exb(rep, "boxed.BitOps::set_bit.out_of_range_noop", &t, x);
    }
}

fn c_boxed_bitwise(c: &Case, rep: &mut Rep) {
    let (x, y) = (&c.a[0], &c.a[1]);
    rep.nontrivial();
    let m = x.len().max(y.len());
    let (mut xp, mut yp) = (x.clone(), y.clone());
    xp.resize(m, 0);
    yp.resize(m, 0);
    let (b1, b2) = (bx(x), bx(y));
    let and: Vec<u64> = xp.iter().zip(&yp).map(|(a, b)| a & b).collect();
    let or: Vec<u64> = xp.iter().zip(&yp).map(|(a, b)| a | b).collect();
    let xor: Vec<u64> = xp.iter().zip(&yp).map(|(a, b)| a ^ b).collect();
    let not: Vec<u64> = x.iter().map(|a| !a).collect();
    exb(rep, "boxed.bitand", &b1.bitand(&b2), &and);
    let andl: Vec<u64> = x.iter().map(|a| a & y[0]).collect();
    exb(rep, "boxed.bitand_limb", &b1.bitand_limb(Limb(y[0])), &andl);
    exb(rep, "boxed.wrapping_and", &b1.wrapping_and(&b2), &and);
    // checked_* bitwise forms are documented as always `some`
    match ct(b1.checked_and(&b2)) {
        Some(v) => exb(rep, "boxed.checked_and", &v, &and),
        None => rep.fail("boxed.checked_and.always_some", "none".into()),
    }
    match ct(b1.checked_or(&b2)) {
        Some(v) => exb(rep, "boxed.checked_or", &v, &or),
        None => rep.fail("boxed.checked_or.always_some", "none".into()),
    }
    match ct(b1.checked_xor(&b2)) {
        Some(v) => exb(rep, "boxed.checked_xor", &v, &xor),
        None => rep.fail("boxed.checked_xor.always_some", "none".into()),
    }
    exb(rep, "boxed.op_and", &(b1.clone() & b2.clone()), &and);
    exb(rep, "boxed.op_and_ref", &(&b1 & &b2), &and);
    exb(rep, "boxed.bitor", &b1.bitor(&b2), &or);
    exb(rep, "boxed.wrapping_or", &b1.wrapping_or(&b2), &or);
    exb(rep, "boxed.op_or", &(b1.clone() | b2.clone()), &or);
    exb(rep, "boxed.op_or_ref", &(&b1 | &b2), &or);
    exb(rep, "boxed.bitxor", &b1.bitxor(&b2), &xor);
    exb(rep, "boxed.wrapping_xor", &b1.wrapping_xor(&b2), &xor);
    exb(rep, "boxed.op_xor", &(b1.clone() ^ b2.clone()), &xor);
    exb(rep, "boxed.op_xor_ref", &(&b1 ^ &b2), &xor);
    exb(rep, "boxed.not", &b1.not(), &not);
    exb(rep, "boxed.op_not", &(!b1.clone()), &not);
    if x.len() == y.len() {
        let mut t = b1.clone();
        t &= b2.clone();
        exb(rep, "boxed.op_and_assign", &t, &and);
        let mut t = b1.clone();
        t &= &b2;
        exb(rep, "boxed.op_and_assign_ref", &t, &and);
        let mut t = b1.clone();
        t |= b2.clone();
        exb(rep, "boxed.op_or_assign", &t, &or);
        let mut t = b1.clone();
        t |= &b2;
        exb(rep, "boxed.op_or_assign_ref", &t, &or);
        let mut t = b1.clone();
        t ^= b2.clone();
        exb(rep, "boxed.op_xor_assign", &t, &xor);
        let mut t = b1.clone();
        t ^= &b2;
        exb(rep, "boxed.op_xor_assign_ref", &t, &xor);
    }
}

// -------------------------------------------------------------------------------------------

fn values(r: &mut Rng, n: usize, k: usize) -> Vec<Vec<u64>> {
    let bits = 64 * n;
    let mut v = vec![gn::max(n), gn::one(n), gn::single_bit(n, bits - 1)];
    // runs of ones ending at limb boundaries; single bits around limb boundaries
    let lb = 64 * (1 + r.usize_below(n));
    v.push(gn::low_ones(n, lb));
    let hi_run: Vec<u64> = gn::low_ones(n, bits - lb.min(bits)).iter().map(|x| !x).collect();
    v.push(hi_run);
    v.push(gn::single_bit(n, (lb - 1).min(bits - 1)));
    v.push(gn::single_bit(n, lb % bits));
    while v.len() < k {
        v.push(gn::uint(r, n));
    }
    v.truncate(k.max(3));
    v
}

const WIDTHS: [usize; 8] = [1, 2, 3, 4, 5, 6, 8, 16];

pub fn workload(ctx: &mut Ctx) {
    let k = match ctx.tier {
        Tier::Thorough => 48,
        Tier::Quick => 16,
        Tier::Lite | Tier::Miri => 3,
    };
    // Limb: every shift 0..=129 and specials
    for s in (0u64..=129).chain([1 << 31, u32::MAX as u64]) {
        if !ctx.mine() {
            continue;
        }
        for &x in gn::PALETTE.iter() {
            ctx.exec(Case::new("limb.shift").s(x).s(s), c_limb_shift);
        }
        for _ in 0..k {
            let x = gn::limb(&mut ctx.rng);
            ctx.exec(Case::new("limb.shift").s(x).s(s), c_limb_shift);
        }
    }
    for _ in 0..ctx.iters(100_000) {
        let (x, y) = (gn::limb(&mut ctx.rng), gn::limb(&mut ctx.rng));
        ctx.exec(Case::new("limb.bits").s(x).s(y), c_limb_bits);
    }
    for &l in &WIDTHS {
        let bits = 64 * l as u64;
        // shifts: exhaustive 0..=2*BITS+1 and specials
        for s in (0..=2 * bits + 1).chain([1 << 31, u32::MAX as u64]) {
            if !ctx.mine() {
                continue;
            }
            for x in values(&mut ctx.rng, l, k) {
                ctx.exec(Case::new("uint.shift").w(l).a(x.clone()).s(s), c_uint_shift);
                ctx.exec(Case::new("int.shift").w(l).a(x).s(s), c_int_shift);
            }
            // wide forms: the same grid is over 0..=2*BITS+1 of the double width
            for _ in 0..(k / 2).max(2) {
                let lo = gn::uint(&mut ctx.rng, l);
                let hi = match ctx.rng.below(3) {
                    0 => gn::zero(l),
                    _ => gn::uint(&mut ctx.rng, l),
                };
                ctx.exec(Case::new("uint.shift_wide").w(l).a(lo).a(hi).s(s), c_uint_shift_wide);
            }
        }
        for s in 2 * bits + 2..=4 * bits + 1 {
            if !ctx.mine() {
                continue;
            }
            let lo = gn::uint(&mut ctx.rng, l);
            let hi = gn::uint(&mut ctx.rng, l);
            ctx.exec(Case::new("uint.shift_wide").w(l).a(lo).a(hi).s(s), c_uint_shift_wide);
        }
        // bit index: exhaustive 0..=BITS+1 and specials
        for idx in (0..=bits + 1).chain([u32::MAX as u64, 1 << 31, 2 * bits]) {
            if !ctx.mine() {
                continue;
            }
            for x in values(&mut ctx.rng, l, k) {
                ctx.exec(Case::new("uint.bit_index").w(l).a(x).s(idx), c_uint_bit_index);
            }
            // the value with exactly that bit set / cleared
            if idx < bits {
                let sb = gn::single_bit(l, idx as usize);
                let inv: Vec<u64> = sb.iter().map(|x| !x).collect();
                ctx.exec(Case::new("uint.bit_index").w(l).a(sb.clone()).s(idx), c_uint_bit_index);
                ctx.exec(Case::new("uint.bit_index").w(l).a(inv.clone()).s(idx), c_uint_bit_index);
                // bit facts on every single-bit value and every run of ones
                ctx.exec(Case::new("uint.bits").w(l).a(sb), c_uint_bits);
                ctx.exec(Case::new("uint.bits").w(l).a(inv), c_uint_bits);
                ctx.exec(Case::new("uint.bits").w(l).a(gn::low_ones(l, idx as usize)), c_uint_bits);
                let hi: Vec<u64> = gn::low_ones(l, idx as usize).iter().map(|x| !x).collect();
                ctx.exec(Case::new("uint.bits").w(l).a(hi), c_uint_bits);
            }
        }
        ctx.exec(Case::new("uint.bits").w(l).a(gn::zero(l)), c_uint_bits);
        ctx.exec(Case::new("uint.bits").w(l).a(gn::max(l)), c_uint_bits);
        for _ in 0..ctx.iters(40_000) {
            let x = gn::uint(&mut ctx.rng, l);
            ctx.exec(Case::new("uint.bits").w(l).a(x.clone()), c_uint_bits);
            let y = gn::related(&mut ctx.rng, &x);
            ctx.exec(Case::new("uint.bitwise").w(l).a(x).a(y), c_uint_bitwise);
        }
    }
    // boxed 1..=20 limbs
    for n in 1..=20usize {
        let bits = 64 * n as u64;
        let kk = (k / 2).max(3);
        for s in (0..=2 * bits + 1).chain([1 << 31, u32::MAX as u64]) {
            if !ctx.mine() {
                continue;
            }
            for x in values(&mut ctx.rng, n, kk) {
                ctx.exec(Case::new("boxed.shift").w(n).a(x).s(s), c_boxed_shift);
            }
        }
        for idx in (0..=bits + 1).chain([u32::MAX as u64, 2 * bits]) {
            if !ctx.mine() {
                continue;
            }
            for x in values(&mut ctx.rng, n, kk) {
                ctx.exec(Case::new("boxed.bit_index").w(n).a(x).s(idx), c_boxed_bit_index);
            }
            if idx < bits {
                let sb = gn::single_bit(n, idx as usize);
                ctx.exec(Case::new("boxed.bits").w(n).a(sb.clone()).s(idx), c_boxed_bits);
                ctx.exec(Case::new("boxed.bits").w(n).a(gn::low_ones(n, idx as usize)), c_boxed_bits);
                let inv: Vec<u64> = sb.iter().map(|x| !x).collect();
                ctx.exec(Case::new("boxed.bits").w(n).a(inv), c_boxed_bits);
            }
        }
        ctx.exec(Case::new("boxed.bits").w(n).a(gn::zero(n)), c_boxed_bits);
        for _ in 0..ctx.iters(10_000) {
            let x = gn::uint(&mut ctx.rng, n);
            ctx.exec(Case::new("boxed.bits").w(n).a(x.clone()), c_boxed_bits);
            let m = if ctx.rng.chance(2, 3) { n } else { 1 + ctx.rng.usize_below(20) };
            let y = gn::uint(&mut ctx.rng, m);
            ctx.exec(Case::new("boxed.bitwise").w(n).w(m).a(x).a(y), c_boxed_bitwise);
        }
    }
}
