"""Checks that need more than one vprops run (C01 trace monitors, C11 two profiles + Miri, ...)."""
import os
import time

SPECIAL = {}


def setup(drv):
    drv.cargo_build("vrel")
    drv.cargo_build("vdbg")
    return 0
