//! BigUint / BigInt oracle helpers (num-bigint shares no code with crypto-bigint).
use num_bigint::{BigInt, BigUint, Sign};
use num_traits::{One, Zero};

pub fn to_big(l: &[u64]) -> BigUint {
    let mut bytes = Vec::with_capacity(l.len() * 8);
    for x in l {
        bytes.extend_from_slice(&x.to_le_bytes());
    }
    BigUint::from_bytes_le(&bytes)
}

/// v mod 2^(64 n) as n little-endian limbs.
pub fn from_big(v: &BigUint, n: usize) -> Vec<u64> {
    let mut d = v.to_u64_digits();
    d.resize(n.max(d.len()), 0);
    d.truncate(n);
    d
}

pub fn fits(v: &BigUint, n: usize) -> bool {
    v.bits() as usize <= 64 * n
}

pub fn pow2(k: usize) -> BigUint {
    BigUint::one() << k
}

pub fn mask(k: usize) -> BigUint {
    pow2(k) - BigUint::one()
}

/// Two's-complement interpretation of n limbs.
pub fn to_bigint(l: &[u64]) -> BigInt {
    let u = to_big(l);
    let n = l.len();
    if n > 0 && l[n - 1] >> 63 == 1 {
        BigInt::from_biguint(Sign::Plus, u) - BigInt::from_biguint(Sign::Plus, pow2(64 * n))
    } else {
        BigInt::from_biguint(Sign::Plus, u)
    }
}

/// v mod 2^(64 n) as two's complement limbs.
pub fn from_bigint(v: &BigInt, n: usize) -> Vec<u64> {
    let m = BigInt::from_biguint(Sign::Plus, pow2(64 * n));
    let mut r = v % &m;
    if r.sign() == Sign::Minus {
        r += &m;
    }
    from_big(&r.to_biguint().unwrap(), n)
}

pub fn int_fits(v: &BigInt, n: usize) -> bool {
    let half = BigInt::from_biguint(Sign::Plus, pow2(64 * n - 1));
    *v >= -&half && *v < half
}

pub fn hex(l: &[u64]) -> String {
    if l.is_empty() {
        return "0x".into();
    }
    let mut s = String::from("0x");
    for x in l.iter().rev() {
        s.push_str(&format!("{:016x}", x));
    }
    s
}

pub fn parse_hex(s: &str) -> Vec<u64> {
    let s = s.trim_start_matches("0x");
    let mut v = Vec::new();
    let bytes = s.as_bytes();
    let mut end = bytes.len();
    while end > 0 {
        let start = end.saturating_sub(16);
        v.push(u64::from_str_radix(&s[start..end], 16).expect("hex limb"));
        end = start;
    }
    v
}

pub fn bhex(v: &BigUint) -> String {
    format!("0x{:x}", v)
}

pub fn is_zero(l: &[u64]) -> bool {
    l.iter().all(|&x| x == 0)
}

pub fn bits_of(l: &[u64]) -> usize {
    for i in (0..l.len()).rev() {
        if l[i] != 0 {
            return 64 * i + 64 - l[i].leading_zeros() as usize;
        }
    }
    0
}

pub fn modinv(a: &BigUint, m: &BigUint) -> Option<BigUint> {
    // extended Euclid on BigInt
    if m.is_zero() {
        return None;
    }
    let (mut r0, mut r1) = (BigInt::from(m.clone()), BigInt::from(a % m));
    let (mut t0, mut t1) = (BigInt::zero(), BigInt::one());
    while !r1.is_zero() {
        let q = &r0 / &r1;
        let r2 = &r0 - &q * &r1;
        r0 = r1;
        r1 = r2;
        let t2 = &t0 - &q * &t1;
        t0 = t1;
        t1 = t2;
    }
    if !r0.is_one() {
        return None;
    }
    let mi = BigInt::from(m.clone());
    let mut t = t0 % &mi;
    if t.sign() == Sign::Minus {
        t += &mi;
    }
    Some(t.to_biguint().unwrap())
}
