#!/bin/bash
# Runs the repository's own test suite (baseline command + all-features) on a scratch worktree of /repo HEAD,
# so /repo's working tree stays free for mutant trials. Removes the worktree afterwards.
set -u
d=/tmp/rt.$$
git -C /repo worktree add -q --detach $d HEAD || exit 2
cd $d
echo "== default features (baseline)"; cargo test --workspace --no-fail-fast --offline -j ${JOBS:-6} 2>&1 | grep -E "^test result|FAILED|failed|^error" | head -40
if [ "${ALL:-1}" = 1 ]; then echo "== all features"; cargo test --all-features --no-fail-fast --offline -j ${JOBS:-6} 2>&1 | grep -E "^test result|FAILED|failed|^error" | head -40; fi
cd /; git -C /repo worktree remove --force $d
echo "== done $(git -C /repo rev-parse --short HEAD)"
