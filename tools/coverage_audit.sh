#!/bin/bash
# Coverage audit (advisory, not a registered check): which functions / lines of /repo/src do the
# monitors' workloads actually execute?  Builds harness/props with -Cinstrument-coverage on the
# nightly toolchain (llvm-cov / llvm-profdata live in its sysroot), runs every generic property's
# workload at tier miri (the smallest; instrumented runs are 50-100x slower), merges the profiles and writes
#   /verif/design/coverage_summary.txt   per-file line/function coverage of /repo/src
#   /verif/design/coverage_unreached.txt functions of /repo/src with zero executions
# (C11 is skipped: its own workload is dominated by huge-precision calls that take minutes under
# the opt-level-1 coverage build, and its sweep re-runs the other workloads anyway.)
# usage: tools/coverage_audit.sh [tier] [seed]
set -euo pipefail
TIER=${1:-miri}
SEED=${2:-1}
H=/verif/harness
TD=$H/target/cov
SYS=$(rustc +nightly --print sysroot)
BIN=$SYS/lib/rustlib/x86_64-unknown-linux-gnu/bin
export CARGO_NET_OFFLINE=true
cd $H
LLVM_PROFILE_FILE=$TD/build-%p.profraw RUSTFLAGS="-Cinstrument-coverage" cargo +nightly build --offline -q --profile vrel -p props --target-dir $TD
EXE=$TD/vrel/vprops
PROF=$TD/prof
rm -rf $PROF; mkdir -p $PROF
for P in C02 C03 C04 C05 C06 C07 C08 C09 C10 C12 C13 C14 C15 C16 C17 C18 C19 C20; do
  LLVM_PROFILE_FILE=$PROF/$P-%p.profraw $EXE run $P --tier $TIER --seed $SEED --threads 4 --out $PROF/$P.json >/dev/null 2>&1 || echo "note: $P exited non-zero under the coverage build (ignored here)"
done
$BIN/llvm-profdata merge -sparse $PROF/*.profraw -o $PROF/all.profdata
mkdir -p /verif/design
$BIN/llvm-cov report $EXE -instr-profile=$PROF/all.profdata --ignore-filename-regex='(\.cargo|rustc|/verif/)' 2>/dev/null > /verif/design/coverage_summary.txt || true
$BIN/llvm-cov export $EXE -instr-profile=$PROF/all.profdata --ignore-filename-regex='(\.cargo|rustc|/verif/)' -format=text 2>/dev/null > $PROF/export.json
python3 - "$PROF/export.json" <<'EOF'
import json, sys, subprocess, collections
d = json.load(open(sys.argv[1]))
fn = collections.defaultdict(lambda: [0, set()])
for f in d['data'][0]['functions']:
    files = [x for x in f['filenames'] if x.startswith('/repo/src')]
    if not files:
        continue
    # group monomorphisations by (file, first region line)
    r = f['regions'][0]
    key = (files[0], r[0])
    fn[key][0] += f['count']
    fn[key][1].add(f['name'])
un = sorted(k for k, v in fn.items() if v[0] == 0)
names = []
for k in un:
    nm = sorted(fn[k][1])[0]
    try:
        nm = subprocess.run(['rustfilt'], input=nm, capture_output=True, text=True).stdout.strip() or nm
    except Exception:
        pass
    names.append("%s:%d  %s" % (k[0], k[1], nm))
open('/verif/design/coverage_unreached.txt', 'w').write(
    "# functions of /repo/src instantiated in the harness binary but never executed by any workload (%d of %d)\n" % (len(un), len(fn)) + "\n".join(names) + "\n")
print("functions instantiated:", len(fn), "never executed:", len(un))
EOF
tail -1 /verif/design/coverage_summary.txt
