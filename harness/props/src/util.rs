//! Conversions between harness limb vectors and the crate's types, width dispatch macros.
#![allow(dead_code)]
use crypto_bigint::{BoxedUint, Int, Limb, NonZero, Odd, Uint};
pub use num_bigint::{BigInt, BigUint};
pub use num_traits::{One, Zero};
pub use vcore::gn;
pub use vcore::run::{Checker, panic_sig};
pub use vcore::*;

pub fn u<const L: usize>(l: &[u64]) -> Uint<L> {
    let mut w = [0u64; L];
    w.copy_from_slice(&l[..L]);
    Uint::from_words(w)
}
pub fn ul<const L: usize>(x: &Uint<L>) -> Vec<u64> {
    x.to_words().to_vec()
}
pub fn ub<const L: usize>(x: &Uint<L>) -> BigUint {
    to_big(&x.to_words())
}
pub fn i<const L: usize>(l: &[u64]) -> Int<L> {
    Int::from_words({
        let mut w = [0u64; L];
        w.copy_from_slice(&l[..L]);
        w
    })
}
pub fn il<const L: usize>(x: &Int<L>) -> Vec<u64> {
    x.to_words().to_vec()
}
pub fn bx(l: &[u64]) -> BoxedUint {
    BoxedUint::from_words(l.iter().copied())
}
pub fn bl(x: &BoxedUint) -> Vec<u64> {
    x.to_words().to_vec()
}
pub fn bb(x: &BoxedUint) -> BigUint {
    to_big(&x.to_words())
}
pub fn nz<const L: usize>(l: &[u64]) -> NonZero<Uint<L>> {
    Option::from(NonZero::new(u::<L>(l))).expect("harness: nonzero operand")
}
pub fn nzb(l: &[u64]) -> NonZero<BoxedUint> {
    Option::from(NonZero::new(bx(l))).expect("harness: nonzero operand")
}
pub fn nzl(x: u64) -> NonZero<Limb> {
    Option::from(NonZero::new(Limb(x))).expect("harness: nonzero limb")
}
pub fn od<const L: usize>(l: &[u64]) -> Odd<Uint<L>> {
    Option::from(Odd::new(u::<L>(l))).expect("harness: odd operand")
}
pub fn odb(l: &[u64]) -> Odd<BoxedUint> {
    Option::from(Odd::new(bx(l))).expect("harness: odd operand")
}
pub fn ct<T>(x: subtle::CtOption<T>) -> Option<T> {
    Option::from(x)
}
pub fn cct<T>(x: crypto_bigint::ConstCtOption<T>) -> Option<T> {
    Option::from(x)
}

/// Dispatch a generic `fn f<const L: usize>(args..)` on a run-time width.
#[macro_export]
macro_rules! dispatch {
    ($w:expr, [$($n:literal),* $(,)?], $f:ident $args:tt) => {
        match $w {
            $($n => $f::<$n> $args,)*
            other => panic!("harness: width {} not instantiated for {}", other, stringify!($f)),
        }
    };
}

/// Dispatch on two run-time widths (cartesian product of the two lists).
#[macro_export]
macro_rules! dispatch2 {
    ($w1:expr, $w2:expr, [$($n:literal),*], $rhs:tt, $f:ident $args:tt) => {
        match $w1 {
            $($n => $crate::dispatch2!(@inner $n, $w2, $rhs, $f $args),)*
            other => panic!("harness: width {} not instantiated for {}", other, stringify!($f)),
        }
    };
    (@inner $n:literal, $w2:expr, [$($m:literal),*], $f:ident $args:tt) => {
        match $w2 {
            $($m => $f::<$n, $m> $args,)*
            other => panic!("harness: rhs width {} not instantiated for {}", other, stringify!($f)),
        }
    };
}

/// `f` must panic exactly when `should` (documented panic).  Distinct keys for a missing and a
/// spurious panic; the value is only returned (for comparison) when no panic was due.
pub fn panics_iff<R>(rep: &mut Rep, rel: &str, should: bool, f: impl FnOnce() -> R) -> Option<R> {
    match catch(f) {
        Ok(r) => {
            if should {
                rep.fail(&format!("{}.missing_panic", rel), "documented panic did not happen".into());
                None
            } else {
                Some(r)
            }
        }
        Err(m) => {
            if !should {
                rep.fail(&format!("{}.spurious_panic", rel), format!("panic outside the documented cases: {}", m));
            }
            None
        }
    }
}

/// `Checked<T>`: a none operand on either side, in every operator form, must give none.
#[macro_export]
macro_rules! sticky_none {
    ($rep:expr, $tag:expr, $some:expr, $none:expr, $op:tt, $opa:tt) => {{
        let (s_, n_) = ($some, $none);
        let mut bad: Vec<&str> = Vec::new();
        if bool::from((n_ $op s_).0.is_some()) { bad.push("none_op_some"); }
        if bool::from((n_ $op &s_).0.is_some()) { bad.push("none_op_ref_some"); }
        if bool::from((&n_ $op s_).0.is_some()) { bad.push("ref_none_op_some"); }
        if bool::from((&n_ $op &s_).0.is_some()) { bad.push("ref_none_op_ref_some"); }
        if bool::from((s_ $op n_).0.is_some()) { bad.push("some_op_none"); }
        if bool::from((s_ $op &n_).0.is_some()) { bad.push("some_op_ref_none"); }
        if bool::from((&s_ $op n_).0.is_some()) { bad.push("ref_some_op_none"); }
        if bool::from((&s_ $op &n_).0.is_some()) { bad.push("ref_some_op_ref_none"); }
        let mut t = s_; t $opa n_;
        if bool::from(t.0.is_some()) { bad.push("some_assign_none"); }
        let mut t = s_; t $opa &n_;
        if bool::from(t.0.is_some()) { bad.push("some_assign_ref_none"); }
        let mut t = n_; t $opa s_;
        if bool::from(t.0.is_some()) { bad.push("none_assign_some"); }
        let mut t = n_; t $opa &s_;
        if bool::from(t.0.is_some()) { bad.push("none_assign_ref_some"); }
        let mut t = n_; t $opa n_;
        if bool::from(t.0.is_some()) { bad.push("none_assign_none"); }
        for b in bad {
            $rep.fail(&format!("{}.sticky_none.{}", $tag, b), "a none operand produced some".into());
        }
    }};
}

pub struct PropDef {
    pub id: &'static str,
    pub workload: fn(&mut Ctx),
    pub ops: fn() -> Vec<(&'static str, Checker)>,
    /// classes that must be non-empty for the run to count as conclusive
    pub mandatory: &'static [&'static str],
    pub rule: &'static str,
}

pub fn find_op(p: &PropDef, op: &str) -> Option<Checker> {
    (p.ops)().into_iter().find(|(n, _)| *n == op).map(|(_, f)| f)
}
