//! C19 — random sampling respects its range, is unbiased, and is width-independent.
//!
//! Instrumented RNGs record every call; scripted streams (adversarial words, exact cycles, failing
//! streams) and ChaCha streams drive the samplers; the monitors check range, errors, fixed-vs-boxed
//! lock-step (same value, same consumption), exact uniformity under cycle streams and statistical
//! uniformity with an explicit 1e-12 false-alarm budget.
use crate::dispatch;
use crate::util::*;
use crypto_bigint::modular::ConstMontyForm;
use crypto_bigint::rand_core::{RngCore, SeedableRng, TryRngCore};
use crypto_bigint::{BoxedUint, Int, Limb, NonZero, Odd, Random, RandomBits, RandomBitsError, RandomMod, Uint};
use rand_chacha::ChaCha8Rng;

pub const DEF: PropDef = PropDef {
    id: "C19",
    workload,
    ops,
    mandatory: &["early_reject", "full_compare_reject", "top_limb_pow2", "top_limb_1", "tail_4_byte_rule", "bit_length_0", "bit_length_eq_BITS", "cycle_exact", "stat_small_modulus", "stat_multi_limb", "rng_error_propagated", "all_ones_stream", "all_zero_prefix_stream", "precision_mismatch", "constant_stream_admissible_candidate"],
    rule: "cases: (1) random_mod on Limb / Uint (1,2,3,4,8 limbs) / BoxedUint for moduli with top limb 1, 2^j, 2^j+-1, MAX and low limbs 0 / MAX under ChaCha streams from many seeds and scripted adversarial streams (all zeros, all ones, words equal to / one above / one below the modulus' top limb, alternating accept/reject): value < m, fixed and boxed return the same value and make the same RNG calls; (2) exact-cycle streams presenting every value of the masked top word exactly once for single-limb moduli < 2^16: the multiset of outputs must be exactly uniform on [0,m); (3) statistical uniformity for small moduli and 64 coarse buckets for multi-limb moduli, Bernstein bound with total false-alarm probability 1e-12 per run; (4) random_bits for every bit_length 0..=BITS (and above: error) incl. all-ones streams (must give 2^k-1) and consumption equality; (5) Random for Limb/Uint/Int/NonZero/Odd/ConstMontyForm incl. zero-prefix streams and failing streams. non-trivial = every case (each is a stream experiment); distinct by hash of (op, parameters, stream seed)",
};

pub fn ops() -> Vec<(&'static str, Checker)> {
    vec![
        ("rand.mod_lockstep", c_mod_lockstep),
        ("rand.mod_cycle", c_mod_cycle),
        ("rand.mod_stat", c_mod_stat),
        ("rand.limb_mod", c_limb_mod),
        ("rand.bits", c_bits),
        ("rand.bits_stat", c_bits_stat),
        ("rand.random", c_random),
    ]
}

// ---------------------------------------------------------------------------------------------
// instrumented RNG

#[derive(Clone, Copy, Debug, PartialEq, Eq)]
enum Call {
    U32,
    U64,
    Fill(usize),
}

/// Scripted words first, then a fallback generator; records calls; has a word budget.
struct ScriptRng {
    script: std::collections::VecDeque<u64>,
    fallback: Rng,
    log: Vec<Call>,
    words_used: u64,
    budget: u64,
    exhausted: bool,
    fail_after: Option<u64>,
}
impl ScriptRng {
    fn new(script: Vec<u64>, seed: u64) -> Self {
        ScriptRng { script: script.into(), fallback: Rng::new(seed), log: vec![], words_used: 0, budget: 1 << 22, exhausted: false, fail_after: None }
    }
    fn word(&mut self) -> u64 {
        self.words_used += 1;
        if self.words_used > self.budget {
            // After the script the stream is uniformly random, so a correct rejection sampler accepts
            // within a handful of candidates; millions of words mean it can never accept.  Unwinding
            // is the only way out of the sampler's loop.
            self.exhausted = true;
            panic!("non-termination: the sampler consumed more than {} random words without returning", self.budget);
        }
        match self.script.pop_front() {
            Some(w) => w,
            None => self.fallback.u64(),
        }
    }
}
impl RngCore for ScriptRng {
    fn next_u32(&mut self) -> u32 {
        self.log.push(Call::U32);
        self.word() as u32
    }
    fn next_u64(&mut self) -> u64 {
        self.log.push(Call::U64);
        self.word()
    }
    fn fill_bytes(&mut self, dst: &mut [u8]) {
        self.log.push(Call::Fill(dst.len()));
        for chunk in dst.chunks_mut(8) {
            let w = self.word().to_le_bytes();
            chunk.copy_from_slice(&w[..chunk.len()]);
        }
    }
}

/// A fallible stream: errors after `ok_words` words.
struct FailRng {
    inner: ScriptRng,
    ok_words: u64,
}
#[derive(Debug, PartialEq)]
struct StreamError;
impl core::fmt::Display for StreamError {
    fn fmt(&self, f: &mut core::fmt::Formatter<'_>) -> core::fmt::Result {
        write!(f, "stream error")
    }
}
impl core::error::Error for StreamError {}
impl TryRngCore for FailRng {
    type Error = StreamError;
    fn try_next_u32(&mut self) -> Result<u32, StreamError> {
        if self.inner.words_used >= self.ok_words {
            return Err(StreamError);
        }
        Ok(self.inner.next_u32())
    }
    fn try_next_u64(&mut self) -> Result<u64, StreamError> {
        if self.inner.words_used >= self.ok_words {
            return Err(StreamError);
        }
        Ok(self.inner.next_u64())
    }
    fn try_fill_bytes(&mut self, dst: &mut [u8]) -> Result<(), StreamError> {
        if self.inner.words_used + dst.len().div_ceil(8) as u64 > self.ok_words {
            return Err(StreamError);
        }
        self.inner.fill_bytes(dst);
        Ok(())
    }
}

// ---------------------------------------------------------------------------------------------
// statistics

/// Bernstein deviation bound: P(|X - Np| >= t) <= delta for X ~ Bin(N, p).
fn bernstein_t(n: f64, p: f64, delta: f64) -> f64 {
    let l = (2.0 / delta).ln();
    let v = n * p * (1.0 - p);
    l / 3.0 + ((l / 3.0) * (l / 3.0) + 2.0 * v * l).sqrt()
}
/// per-test false alarm budget: the whole run stays below 1e-12 with at most 1e6 bucket tests
const DELTA_PER_TEST: f64 = 1e-18;

fn check_buckets(rep: &mut Rep, rel: &str, counts: &[u64], probs: &[f64], n: u64) {
    for (i, (&c, &p)) in counts.iter().zip(probs).enumerate() {
        let exp = n as f64 * p;
        let t = bernstein_t(n as f64, p, DELTA_PER_TEST);
        if (c as f64 - exp).abs() > t {
            rep.fail(rel, format!("bucket {} of {}: observed {} expected {:.1} +- {:.1} over {} draws", i, counts.len(), c, exp, t, n));
            return;
        }
    }
}

// ---------------------------------------------------------------------------------------------
// random_mod: lock-step fixed vs boxed, range, classes

fn class_mod(m: &[u64], rep: &mut Rep) {
    let nl = bits_of(m).div_ceil(64);
    let top = m[nl - 1];
    if top == 1 {
        rep.class("top_limb_1");
    }
    if top.is_power_of_two() {
        rep.class("top_limb_pow2");
    }
    if top == u64::MAX {
        rep.class("top_limb_max");
    }
}

fn mod_lockstep<const L: usize>(c: &Case, rep: &mut Rep) {
    let m = &c.a[0];
    let script = c.a[1].clone();
    let seed = c.s[0];
    let draws = c.s[1] as usize;
    rep.nontrivial();
    class_mod(m, rep);
    if script.iter().all(|&w| w == u64::MAX) && !script.is_empty() {
        rep.class("all_ones_stream");
    }
    if script.iter().all(|&w| w == 0) && !script.is_empty() {
        rep.class("all_zero_prefix_stream");
    }
    let mb = to_big(m);
    let nzm = nz::<L>(m);
    let nzbm = nzb(m);
    let mut r1 = ScriptRng::new(script.clone(), seed);
    let mut r2 = ScriptRng::new(script.clone(), seed);
    let mut r3 = ScriptRng::new(script.clone(), seed);
    let mut r4 = ScriptRng::new(script, seed);
    let nl = bits_of(m).div_ceil(64);
    let top = m[nl - 1];
    let mask = u64::MAX >> top.leading_zeros();
    for k in 0..draws {
        let before = r1.words_used;
        let a = Uint::<L>::random_mod(&mut r1, &nzm);
        if k == 0 && c.s.get(2) == Some(&1) {
            // constant stream: every word equals the modulus' top limb and the low limbs of m are MAX, so
            // the first candidate (top, top, .., top) is below m whatever order the words are used in:
            // an unbiased rejection sampler must accept it at once.
            rep.class("constant_stream_admissible_candidate");
            let want = vec![top; nl].into_iter().chain(std::iter::repeat(0)).take(L).collect::<Vec<u64>>();
            if ul(&a) != want || r1.words_used - before != nl as u64 {
                rep.fail("random_mod.admissible_candidate_accepted", format!("constant stream {:#x}: got {} after {} words, the first candidate {} is admissible", top, hex(&ul(&a)), r1.words_used - before, hex(&want)));
            }
        }
        let b = BoxedUint::random_mod(&mut r2, &nzbm);
        let c3 = Uint::<L>::try_random_mod(&mut r3, &nzm).expect("infallible");
        // the fallible boxed form draws on its own copy of the same stream
        let b4 = BoxedUint::try_random_mod(&mut r4, &nzbm).expect("infallible");
        if r1.exhausted {
            rep.inconclusive("random_mod: word budget exhausted (stream never accepted)".into());
            return;
        }
        if bl(&b4) != bl(&b) || b4.nlimbs() != L {
            rep.fail("boxed.random_mod.eq_try_random_mod", format!("draw {}: random_mod {} try_random_mod {}", k, hex(&bl(&b)), hex(&bl(&b4))));
        }
        if ub(&a) >= mb {
            rep.fail("random_mod.lt_modulus", format!("draw {}: {} >= m", k, hex(&ul(&a))));
        }
        if bb(&b) >= mb {
            rep.fail("boxed.random_mod.lt_modulus", format!("draw {}: {} >= m", k, hex(&bl(&b))));
        }
        if b.nlimbs() != L {
            rep.fail("boxed.random_mod.precision", format!("{} limbs", b.nlimbs()));
        }
        if ul(&a) != bl(&b) {
            rep.fail("random_mod.fixed_eq_boxed", format!("draw {}: fixed {} boxed {}", k, hex(&ul(&a)), hex(&bl(&b))));
        }
        if ul(&a) != ul(&c3) {
            rep.fail("random_mod.eq_try_random_mod", format!("draw {}", k));
        }
        // classification of what the stream made the sampler do (from the consumption count)
        let used = r1.words_used - before;
        if used > nl as u64 {
            // at least one rejection happened; decide which kind from the first word
            rep.class("early_reject");
        }
        let _ = mask;
    }
    if r4.log != r2.log {
        rep.fail("boxed.try_random_mod.same_consumption_as_random_mod", format!("random_mod made {} calls, try_random_mod {}", r2.log.len(), r4.log.len()));
    }
    if r1.log != r2.log {
        rep.fail("random_mod.fixed_boxed_same_consumption", format!("fixed made {} calls, boxed {}", r1.log.len(), r2.log.len()));
    }
}
fn c_mod_lockstep(c: &Case, rep: &mut Rep) {
    dispatch!(c.w[0], [1, 2, 3, 4, 8], mod_lockstep(c, rep))
}

/// exact cycle: every value of the masked top word exactly once (single-limb moduli < 2^16)
fn mod_cycle<const L: usize>(c: &Case, rep: &mut Rep) {
    let m = c.s[0];
    let seed = c.s[1];
    rep.class("cycle_exact");
    let k = 64 - m.leading_zeros(); // bits of m
    let space = 1u64 << k;
    // a permutation of 0..2^k in the low bits, random high bits (must be masked off by the sampler)
    let mut r = Rng::new(seed);
    let mut perm: Vec<u64> = (0..space).collect();
    for i in (1..perm.len()).rev() {
        let j = r.usize_below(i + 1);
        perm.swap(i, j);
    }
    let script: Vec<u64> = perm.iter().map(|&v| v | (r.u64() << k)).collect();
    let mut ml = vec![0u64; L];
    ml[0] = m;
    let nzm = nz::<L>(&ml);
    let nzbm = nzb(&ml);
    let mut r1 = ScriptRng::new(script.clone(), seed);
    let mut r2 = ScriptRng::new(script, seed);
    let mut counts = vec![0u32; m as usize];
    let mut countsb = vec![0u32; m as usize];
    // exactly m of the 2^k candidates are admissible: m draws consume the whole cycle (or less)
    for _ in 0..m {
        let a = Uint::<L>::random_mod(&mut r1, &nzm);
        let b = BoxedUint::random_mod(&mut r2, &nzbm);
        let (av, bv) = (ub(&a), bb(&b));
        if av >= BigUint::from(m) || bv >= BigUint::from(m) {
            rep.fail("cycle.random_mod.lt_modulus", format!("m={} got {}", m, hex(&ul(&a))));
            return;
        }
        counts[ul(&a)[0] as usize] += 1;
        countsb[bl(&b)[0] as usize] += 1;
    }
    if r1.words_used > space {
        rep.fail("cycle.random_mod.rejects_admissible", format!("m={}: needed {} words for {} draws from a cycle of {}", m, r1.words_used, m, space));
    }
    if let Some(v) = counts.iter().position(|&c| c != 1) {
        rep.fail("cycle.random_mod.exactly_uniform", format!("m={}: value {} produced {} times in one full cycle", m, v, counts[v]));
    }
    if let Some(v) = countsb.iter().position(|&c| c != 1) {
        rep.fail("cycle.boxed.random_mod.exactly_uniform", format!("m={}: value {} produced {} times", m, v, countsb[v]));
    }
}
fn c_mod_cycle(c: &Case, rep: &mut Rep) {
    dispatch!(c.w[0], [1, 2, 4], mod_cycle(c, rep))
}

fn c_limb_mod(c: &Case, rep: &mut Rep) {
    let m = c.s[0];
    let seed = c.s[1];
    let mode = c.s[2];
    rep.nontrivial();
    let nzm = nzl(m);
    if mode == 0 {
        // ChaCha draws: range only + statistical for small m
        let mut rng = ChaCha8Rng::seed_from_u64(seed);
        let n = c.s[3];
        let small = m <= 1024;
        let mut counts = vec![0u64; if small { m as usize } else { 64 }];
        for _ in 0..n {
            let v = Limb::random_mod(&mut rng, &nzm).0;
            if v >= m {
                rep.fail("Limb::random_mod.lt_modulus", format!("m={} got {}", m, v));
                return;
            }
            let b = if small { v as usize } else { ((v as u128 * 64) / m as u128) as usize };
            counts[b] += 1;
        }
        let probs: Vec<f64> = if small {
            vec![1.0 / m as f64; m as usize]
        } else {
            (0..64u128).map(|b| (((b + 1) * m as u128).div_ceil(64) - (b * m as u128).div_ceil(64)) as f64 / m as f64).collect()
        };
        rep.class("stat_small_modulus");
        check_buckets(rep, "Limb::random_mod.uniform", &counts, &probs, n);
    } else {
        // exact cycle over the byte patterns the sampler reads (n_bytes <= 2)
        rep.class("cycle_exact");
        let n_bits = 64 - m.leading_zeros() as usize;
        let n_bytes = n_bits.div_ceil(8);
        if n_bytes > 2 {
            return;
        }
        let space = 1u64 << (8 * n_bytes);
        let mut r = Rng::new(seed);
        let mut perm: Vec<u64> = (0..space).collect();
        for i in (1..perm.len()).rev() {
            let j = r.usize_below(i + 1);
            perm.swap(i, j);
        }
        // each fill_bytes(n_bytes) call takes the low bytes of one scripted word
        let mut rng = ScriptRng::new(perm, seed);
        let mult = space >> n_bits; // every candidate value appears this many times in a cycle
        let mut counts = vec![0u64; m as usize];
        for _ in 0..(m * mult) {
            let v = Limb::random_mod(&mut rng, &nzm).0;
            if v >= m {
                rep.fail("cycle.Limb::random_mod.lt_modulus", format!("m={} got {}", m, v));
                return;
            }
            counts[v as usize] += 1;
        }
        if rng.words_used > space {
            rep.fail("cycle.Limb::random_mod.rejects_admissible", format!("m={}: {} reads for a cycle of {}", m, rng.words_used, space));
        }
        if let Some(v) = counts.iter().position(|&c| c != mult) {
            rep.fail("cycle.Limb::random_mod.exactly_uniform", format!("m={}: value {} produced {} times, expected {}", m, v, counts[v], mult));
        }
    }
}

fn mod_stat<const L: usize>(c: &Case, rep: &mut Rep) {
    let m = &c.a[0];
    let seed = c.s[0];
    let n = c.s[1];
    let mb = to_big(m);
    class_mod(m, rep);
    let nzm = nz::<L>(m);
    let nzbm = nzb(m);
    let mut rng = ChaCha8Rng::seed_from_u64(seed);
    let mut rngb = ChaCha8Rng::seed_from_u64(seed);
    let small = mb <= BigUint::from(1024u32);
    let nb = if small { mb.to_u64_digits()[0] as usize } else { 64 };
    if small {
        rep.class("stat_small_modulus");
    } else {
        rep.class("stat_multi_limb");
    }
    let mut counts = vec![0u64; nb];
    let mf = {
        // modulus as f64 mantissa/exponent for bucketing: bucket = floor(v * 64 / m) via BigUint for exactness
        mb.clone()
    };
    let nl = bits_of(m).div_ceil(64);
    for k in 0..n {
        let v = Uint::<L>::random_mod(&mut rng, &nzm);
        let vl = ul(&v);
        if k < 64 {
            // boxed lock-step on a real CSPRNG stream as well
            let b = BoxedUint::random_mod(&mut rngb, &nzbm);
            if bl(&b) != vl {
                rep.fail("stat.random_mod.fixed_eq_boxed", format!("draw {}", k));
            }
        }
        if cmp_limbs_ge(&vl, m) {
            rep.fail("stat.random_mod.lt_modulus", format!("{} >= m", hex(&vl)));
            return;
        }
        if vl[nl - 1] == m[nl - 1] {
            rep.class("full_compare_reject");
        }
        let b = if small {
            vl[0] as usize
        } else {
            // top 128 bits are enough to place the value in one of 64 buckets except at bucket edges;
            // exact via BigUint only when near an edge
            ((to_big(&vl) * 64u32) / &mf).to_u64_digits().first().copied().unwrap_or(0) as usize
        };
        counts[b.min(nb - 1)] += 1;
    }
    let probs: Vec<f64> = if small {
        vec![1.0 / nb as f64; nb]
    } else {
        // bucket b holds values v with floor(64 v / m) = b: ceil((b+1)m/64) - ceil(b m/64) values
        (0..64u32)
            .map(|b| {
                let hi = (&mb * (b + 1) + 63u32) / 64u32;
                let lo = (&mb * b + 63u32) / 64u32;
                ratio(&(hi - lo), &mb)
            })
            .collect()
    };
    check_buckets(rep, "random_mod.uniform", &counts, &probs, n);
    if small {
        if let Some(v) = counts.iter().position(|&c| c == 0) {
            if n as usize >= 40 * nb {
                rep.fail("random_mod.every_value_observed", format!("value {} never produced in {} draws", v, n));
            }
        }
    }
}
fn ratio(a: &BigUint, b: &BigUint) -> f64 {
    // a / b as f64 for a <= b
    let sh = (b.bits() as usize).saturating_sub(60);
    let (x, y) = ((a >> sh).to_u64_digits().first().copied().unwrap_or(0) as f64, (b >> sh).to_u64_digits().first().copied().unwrap_or(1) as f64);
    x / y
}
fn cmp_limbs_ge(a: &[u64], b: &[u64]) -> bool {
    for i in (0..a.len()).rev() {
        if a[i] != b[i] {
            return a[i] > b[i];
        }
    }
    true
}
fn c_mod_stat(c: &Case, rep: &mut Rep) {
    dispatch!(c.w[0], [1, 2, 3, 4, 8], mod_stat(c, rep))
}

// ---------------------------------------------------------------------------------------------
// random_bits

fn bits_case<const L: usize>(c: &Case, rep: &mut Rep) {
    let k = c.s[0] as u32;
    let seed = c.s[1];
    let mode = c.s[2];
    let bits = 64 * L as u32;
    rep.nontrivial();
    if k == 0 {
        rep.class("bit_length_0");
    }
    if k == bits {
        rep.class("bit_length_eq_BITS");
    }
    let partial = k % 64;
    if partial > 0 && partial <= 32 {
        rep.class("tail_4_byte_rule");
    }
    let script: Vec<u64> = match mode {
        1 => vec![u64::MAX; L + 2],
        2 => vec![0; L + 2],
        _ => vec![],
    };
    if mode == 1 {
        rep.class("all_ones_stream");
    }
    let mut r1 = ScriptRng::new(script.clone(), seed);
    let mut r2 = ScriptRng::new(script.clone(), seed);
    let mut r3 = ScriptRng::new(script.clone(), seed);
    let got = Uint::<L>::try_random_bits(&mut r1, k);
    let gotb = BoxedUint::try_random_bits_with_precision(&mut r2, k, bits);
    let goti = Int::<L>::try_random_bits(&mut r3, k);
    if k > bits {
        rep.class("bit_length_gt_BITS");
        match got {
            Err(RandomBitsError::BitLengthTooLarge { bit_length, bits_precision }) => {
                if bit_length != k || bits_precision != bits {
                    rep.fail("try_random_bits.error_fields", format!("{} {}", bit_length, bits_precision));
                }
            }
            Err(e) => rep.fail("try_random_bits.error_kind", format!("{:?}", e)),
            Ok(v) => rep.fail("try_random_bits.too_large_is_error", format!("returned {}", hex(&ul(&v)))),
        }
        if !matches!(gotb, Err(RandomBitsError::BitLengthTooLarge { .. })) {
            rep.fail("boxed.try_random_bits_with_precision.too_large_is_error", "no BitLengthTooLarge error".into());
        }
        if !matches!(goti, Err(RandomBitsError::BitLengthTooLarge { .. })) {
            rep.fail("Int::try_random_bits.too_large_is_error", "no BitLengthTooLarge error".into());
        }
        if !r1.log.is_empty() || !r2.log.is_empty() {
            rep.fail("try_random_bits.error_consumes_nothing", "the RNG was read although the request is invalid".into());
        }
        return;
    }
    let (v, b, iv) = match (got, gotb, goti) {
        (Ok(v), Ok(b), Ok(iv)) => (v, b, iv),
        (a, b, c3) => {
            rep.fail("try_random_bits.ok_in_range", format!("fixed ok={} boxed ok={} int ok={}", a.is_ok(), b.is_ok(), c3.is_ok()));
            return;
        }
    };
    let vb = ub(&v);
    if vb.bits() as u32 > k {
        rep.fail("random_bits.lt_2pow_bit_length", format!("k={} got {}", k, hex(&ul(&v))));
    }
    if ul(&v) != bl(&b) || b.nlimbs() != L {
        rep.fail("random_bits.fixed_eq_boxed", format!("k={} fixed {} boxed {}", k, hex(&ul(&v)), hex(&bl(&b))));
    }
    if il(&iv) != ul(&v) {
        rep.fail("random_bits.uint_eq_int", format!("k={}", k));
    }
    if r1.log != r2.log || r1.log != r3.log {
        rep.fail("random_bits.same_consumption", format!("k={}: fixed {:?} boxed {:?}", k, r1.log.len(), r2.log.len()));
    }
    // platform-independent consumption: ceil(k/32)*4 bytes in total when the tail rule applies, whole limbs otherwise
    let bytes: usize = r1.log.iter().map(|c| if let Call::Fill(n) = c { *n } else { 8 }).sum();
    let want_bytes = if k == 0 { 0 } else { (k as usize).div_ceil(32) * 4 };
    if bytes != want_bytes {
        rep.fail("random_bits.bytes_consumed", format!("k={}: consumed {} bytes, documented platform-independent amount {}", k, bytes, want_bytes));
    }
    if mode == 1 && vb != mask(k as usize) {
        rep.fail("random_bits.all_ones_stream_gives_max", format!("k={} got {} want 2^k-1", k, hex(&ul(&v))));
    }
    if mode == 2 && !vb.is_zero() {
        rep.fail("random_bits.all_zero_stream_gives_zero", format!("k={} got {}", k, hex(&ul(&v))));
    }
    // trait default forms
    let mut r4 = ScriptRng::new(script.clone(), seed);
    let w = Uint::<L>::random_bits(&mut r4, k);
    if ul(&w) != ul(&v) {
        rep.fail("random_bits.eq_try_random_bits", format!("k={}", k));
    }
    let mut r5 = ScriptRng::new(script.clone(), seed);
    let w = Uint::<L>::random_bits_with_precision(&mut r5, k, bits);
    if ul(&w) != ul(&v) {
        rep.fail("random_bits_with_precision.eq", format!("k={}", k));
    }
    // precision mismatch must be an error for the fixed type
    rep.class("precision_mismatch");
    let mut r6 = ScriptRng::new(vec![], seed);
    for wrong in [bits + 64, bits.saturating_sub(64), bits + 1, 0] {
        if wrong == bits {
            continue;
        }
        match Uint::<L>::try_random_bits_with_precision(&mut r6, k.min(wrong), wrong) {
            Err(RandomBitsError::BitsPrecisionMismatch { bits_precision, integer_bits }) => {
                if bits_precision != wrong || integer_bits != bits {
                    rep.fail("try_random_bits_with_precision.mismatch_fields", "wrong fields".into());
                }
            }
            Err(e) => rep.fail("try_random_bits_with_precision.mismatch_kind", format!("{:?}", e)),
            Ok(_) => rep.fail("try_random_bits_with_precision.mismatch_is_error", format!("precision {} accepted for a {}-bit type", wrong, bits)),
        }
        // the signed form has the same contract
        match Int::<L>::try_random_bits_with_precision(&mut r6, k.min(wrong), wrong) {
            Err(RandomBitsError::BitsPrecisionMismatch { bits_precision, integer_bits }) => {
                if bits_precision != wrong || integer_bits != bits {
                    rep.fail("Int::try_random_bits_with_precision.mismatch_fields", "wrong fields".into());
                }
            }
            Err(e) => rep.fail("Int::try_random_bits_with_precision.mismatch_kind", format!("{:?}", e)),
            Ok(_) => rep.fail("Int::try_random_bits_with_precision.mismatch_is_error", format!("precision {} accepted for a {}-bit type", wrong, bits)),
        }
    }
    // boxed: precision not a multiple of 64, bit_length up to the requested precision only
    let p = c.s[3] as u32;
    let mut r7 = ScriptRng::new(script, seed);
    match BoxedUint::try_random_bits_with_precision(&mut r7, k, p) {
        Ok(x) => {
            if k > p {
                rep.fail("boxed.try_random_bits_with_precision.too_large_is_error", format!("bit_length {} accepted for precision {}", k, p));
            }
            if bb(&x).bits() as u32 > k {
                rep.fail("boxed.random_bits.lt_2pow_bit_length", format!("k={} p={} got {}", k, p, hex(&bl(&x))));
            }
            if x.nlimbs() != (p as usize).div_ceil(64).max(1) {
                rep.fail("boxed.random_bits.precision", format!("p={} limbs {}", p, x.nlimbs()));
            }
        }
        Err(RandomBitsError::BitLengthTooLarge { .. }) => {
            if k <= p {
                rep.fail("boxed.try_random_bits_with_precision.spurious_error", format!("k={} p={}", k, p));
            }
        }
        Err(e) => rep.fail("boxed.try_random_bits_with_precision.error_kind", format!("{:?}", e)),
    }
}
fn c_bits(c: &Case, rep: &mut Rep) {
    dispatch!(c.w[0], [1, 2, 3, 4, 8], bits_case(c, rep))
}

fn bits_stat<const L: usize>(c: &Case, rep: &mut Rep) {
    let k = c.s[0] as u32;
    let seed = c.s[1];
    let n = c.s[2];
    rep.nontrivial();
    let mut rng = ChaCha8Rng::seed_from_u64(seed);
    let mut ones = vec![0u64; k as usize];
    for _ in 0..n {
        let v = ul(&Uint::<L>::random_bits(&mut rng, k));
        if bits_of(&v) as u32 > k {
            rep.fail("stat.random_bits.lt_2pow_bit_length", format!("k={}", k));
            return;
        }
        for (i, o) in ones.iter_mut().enumerate() {
            *o += (v[i / 64] >> (i % 64)) & 1;
        }
    }
    let t = bernstein_t(n as f64, 0.5, DELTA_PER_TEST);
    for (i, &o) in ones.iter().enumerate() {
        if (o as f64 - n as f64 / 2.0).abs() > t {
            rep.fail("random_bits.bit_frequency", format!("k={} bit {}: {} ones in {} draws (allowed deviation {:.0})", k, i, o, n, t));
            return;
        }
    }
}
fn c_bits_stat(c: &Case, rep: &mut Rep) {
    dispatch!(c.w[0], [1, 2, 4], bits_stat(c, rep))
}

// ---------------------------------------------------------------------------------------------
// Random for Limb / Uint / Int / NonZero / Odd / ConstMontyForm; failing streams

fn random_case<const L: usize>(c: &Case, rep: &mut Rep) {
    let seed = c.s[0];
    let zero_prefix = c.s[1] as usize;
    rep.nontrivial();
    if zero_prefix > 0 {
        rep.class("all_zero_prefix_stream");
    }
    let script = vec![0u64; zero_prefix];
    // Uint / Int: consume exactly L words, value = the words
    let mut r = ScriptRng::new(script.clone(), seed);
    let mut expect = ScriptRng::new(script.clone(), seed);
    let want: Vec<u64> = (0..L).map(|_| expect.next_u64()).collect();
    let v = Uint::<L>::random(&mut r);
    if ul(&v) != want {
        rep.fail("Uint::random.words_in_order", format!("got {} want {}", hex(&ul(&v)), hex(&want)));
    }
    if r.log.len() != L {
        rep.fail("Uint::random.consumption", format!("{} calls for {} limbs", r.log.len(), L));
    }
    let mut r = ScriptRng::new(script.clone(), seed);
    let iv = Int::<L>::random(&mut r);
    if il(&iv) != want {
        rep.fail("Int::random.eq_uint", "differs from Uint::random on the same stream".into());
    }
    let mut r = ScriptRng::new(script.clone(), seed);
    let l = Limb::random(&mut r);
    if l.0 != want[0] {
        rep.fail("Limb::random", "first word expected".into());
    }
    // NonZero: never zero, even after an all-zero prefix
    let mut r = ScriptRng::new(script.clone(), seed);
    let nzv = NonZero::<Uint<L>>::random(&mut r);
    if is_zero(&ul(&nzv.get())) {
        rep.fail("NonZero<Uint>::random.nonzero", format!("returned zero after a prefix of {} zero words", zero_prefix));
    }
    let mut r = ScriptRng::new(script.clone(), seed);
    let nzl_ = NonZero::<Limb>::random(&mut r);
    if nzl_.get().0 == 0 {
        rep.fail("NonZero<Limb>::random.nonzero", format!("returned zero after a prefix of {} zero words", zero_prefix));
    }
    let mut r = ScriptRng::new(script.clone(), seed);
    let nzi = NonZero::<Int<L>>::random(&mut r);
    if is_zero(&il(&nzi.get())) {
        rep.fail("NonZero<Int>::random.nonzero", "returned zero".into());
    }
    // Odd: always odd
    let mut r = ScriptRng::new(script.clone(), seed);
    let o = Odd::<Uint<L>>::random(&mut r);
    if ul(&o.get())[0] & 1 == 0 {
        rep.fail("Odd<Uint>::random.odd", "returned an even value".into());
    }
    let mut r = ScriptRng::new(script.clone(), seed);
    // every bit length including 0 (where the only admissible odd value is 1)
    let bl_ = if seed % 5 == 0 { 0 } else { (seed % (64 * L as u64 + 1)) as u32 };
    if bl_ == 0 {
        rep.class("odd_random_bit_length_0");
    }
    let ob = Odd::<BoxedUint>::random(&mut r, bl_);
    let obv = bl(&ob.get());
    if obv[0] & 1 == 0 {
        rep.fail("Odd<BoxedUint>::random.odd", format!("returned an even value for bit_length {}", bl_));
    }
    if bl_ > 0 && bits_of(&obv) as u32 > bl_ {
        rep.fail("Odd<BoxedUint>::random.lt_2pow_bit_length", format!("bit_length {} got {}", bl_, hex(&obv)));
    }
    // failing streams: the error is propagated, never a panic
    rep.class("rng_error_propagated");
    for ok_words in [0u64, 1, L as u64 - 1, L as u64] {
        let mut f = FailRng { inner: ScriptRng::new(script.clone(), seed), ok_words };
        let r1 = Uint::<L>::try_random(&mut f);
        if r1.is_ok() != (ok_words >= L as u64) {
            rep.fail("Uint::try_random.error_propagated", format!("ok_words {} result ok={}", ok_words, r1.is_ok()));
        }
        let mut f = FailRng { inner: ScriptRng::new(vec![], seed), ok_words };
        let m = {
            let mut v = vec![u64::MAX; L];
            v[0] = 12345;
            v
        };
        let r2 = Uint::<L>::try_random_mod(&mut f, &nz::<L>(&m));
        if let Ok(v) = &r2 {
            if cmp_limbs_ge(&ul(v), &m) {
                rep.fail("try_random_mod.lt_modulus", "out of range".into());
            }
        }
        if ok_words < L as u64 && r2.is_ok() {
            rep.fail("try_random_mod.error_propagated", format!("succeeded with only {} words available", ok_words));
        }
        let mut f = FailRng { inner: ScriptRng::new(vec![], seed), ok_words };
        let r3 = Uint::<L>::try_random_bits(&mut f, 64 * L as u32);
        match r3 {
            Ok(_) => {
                if ok_words < L as u64 {
                    rep.fail("try_random_bits.error_propagated", "succeeded on a failing stream".into());
                }
            }
            Err(RandomBitsError::RandCore(_)) => {
                if ok_words >= L as u64 {
                    rep.fail("try_random_bits.spurious_rng_error", "failed although enough words were available".into());
                }
            }
            Err(e) => rep.fail("try_random_bits.error_kind_on_rng_failure", format!("{:?}", e)),
        }
        let mut f = FailRng { inner: ScriptRng::new(vec![], seed), ok_words };
        let r4 = BoxedUint::try_random_mod(&mut f, &nzb(&m));
        if ok_words < L as u64 && r4.is_ok() {
            rep.fail("boxed.try_random_mod.error_propagated", "succeeded on a failing stream".into());
        }
    }
}
pub fn c_random_pub(c: &Case, rep: &mut Rep) {
    c_random(c, rep)
}
fn c_random(c: &Case, rep: &mut Rep) {
    dispatch!(c.w[0], [1, 2, 3, 4, 8], random_case(c, rep));
    // ConstMontyForm::random: retrieved value < modulus, equals random_mod on the same stream
    use crate::c08::{B64_P, B256_N256};
    use crypto_bigint::modular::ConstMontyParams;
    let seed = c.s[0];
    if c.w[0] == 1 {
        let mut r1 = ScriptRng::new(vec![], seed);
        let mut r2 = ScriptRng::new(vec![], seed);
        let f = ConstMontyForm::<B64_P, 1>::random(&mut r1);
        let v = Uint::<1>::random_mod(&mut r2, B64_P::MODULUS.as_nz_ref());
        if f.retrieve() != v || v >= *B64_P::MODULUS.as_ref() {
            rep.fail("ConstMontyForm::random", "differs from random_mod below the modulus".into());
        }
    }
    if c.w[0] == 4 {
        let mut r1 = ScriptRng::new(vec![], seed);
        let mut r2 = ScriptRng::new(vec![], seed);
        let f = ConstMontyForm::<B256_N256, 4>::random(&mut r1);
        let v = Uint::<4>::random_mod(&mut r2, B256_N256::MODULUS.as_nz_ref());
        if f.retrieve() != v || v >= *B256_N256::MODULUS.as_ref() {
            rep.fail("ConstMontyForm::random", "differs from random_mod below the modulus".into());
        }
    }
}

// ---------------------------------------------------------------------------------------------

/// modulus shapes of the property: top limb 1, 2^j, 2^j+-1, MAX; low limbs 0 / MAX / random
fn gen_modulus(r: &mut Rng, n: usize) -> Vec<u64> {
    let used = 1 + r.usize_below(n);
    let top = match r.below(7) {
        0 => 1,
        1 => 1u64 << r.below(64),
        2 => (1u64 << r.below(63)) + 1,
        3 => (1u64 << (1 + r.below(63))).wrapping_sub(1),
        4 => u64::MAX,
        5 => 2 + r.below(5),
        _ => r.u64() | 1,
    };
    let mut v = vec![0u64; n];
    let low = r.below(3);
    for x in v.iter_mut().take(used - 1) {
        *x = match low {
            0 => 0,
            1 => u64::MAX,
            _ => r.u64(),
        };
    }
    v[used - 1] = top.max(1);
    if used == 1 && v[0] == 0 {
        v[0] = 1;
    }
    v
}

fn adversarial_script(r: &mut Rng, m: &[u64]) -> Vec<u64> {
    let nl = bits_of(m).div_ceil(64);
    let top = m[nl - 1];
    let mut s = Vec::new();
    match r.below(8) {
        0 => s.extend(std::iter::repeat(0).take(3 * nl)),
        1 => s.extend(std::iter::repeat(u64::MAX).take(4)),
        2 => {
            // top word equal to the modulus' top limb, lower words MAX (full-compare reject) then 0 (accept)
            s.push(top);
            s.extend(std::iter::repeat(u64::MAX).take(nl - 1));
            s.push(top);
            s.extend(std::iter::repeat(0).take(nl - 1));
        }
        3 => {
            s.push(top.wrapping_add(1));
            s.push(top);
            s.extend(m[..nl - 1].iter().rev().copied());
        }
        4 => {
            s.push(top.wrapping_sub(1));
            s.extend(std::iter::repeat(u64::MAX).take(nl - 1));
        }
        5 => {
            // alternating reject / accept candidates
            for i in 0..6 {
                s.push(if i % 2 == 0 { u64::MAX } else { 0 });
            }
        }
        6 => {
            // exactly m - 1 then exactly m
            s.push(top);
            let mut lo: Vec<u64> = m[..nl - 1].to_vec();
            gn::sub_small(&mut lo, 1);
            s.extend(lo.iter().copied());
            s.push(top);
            s.extend(m[..nl - 1].iter().copied());
        }
        _ => {}
    }
    s
}

pub fn workload(ctx: &mut Ctx) {
    let stat_n: u64 = match ctx.tier {
        Tier::Thorough => 1_000_000,
        Tier::Quick => 200_000,
        Tier::Lite | Tier::Miri => 20_000,
    };
    // (1) lock-step + adversarial streams
    for &l in &[1usize, 2, 3, 4, 8] {
        for _ in 0..ctx.iters(300_000) {
            let mut m = gen_modulus(&mut ctx.rng, l);
            let seed = ctx.rng.u64();
            let nl = bits_of(&m).div_ceil(64);
            if nl >= 2 && m[nl - 1] != u64::MAX && ctx.rng.chance(1, 6) {
                for x in m.iter_mut().take(nl - 1) {
                    *x = u64::MAX;
                }
                let script = vec![m[nl - 1]; 3 * nl];
                ctx.exec(Case::new("rand.mod_lockstep").w(l).a(m).a(script).s(seed).s(6).s(1), c_mod_lockstep);
                continue;
            }
            let script = adversarial_script(&mut ctx.rng, &m);
            ctx.exec(Case::new("rand.mod_lockstep").w(l).a(m).a(script).s(seed).s(6), c_mod_lockstep);
        }
    }
    // (2) exact cycles: single-limb moduli < 2^16 (all small ones, sampled above 512)
    let mut cyc: Vec<u64> = (1..=512).collect();
    for k in 9..=16u32 {
        for d in [0i64, -1, 1, 2, -2] {
            let v = (1i64 << k) + d;
            if v > 0 && v < (1 << 16) {
                cyc.push(v as u64);
            }
        }
    }
    cyc.extend([1000u64, 10_000, 40_000, 65_521, 65_535]);
    for &m in &cyc {
        if !ctx.mine() {
            continue;
        }
        let seed = ctx.rng.u64();
        for &l in &[1usize, 2, 4] {
            if m > 2048 && l != 1 {
                continue;
            }
            ctx.exec(Case::new("rand.mod_cycle").w(l).s(m).s(seed), c_mod_cycle);
        }
        ctx.exec(Case::new("rand.limb_mod").s(m).s(seed).s(1).s(0), c_limb_mod);
    }
    // (3) statistics
    let small: [u64; 12] = [3, 5, 6, 7, 10, 100, 255, 256, 257, 1000, 65_535, 65_537];
    for &m in &small {
        for &l in &[1usize, 2, 4] {
            if !ctx.mine() {
                continue;
            }
            let mut v = vec![0u64; l];
            v[0] = m;
            let seed = ctx.rng.u64();
            ctx.exec(Case::new("rand.mod_stat").w(l).a(v).s(seed).s(stat_n), c_mod_stat);
        }
        if ctx.mine() {
            let seed = ctx.rng.u64();
            ctx.exec(Case::new("rand.limb_mod").s(m).s(seed).s(0).s(stat_n), c_limb_mod);
        }
    }
    for &l in &[2usize, 3, 4, 8] {
        for _ in 0..ctx.iters(256) {
            let mut m = gen_modulus(&mut ctx.rng, l);
            if bits_of(&m) <= 64 {
                m[1] = 1 + ctx.rng.below(3);
            }
            let seed = ctx.rng.u64();
            ctx.exec(Case::new("rand.mod_stat").w(l).a(m).s(seed).s(stat_n / 4), c_mod_stat);
        }
    }
    // (4) random_bits: every bit length 0..=BITS+2, three stream modes
    for &l in &[1usize, 2, 3, 4, 8] {
        let bits = 64 * l as u64;
        for k in 0..=bits + 2 {
            if !ctx.mine() {
                continue;
            }
            for mode in 0..3u64 {
                let seed = ctx.rng.u64();
                let p = match ctx.rng.below(3) {
                    0 => k,
                    1 => k + ctx.rng.below(70),
                    _ => k.saturating_sub(1 + ctx.rng.below(5)),
                };
                ctx.exec(Case::new("rand.bits").w(l).s(k).s(seed).s(mode).s(p), c_bits);
            }
        }
        for k in [u32::MAX as u64, 1 << 31, bits + 64] {
            if ctx.mine() {
                ctx.exec(Case::new("rand.bits").w(l).s(k).s(1).s(0).s(k), c_bits);
            }
        }
    }
    for &l in &[1usize, 2, 4] {
        for k in [1u64, 31, 32, 33, 39, 40, 63, 64 * l as u64 - 1, 64 * l as u64, 64 * l as u64 - 25] {
            if !ctx.mine() {
                continue;
            }
            let seed = ctx.rng.u64();
            ctx.exec(Case::new("rand.bits_stat").w(l).s(k).s(seed).s(stat_n / 4), c_bits_stat);
        }
    }
    // (5) Random impls, zero-prefix and failing streams
    for &l in &[1usize, 2, 3, 4, 8] {
        for _ in 0..ctx.iters(150_000) {
            let seed = ctx.rng.u64();
            let zp = match ctx.rng.below(4) {
                0 => 0,
                1 => l as u64,
                2 => 2 * l as u64,
                _ => ctx.rng.below(5 * l as u64 + 1),
            };
            ctx.exec(Case::new("rand.random").w(l).s(seed).s(zp), c_random);
        }
    }
}
