#!/usr/bin/env python3
"""Regenerates /verif/MANIFEST.json from the table below (keeps it schema-valid at all times)."""
import json, os
ROOT = os.path.dirname(os.path.dirname(os.path.abspath(__file__)))
props = [json.loads(l) for l in open(os.path.join(ROOT, "properties.jsonl"))]

FUNC_NOTE = ("Trusted base: num-bigint as oracle (cross-checked by identities recomputed through the crate's own primitives), "
             "the harness conversions, rustc 1.95 at opt-level 3. Held only on the executions observed; the generator is "
             "structured/hostile, not exhaustive, except for the sub-spaces the evidence lists as exhaustive.")

# id -> (technique, level text, design_ref, level_note)
T_REF = "reference-model runtime monitor: real API calls on hostile generated workloads, each result compared online with an independent BigUint/BigInt oracle and crate-recomputed identities; oracle-side classification counts rare paths"
def func(text, ref, tech=T_REF):
    return (tech, "Exploration: " + text, ref, FUNC_NOTE)

CLAIMED = {
 "C02": func("every division/remainder form (fixed 1..64 limbs, boxed 1..70 limbs, mixed widths, by-limb, wide, rem2k, operators, Wrapping, traits) is executed on millions of constructed operand pairs per run (n=q*d+r, Knuth add-back constructions, reciprocal corners) and compared with the oracle; rare paths (add-back, capped estimate, 2-by-1 corrections) are counted so a run that missed them is reported inconclusive.", "DESIGN.md §4 C02"),
 "C03": func("every multiplication/squaring form (Limb, Uint 1..12,16,32,64,128 limbs equal and mixed, BoxedUint 1..140 limbs equal/unequal, operators, Wrapping, Checked, widening) is compared with the exact oracle product; Karatsuba-targeted generation forces all nine sign combinations of the half differences at each dispatch width, plus carry-chain and 2^BITS-boundary products.", "DESIGN.md §4 C03"),
 "C04": func("adc/sbb/mac primitives (palette-exhaustive incl. carry-in 2 and MAX), wrapping/checked/saturating/operator/assigning forms, Wrapping and Checked wrappers (sticky none in every operator form), boxed with boxed of other precision / Uint<N> / u8..u128; carry, borrow, none and panic are required exactly when the true result leaves [0,2^BITS).", "DESIGN.md §4 C04"),
 "C05": func("exhaustive grid over every shift amount 0..=2*BITS+1 (+2^31, u32::MAX) and every bit index 0..=BITS+1 for Limb, Uint/Int of 1,2,3,4,5,6,8,16 limbs and BoxedUint 1..=20 limbs, all shift forms (ct, vartime, overflowing, wrapping, wide, operators i32/u32/usize, traits, in-place) and bit queries / bitwise operators against the binary expansion.", "DESIGN.md §4 C05"),
 "C06": func("every comparison predicate (ct and vartime, Eq/Ord/PartialOrd, zero/one/odd/even/min/max/sign tests) on Limb, Uint, Int, BoxedUint of equal and different precision and NonZero/Odd/Wrapping wrappers is checked against the mathematical order on relation-derived pairs; equal values must hash equally (two hashers); select/assign/swap/negate checked bitwise for both choices; option types report is_some as documented.", "DESIGN.md §4 C06"),
 "C07": func("add/sub/neg/double/mul (ct, vartime, special-modulus) and halving on Uint 1..16 limbs and BoxedUint 1..20 limbs for structured moduli (1, 2, 3, 2^BITS-1, 2^(BITS-1)+-1, zero high limbs, 2^BITS-c with c from 1 to MAX) and relation-derived operands; result must be the canonical residue.", "DESIGN.md §4 C07"),
 "C08": func("history monitor: generated operation sequences (<= 64 steps over six registers: new/zero/one/add/sub/neg/double/mul/square/div_by_2 in every API form incl. multiplier objects, select/swap, Montgomery round trip) are replayed in lock-step on MontyForm<L>, BoxedMontyForm and ConstMontyForm (21-entry compile-time modulus bank) and on a BigUint model of Z/mZ; after every step every register of every representation must be canonical (< m), retrieve to the model value, equal x*R mod m and be limb-identical across representations; a parameter monitor compares all constructors (new, new_vartime, macro constants, from_const_params) with the definitions R, R^2, R^3 mod m, -m^-1 mod 2^64 and the clamped leading-zero count.", "DESIGN.md §4 C08", "history monitor against a sequential BigUint model of Z/mZ (every prefix checked) + parameter-definition monitor"),
 "C09": func("pow / pow_bounded_exp / Pow / PowBoundedExp / MultiExponentiate(BoundedExp) (arrays and slices) / lincomb_vartime in the runtime, boxed and compile-time (bank) implementations against BigUint modpow, products of powers and sums of products; bit bound k exhaustive for 1-2 limb exponents and window/limb-boundary values otherwise, exponents with bits just above k, 1..=40 lincomb terms over moduli with 0..=70 leading zero bits; results must be canonical and the three implementations limb-identical.", "DESIGN.md §4 C09"),
 "C10": func("inv_mod / inv_odd_mod / InvMod / inv_mod2k(_vartime, k exhaustive at <= 4 limbs) / Inverter::invert(_vartime) / SafeGcdInverter with adjuster / Int inversion / Montgomery inv, invert(_vartime) and precomputed inverters in runtime, boxed and compile-time (bank) forms, and gcd / gcd_vartime on Uint, Odd<Uint>, Int, BoxedUint: some exactly when gcd(a,m)=1, a*x = 1 (mod m), x < m, ct == vartime, precomputed == one-shot, const == runtime == boxed; moduli primes, composites, 2^k, s*2^k, 1, 2^BITS-1 and operands built to share odd factors / only the factor 2 / many trailing zeros.", "DESIGN.md §4 C10"),
 "C13": func("checked/overflowing/wrapping add, sub, neg, split/widening/checked multiplication (Int x Int, Int x Uint, right form; equal and mixed widths), squares, new_from_abs_sign / abs_sign / abs, sign and MIN/MAX predicates, resize between all width pairs, from_i8..from_i128 and operators / Checked / Wrapping wrappers against BigInt two's-complement semantics; operands at MIN, MIN+1, -1, 0, 1, MAX, products constructed to land on +-2^(BITS-1), negative zero.", "DESIGN.md §4 C13"),
 "C14": func("all signed division flavours (truncating, flooring, normalized remainder; signed and unsigned divisors; ct and vartime; equal and mixed widths; operators, assigning forms, Wrapping, DivVartime, CheckedDiv) over the sign x exactness grid incl. |n|<|d|, d=+-1, n=MIN, d=MIN, MIN/-1 and zero divisors: quotient and remainder against BigInt truncated/floored division, and n = q*d + r, |r| < |d| and the remainder sign convention recomputed from the RETURNED values; none / documented panic exactly for d = 0 and MIN / -1.", "DESIGN.md §4 C14"),
 "C20": func("sqrt / sqrt_vartime / wrapping_sqrt(_vartime) / checked_sqrt(_vartime) / SquareRoot on Uint (1,2,3,4,8,16 limbs) and BoxedUint (1..=20 limbs): s^2 <= x < (s+1)^2 against BigUint, checked forms some iff perfect square, result precision; inputs t^2-1, t^2, t^2+1 for structured t, every 2^k and 2^k+-1, MAX, odd bit lengths near the precision and a Newton worst-case search guided by an oracle-side model of the iteration.", "DESIGN.md §4 C20"),
 "C16": func("byte/hex/array/word/limb/serde/fmt encodings of Uint (1..8,16,32 limbs), Int, Limb and BoxedUint against the positional definition with asymmetric contents; hostile hex (every byte value 0x00..0xff at every position, multi-byte UTF-8, wrong lengths) with documented panic / none exactly for malformed input; BoxedUint byte decoders for every bits_precision 0..=520 x every length 0..=cap+9 with values just below / at / above 2^precision (InputSize / Precision errors exactly as documented); primitive, concat/split, resize, widen/shorten conversions.", "DESIGN.md §4 C16"),
 "C17": func("to_string_radix_vartime / from_str_radix_vartime / from_str_radix_with_precision_vartime / num_traits::Num::from_str_radix for every radix 2..=36 on Uint (1,2,3,4,8,16,40 limbs) and BoxedUint (1..=140 limbs, across the 32-limb recursion and the 128-limb buffer): canonical lowercase output against BigUint, exact parse of plain and decorated numerals, numerals at and above 2^BITS must yield the size/precision error (never a wrapped value), non-numerals (empty, lone '+', misplaced underscores, digits >= radix, arbitrary bytes) the empty/invalid-digit error, never a panic; parsed boxed values must be usable (bits, re-format).", "DESIGN.md §4 C17"),
 "C18": func("DER (U64..U8192: to_der, encode_to_slice, encoded_len, from_der, TryFrom<AnyRef>, TryFrom<UintRef>) and RLP (U64..U256: encode, RlpStream::append, decode, Rlp::as_val) against my own strict canonical codecs: encodings must be byte-identical to the canonical one; for arbitrary byte strings (boundary lengths around the capacity, leading 0x00/0x7f/0x80/0xff, wrong tags, truncated / overlong / non-minimal / indefinite length fields, mutations of valid encodings) the decoder must return Ok(v) exactly for the canonical encoding of a fitting v and an error otherwise, never panic.", "DESIGN.md §4 C18"),
 "C19": ("instrumented-RNG monitors: scripted adversarial / exact-cycle / failing streams and ChaCha streams; range, error, lock-step (fixed vs boxed value and consumption), exact-cycle uniformity and Bernstein-bounded statistical uniformity (1e-12 total false-alarm budget)",
         "Exploration: random_mod / try_random_mod on Limb, Uint (1,2,3,4,8 limbs) and BoxedUint for moduli with top limb 1, 2^j, 2^j+-1, MAX and low limbs 0/MAX: value < m, fixed == boxed with identical RNG call logs; exact-cycle streams (every masked top-word value once) must yield every value of [0,m) exactly once for all moduli <= 512 and boundary moduli < 2^16; statistical per-bucket bounds for small moduli and 64 coarse buckets for multi-limb moduli; random_bits for every bit_length 0..=BITS+2 under ChaCha, all-ones and all-zero streams (value < 2^k, == 2^k-1 under all ones, documented platform-independent byte consumption, errors exactly for bit_length > BITS / precision mismatch) and per-bit frequencies; Random for Limb/Uint/Int/NonZero/Odd/ConstMontyForm under zero-prefix and failing streams.",
         "DESIGN.md §5 C19", "Trusted base: ChaCha8 from rand_chacha as the uniform stream; the Bernstein inequality for the statistical bound (per-test delta 1e-18, < 1e6 tests per run); the exact-cycle experiment assumes the sampler reads one word per single-limb candidate, which the call log verifies. Statistical power is about 2% per bucket at 10^6 draws; smaller biases on ChaCha streams are invisible, the exact-cycle test covers the acceptance rule itself."),
 "C15": ("differential runtime monitor: named form pairs (two routes to the same operation) executed on identical generated inputs, outputs and boxed precisions required bit-identical; per-pair evaluation counts in the evidence",
         "Exploration: about 600 named form pairs in six families - fixed Uint<N> vs BoxedUint of 64*N bits for N in 1,2,3,4,8,16,32,64 (arithmetic, bits, shifts, division, by-limb division, sqrt, inv_mod2k, formatting, modular add/sub/neg/mul, special-modulus forms, Montgomery forms, inversion, gcd), constant-time vs _vartime, trait vs inherent, precomputed vs one-shot (reciprocals, inverters), operator forests by value / by reference / assigning and the Wrapping / Checked wrappers against the inherent methods (fixed, and boxed with narrower right-hand sides of BoxedUint / Uint<N> / u8..u128 type, panicking exactly when the checked form is none), and const-evaluated vs run-time (14 literal operand tuples x 23 const fns frozen at harness compile time vs black_box'ed run-time calls); boxed results must have the documented precision.",
         "DESIGN.md §5 C15", "Trusted base: the harness conversions only - no external oracle is involved, each pair compares two routes of the crate against each other, so a defect shared by both routes is invisible here (that is C02-C10's job). Const-vs-run-time compares rustc's const evaluator with the optimized build on a fixed literal bank, not on generated inputs."),
 "C11": ("panic monitor (catch_unwind around every operation) over two build profiles - opt-level 3 without debug assertions and opt-level 1 with debug assertions + overflow checks - plus a Miri pass in the thorough tier; hostile-argument workload for option/result-returning operations and a sweep re-running the workloads of C02-C10, C12-C20 keeping only panic-class verdicts",
         "Exploration: (1) hostile-argument workload: ~45 option/result/choice-returning operations each of Limb, Uint (1,2,4,8 limbs), Int, BoxedUint (1..=9 limbs) incl. inversion, Montgomery inv/pow, gcd, sqrt, checked/saturating/wrapping/overflowing forms, fallible random APIs, with zero moduli, zero divisors, non-invertible pairs, shifts / bit counts from {0,1,BITS-1,BITS,BITS+1,2^31,u32::MAX}; every public BoxedUint constructor at sizes 0..=3 limbs x precisions 0..=130 bits followed by ~40 observer operations on the constructed value; 20 fallible decoders (byte/hex/radix/DER/RLP/serde) on arbitrary bytes and precisions: any panic is a violation. (2) sweep: the workloads of the 18 other claimed properties (their checkers already wrap documented-panic forms in panics-iff oracles) re-run in both profiles; unexpected, spurious and missing panics are C11 verdicts. Thorough adds a single-threaded Miri pass of (1).",
         "DESIGN.md §5 C11", "Trusted base: panic=unwind in both profiles so that catch_unwind observes every panic / overflow trap / failed assertion / bounds check; the expected-panic table is the set of panics-iff oracles in the property modules, derived from the crate documentation. Non-termination is only bounded by a wall-clock watchdog (inconclusive when it fires). Precisions above 2^16 bits are not generated (a precision near u32::MAX allocates 512 MiB per value)."),
 "C12": ("invariant monitor at every producer of NonZero<T>/Odd<T> (raw-limb predicate + stated-byte-order oracle + consumer check)",
         "Exploration: every public producer of NonZero / Odd for Limb, Uint, Int, BoxedUint (new, new_unwrap, to_nz/to_odd, from_u*/From<core::num::NonZero*>, from_be/le_bytes, from_be/le_byte_array, from_be/le_hex, Default/ONE/MAX, conditional_select, abs_sign, widen, as_nz_ref, Odd<Uint> -> Odd<BoxedUint>, serde binary + hex, zeroize, random under zero-prefix streams, MontyParams::modulus) is driven with values that must be rejected and accepted, incl. asymmetric byte strings whose BE/LE readings differ in validity; each produced value is checked on its raw limbs, against the oracle decoding for the STATED byte order, and through a consumer (div_rem / MontyParams).",
         "DESIGN.md §5 C12", FUNC_NOTE),
}

checks = []
na = []
for p in props:
    pid = p["id"]
    if pid in CLAIMED:
        tech, text, ref, note = CLAIMED[pid]
        checks.append({
            "property_id": pid,
            "quick_cmd": "./check %s --tier quick" % pid,
            "thorough_cmd": "./check %s --tier thorough" % pid,
            "evidence_file": "/verif/evidence/%s.json" % pid,
            "replay_cmd_template": "./check %s --replay {path}" % pid,
            "engine": "vprops",
            "level_claimed": {"category": "exploration", "text": text, "design_ref": ref},
            "level_note": note,
            "technique": tech,
        })
    else:
        na.append({"property_id": pid, "reason": "check not built yet in this commit (runtime monitoring applies; see DESIGN.md) — not claimed until its monitor exists and is silent on the unchanged tree"})

m = {
 "version": 1,
 "setup_cmd": "./check --setup",
 "hooks": {
   "guard": "--cfg crypto_bigint_verif",
   "enable": "no source hooks are needed: every monitored state is reachable at the public API boundary (DESIGN.md §2.5); checks build /repo unmodified as a path dependency of /verif/harness",
   "baseline_off_cmd": "cd /repo && cargo test --workspace --no-fail-fast --offline",
   "source_commits": [],
   "add_only": True,
 },
 "engines": [
   {"name": "vprops", "path": "/verif/harness/props", "serves_properties": sorted(CLAIMED.keys()),
    "kind_free_text": "Rust workload+monitor binary (one module per property) driven by /verif/check; oracle num-bigint; 16 worker threads"},
 ],
 "checks": checks,
 "not_applicable": na,
 "notes": "All checks are runtime monitors over executions of the real code built from /repo's working tree (path dependency). Exit 0 = held on everything observed (KNOWN-FINDING / INCONCLUSIVE lines possible), 1 = VIOLATION, 2 = machinery failure.",
}
json.dump(m, open(os.path.join(ROOT, "MANIFEST.json"), "w"), indent=1)
print("claimed", len(checks), "not claimed", len(na))
