#!/bin/bash
# usage: run_all.sh <tier> <seed> [ids...]  — runs the checks sequentially, prints one summary line each
tier=${1:-quick}; seed=${2:-1}; shift 2
ids=${@:-C01 C02 C03 C04 C05 C06 C07 C08 C09 C10 C11 C12 C13 C14 C15 C16 C17 C18 C19 C20}
cd /verif
for p in $ids; do
  out=$(./check $p --tier $tier --seed $seed 2>&1); rc=$?
  echo "$out" > /tmp/run_all_${p}_${tier}_${seed}.log
  echo "rc=$rc $(echo "$out" | grep -E "^C[0-9]+ tier" | tail -1)"
  echo "$out" | grep -E "^(VIOLATION|INCONCLUSIVE|MACHINERY)|^  key=" | head -6
done
