//! Secret-variant generators: every variant belongs to a named class from the property's quantifier
//! (0, 1, MAX, powers of two, bit lengths that are multiples of the limb size, operands equal to each
//! other or to modulus-1, random).
use num_bigint::BigUint;
use vcore::big::{from_big, to_big};
use vcore::gn;
use vcore::rng::Rng;

#[derive(Clone, Debug, Default)]
pub struct Secret {
    pub a: Vec<Vec<u64>>,
    pub s: Vec<u64>,
    pub class: String,
}

pub const NSINGLE: usize = 10;
/// One operand of `w` limbs from single-operand class `c`.
pub fn single(r: &mut Rng, w: usize, c: usize) -> (Vec<u64>, &'static str) {
    match c % NSINGLE {
        0 => (gn::zero(w), "zero"),
        1 => (gn::one(w), "one"),
        2 => (gn::max(w), "max"),
        3 => {
            let j = if w > 1 { 1 + r.usize_below(w - 1) } else { 0 };
            (gn::single_bit(w, 64 * j), "pow2_limb_boundary")
        }
        4 => {
            let j = 1 + r.usize_below(w);
            (gn::low_ones(w, 64 * j), "ones_to_limb_boundary")
        }
        5 => {
            // bit length exactly a multiple of 64: top bit of limb j-1 set, random below
            let j = 1 + r.usize_below(w);
            let mut v = gn::random(r, w);
            for l in v.iter_mut().skip(j) {
                *l = 0;
            }
            v[j - 1] |= 1 << 63;
            (v, "bitlen_multiple_of_64")
        }
        6 => {
            let b = r.usize_below(64 * w);
            (gn::single_bit(w, b), "single_bit")
        }
        7 => {
            // top limbs zero, bit length not a multiple of 64
            let mut v = gn::random(r, w);
            let j = r.usize_below(w);
            for l in v.iter_mut().skip(j + 1) {
                *l = 0;
            }
            v[j] = (v[j] >> (1 + r.below(62))) | 1;
            (v, "short_bitlen")
        }
        8 => {
            let mut v = gn::random(r, w);
            v[0] = 0;
            if w > 1 {
                v[w / 2] = 0;
            }
            (v, "zero_limbs_inside")
        }
        _ => (gn::random(r, w), "random"),
    }
}

pub fn nonzero(r: &mut Rng, w: usize, c: usize) -> (Vec<u64>, &'static str) {
    let (mut v, n) = single(r, w, if c % NSINGLE == 0 { 9 } else { c });
    if v.iter().all(|&l| l == 0) {
        v[w - 1] = 1;
    }
    (v, n)
}

pub fn odd(r: &mut Rng, w: usize, c: usize) -> (Vec<u64>, &'static str) {
    let (mut v, n) = single(r, w, if c % NSINGLE == 0 { 9 } else { c });
    v[0] |= 1;
    (v, n)
}

/// Two operands; every fifth class makes them equal.
pub fn any2(r: &mut Rng, w: usize, c: usize) -> Secret {
    let (a, na) = single(r, w, c);
    let (b, nb) = if c % 5 == 4 { (a.clone(), "equal") } else { single(r, w, c * 7 + 3) };
    Secret { a: vec![a, b], s: vec![], class: format!("{},{}", na, nb) }
}

pub fn any1(r: &mut Rng, w: usize, c: usize) -> Secret {
    let (a, na) = single(r, w, c);
    Secret { a: vec![a], s: vec![], class: na.to_string() }
}

/// (dividend, non-zero divisor)
pub fn div(r: &mut Rng, w: usize, c: usize) -> Secret {
    let (a, na) = single(r, w, c * 3 + 1);
    let (b, nb) = match c % 4 {
        3 if a.iter().any(|&l| l != 0) => (a.clone(), "equal"),
        _ => nonzero(r, w, c),
    };
    Secret { a: vec![a, b], s: vec![], class: format!("{},{}", na, nb) }
}

/// (a, b, p) with a, b < p; `odd_p` forces an odd modulus.
pub fn modular(r: &mut Rng, w: usize, c: usize, odd_p: bool) -> Secret {
    let (mut p, np) = if odd_p { odd(r, w, c) } else { nonzero(r, w, c) };
    if p.iter().skip(1).all(|&l| l == 0) && p[0] < 3 {
        p[0] = 3;
    }
    let pb = to_big(&p);
    let pick = |r: &mut Rng, k: usize| -> (BigUint, &'static str) {
        match k % 5 {
            0 => (BigUint::from(0u32), "zero"),
            1 => (BigUint::from(1u32), "one"),
            2 => (&pb - 1u32, "p_minus_1"),
            3 => (&pb >> 1, "half_p"),
            _ => (gn::below(r, &pb, w), "random"),
        }
    };
    let (a, na) = pick(r, c);
    let (b, nb) = if c % 7 == 6 { (a.clone(), "equal") } else { pick(r, c / 5 + c) };
    Secret { a: vec![from_big(&a, w), from_big(&b, w), p], s: vec![], class: format!("{},{},p={}", na, nb, np) }
}

/// (a, b) below a public modulus `m`, plus an exponent-like third operand of any class.
pub fn below_public(r: &mut Rng, w: usize, c: usize, m: &[u64]) -> Secret {
    let pb = to_big(m);
    let pick = |r: &mut Rng, k: usize| -> (BigUint, &'static str) {
        match k % 5 {
            0 => (BigUint::from(0u32), "zero"),
            1 => (BigUint::from(1u32) % &pb, "one"),
            2 => (&pb - 1u32, "m_minus_1"),
            3 => (&pb >> 1, "half_m"),
            _ => (gn::below(r, &pb, w), "random"),
        }
    };
    let (a, na) = pick(r, c);
    let (b, nb) = if c % 7 == 6 { (a.clone(), "equal") } else { pick(r, c / 5 + c + 2) };
    let (e, ne) = single(r, w, c + 1);
    Secret { a: vec![from_big(&a, w), from_big(&b, w), e], s: vec![], class: format!("{},{},e={}", na, nb, ne) }
}

/// value of any class plus a scalar from `list` (shift amounts, bit indices).
pub fn with_scalar(r: &mut Rng, w: usize, c: usize, list: &[u64]) -> Secret {
    let (a, na) = single(r, w, c / list.len() + c);
    let k = list[c % list.len()];
    Secret { a: vec![a], s: vec![k], class: format!("{},k={}", na, k) }
}

pub fn limbs3(r: &mut Rng, c: usize) -> Secret {
    let pal = [0u64, 1, u64::MAX, 1 << 63, (1 << 63) - 1, 1 << 32, u32::MAX as u64];
    let pick = |r: &mut Rng, k: usize| if k % 8 == 7 { gn::limb(r) } else { pal[k % 7] };
    let (a, b, cc) = (pick(r, c), pick(r, c / 3 + 1), pick(r, c / 5 + 2));
    Secret { a: vec![], s: vec![a, b, cc], class: format!("limbs:{:x},{:x},{:x}", a, b, cc) }
}

// ---------------------------------------------------------------------------------------------
// variants that differ from the base variant in exactly one operand ("vary" groups): a leak that
// depends on one operand only shows up in its group and in the all-operands group, which lets
// known findings be keyed by the operand they depend on.

fn big_fits(v: &BigUint, w: usize) -> bool {
    v.bits() as usize <= 64 * w
}

/// dividend classes relative to a fixed divisor `d` (add-back and boundary constructions)
pub fn dividend_for(r: &mut Rng, w: usize, c: usize, d: &[u64]) -> (Vec<u64>, &'static str) {
    let db = to_big(d);
    let one = BigUint::from(1u32);
    let m = BigUint::from(gn::limb(r) | 1);
    let cand: (BigUint, &'static str) = match c % 8 {
        1 => (&db - &one, "d_minus_1"),
        2 => ((&db << 1) - &one, "2d_minus_1"),
        3 => (&m * &db - &one, "multiple_minus_1"),
        4 => (db.clone(), "equal_d"),
        5 => (&db + &one, "d_plus_1"),
        6 => (&m * &db, "multiple"),
        _ => {
            let (v, n) = single(r, w, c);
            return (v, n);
        }
    };
    if big_fits(&cand.0, w) { (from_big(&cand.0, w), cand.1) } else { (from_big(&(&db - &one), w), "d_minus_1") }
}

pub fn below_value(r: &mut Rng, w: usize, c: usize, p: &[u64]) -> (Vec<u64>, &'static str) {
    let pb = to_big(p);
    let (v, n) = match c % 5 {
        0 => (BigUint::from(0u32), "zero"),
        1 => (BigUint::from(1u32) % &pb, "one"),
        2 => (&pb - 1u32, "p_minus_1"),
        3 => (&pb >> 1, "half_p"),
        _ => (gn::below(r, &pb, w), "random"),
    };
    (from_big(&v, w), n)
}
