//! Global allocator with a bump arena for the traced region, so that heap addresses used by an
//! operation are identical for every secret variant of a cell.  Outside a region the system
//! allocator is used.  Arena blocks are never freed individually; the arena is reset at region start.
use std::alloc::{GlobalAlloc, Layout, System};
use std::cell::UnsafeCell;
use std::sync::atomic::{AtomicBool, AtomicUsize, Ordering};

pub const ARENA_SIZE: usize = 64 << 20;

#[repr(align(4096))]
struct Buf(UnsafeCell<[u8; ARENA_SIZE]>);
unsafe impl Sync for Buf {}
static BUF: Buf = Buf(UnsafeCell::new([0u8; ARENA_SIZE]));
static OFF: AtomicUsize = AtomicUsize::new(0);
static IN_REGION: AtomicBool = AtomicBool::new(false);
pub static HIGH_WATER: AtomicUsize = AtomicUsize::new(0);

pub struct Arena;

fn base() -> usize {
    BUF.0.get() as usize
}

/// Enter the region: later allocations come from the (reset) arena.
#[inline(always)]
pub fn enter() {
    OFF.store(0, Ordering::Relaxed);
    IN_REGION.store(true, Ordering::Relaxed);
}
#[inline(always)]
pub fn leave() {
    IN_REGION.store(false, Ordering::Relaxed);
    let o = OFF.load(Ordering::Relaxed);
    if o > HIGH_WATER.load(Ordering::Relaxed) {
        HIGH_WATER.store(o, Ordering::Relaxed);
    }
}

unsafe impl GlobalAlloc for Arena {
    unsafe fn alloc(&self, l: Layout) -> *mut u8 {
        if IN_REGION.load(Ordering::Relaxed) {
            let off = OFF.load(Ordering::Relaxed);
            let start = (base() + off + l.align() - 1) & !(l.align() - 1);
            let end = start + l.size();
            if end > base() + ARENA_SIZE {
                return std::ptr::null_mut();
            }
            OFF.store(end - base(), Ordering::Relaxed);
            start as *mut u8
        } else {
            unsafe { System.alloc(l) }
        }
    }
    unsafe fn alloc_zeroed(&self, l: Layout) -> *mut u8 {
        let p = unsafe { self.alloc(l) };
        if !p.is_null() {
            // the arena is reused across variants: always clear (constant cost)
            unsafe { std::ptr::write_bytes(p, 0, l.size()) };
        }
        p
    }
    unsafe fn dealloc(&self, p: *mut u8, l: Layout) {
        let a = p as usize;
        if a >= base() && a < base() + ARENA_SIZE {
            return;
        }
        unsafe { System.dealloc(p, l) }
    }
}
