//! xoshiro256** with splitmix64 seeding; forkable so that every (property, worker, stream) is an
//! independent, reproducible stream derived from VERIF_SEED.

#[derive(Clone, Debug)]
pub struct Rng {
    s: [u64; 4],
}

fn splitmix(x: &mut u64) -> u64 {
    *x = x.wrapping_add(0x9E37_79B9_7F4A_7C15);
    let mut z = *x;
    z = (z ^ (z >> 30)).wrapping_mul(0xBF58_476D_1CE4_E5B9);
    z = (z ^ (z >> 27)).wrapping_mul(0x94D0_49BB_1331_11EB);
    z ^ (z >> 31)
}

impl Rng {
    pub fn new(seed: u64) -> Self {
        let mut x = seed;
        let s = [splitmix(&mut x), splitmix(&mut x), splitmix(&mut x), splitmix(&mut x)];
        Rng { s }
    }

    /// Independent child stream labelled by `tag`.
    pub fn fork(&self, tag: u64) -> Rng {
        let mut x = self.s[0] ^ self.s[2].rotate_left(17) ^ tag.wrapping_mul(0xD6E8_FEB8_6659_FD93);
        let s = [splitmix(&mut x), splitmix(&mut x), splitmix(&mut x), splitmix(&mut x)];
        Rng { s }
    }

    pub fn fork_str(&self, tag: &str) -> Rng {
        let mut h = 0xcbf2_9ce4_8422_2325u64;
        for b in tag.bytes() {
            h ^= b as u64;
            h = h.wrapping_mul(0x0000_0100_0000_01B3);
        }
        self.fork(h)
    }

    #[inline]
    pub fn u64(&mut self) -> u64 {
        let r = self.s[1].wrapping_mul(5).rotate_left(7).wrapping_mul(9);
        let t = self.s[1] << 17;
        self.s[2] ^= self.s[0];
        self.s[3] ^= self.s[1];
        self.s[1] ^= self.s[2];
        self.s[0] ^= self.s[3];
        self.s[2] ^= t;
        self.s[3] = self.s[3].rotate_left(45);
        r
    }

    #[inline]
    pub fn u32(&mut self) -> u32 {
        (self.u64() >> 32) as u32
    }

    /// Uniform in 0..n (n > 0).
    #[inline]
    pub fn below(&mut self, n: u64) -> u64 {
        debug_assert!(n > 0);
        ((self.u64() as u128 * n as u128) >> 64) as u64
    }

    #[inline]
    pub fn usize_below(&mut self, n: usize) -> usize {
        self.below(n as u64) as usize
    }

    /// Uniform in lo..=hi.
    #[inline]
    pub fn range(&mut self, lo: u64, hi: u64) -> u64 {
        lo + self.below(hi - lo + 1)
    }

    #[inline]
    pub fn bool(&mut self) -> bool {
        self.u64() >> 63 == 1
    }

    /// True with probability num/den.
    #[inline]
    pub fn chance(&mut self, num: u64, den: u64) -> bool {
        self.below(den) < num
    }

    pub fn pick<'a, T>(&mut self, xs: &'a [T]) -> &'a T {
        &xs[self.usize_below(xs.len())]
    }

    pub fn bytes(&mut self, n: usize) -> Vec<u8> {
        let mut v = Vec::with_capacity(n);
        while v.len() < n {
            let w = self.u64().to_le_bytes();
            let take = (n - v.len()).min(8);
            v.extend_from_slice(&w[..take]);
        }
        v
    }
}
