#!/usr/bin/env python3
"""Regenerates /verif/MANIFEST.json from the table below (keeps it schema-valid at all times)."""
import json, os
ROOT = os.path.dirname(os.path.dirname(os.path.abspath(__file__)))
props = [json.loads(l) for l in open(os.path.join(ROOT, "properties.jsonl"))]

FUNC_NOTE = ("Trusted base: num-bigint as oracle (cross-checked by identities recomputed through the crate's own primitives), "
             "the harness conversions, rustc 1.95 at opt-level 3. Held only on the executions observed; the generator is "
             "structured/hostile, not exhaustive, except for the sub-spaces the evidence lists as exhaustive.")

# id -> (technique, level text, design_ref, level_note)
CLAIMED = {
 "C02": ("reference-model runtime monitor (BigUint oracle + n==q*d+r identity) over hostile generated workloads with oracle-side rare-path classification",
         "Exploration: every division/remainder form (fixed 1..64 limbs, boxed 1..70 limbs, mixed widths, by-limb, wide, rem2k, operators, Wrapping, traits) is executed on millions of constructed operand pairs per run and each result is compared online with an independent big-integer oracle; the oracle classifies and counts the rare paths (Knuth add-back, capped estimate, 2-by-1 corrections) so a run that missed them is reported inconclusive.",
         "DESIGN.md §4 C02", FUNC_NOTE),
}

checks = []
na = []
for p in props:
    pid = p["id"]
    if pid in CLAIMED:
        tech, text, ref, note = CLAIMED[pid]
        checks.append({
            "property_id": pid,
            "quick_cmd": "./check %s --tier quick" % pid,
            "thorough_cmd": "./check %s --tier thorough" % pid,
            "evidence_file": "/verif/evidence/%s.json" % pid,
            "replay_cmd_template": "./check %s --replay {path}" % pid,
            "engine": "vprops",
            "level_claimed": {"category": "exploration", "text": text, "design_ref": ref},
            "level_note": note,
            "technique": tech,
        })
    else:
        na.append({"property_id": pid, "reason": "check not built yet in this commit (runtime monitoring applies; see DESIGN.md) — not claimed until its monitor exists and is silent on the unchanged tree"})

m = {
 "version": 1,
 "setup_cmd": "./check --setup",
 "hooks": {
   "guard": "--cfg crypto_bigint_verif",
   "enable": "no source hooks are needed: every monitored state is reachable at the public API boundary (DESIGN.md §2.5); checks build /repo unmodified as a path dependency of /verif/harness",
   "baseline_off_cmd": "cd /repo && cargo test --workspace --no-fail-fast --offline",
   "source_commits": [],
   "add_only": True,
 },
 "engines": [
   {"name": "vprops", "path": "/verif/harness/props", "serves_properties": sorted(CLAIMED.keys()),
    "kind_free_text": "Rust workload+monitor binary (one module per property) driven by /verif/check; oracle num-bigint; 16 worker threads"},
 ],
 "checks": checks,
 "not_applicable": na,
 "notes": "All checks are runtime monitors over executions of the real code built from /repo's working tree (path dependency). Exit 0 = held on everything observed (KNOWN-FINDING / INCONCLUSIVE lines possible), 1 = VIOLATION, 2 = machinery failure.",
}
json.dump(m, open(os.path.join(ROOT, "MANIFEST.json"), "w"), indent=1)
print("claimed", len(checks), "not claimed", len(na))
