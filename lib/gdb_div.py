# gdb script of the M3 stage: logs the operands of every hardware division executed inside a compared
# region of ct_target.  Parameters come through environment variables:
#   CT_DIV_SITES = "vaddr:operand,vaddr:operand,..." (operand text from objdump, AT&T syntax)
#   CT_DIV_OUT   = output file (one JSON object per hit)
#   CT_ANCHOR    = link-time address of ct_anchor (hex)
import gdb, json, os, re

sites = [x.split(":", 1) for x in os.environ["CT_DIV_SITES"].split(",") if x]
out = open(os.environ["CT_DIV_OUT"], "w")
gdb.execute("set pagination off")
gdb.execute("set confirm off")
gdb.execute("set disable-randomization on")
gdb.execute("set language c")
gdb.execute("starti")
# link-time addresses come from nm; the load bias from the first mapping of the executable
bias = 0
for line in gdb.execute("info proc mappings", to_string=True).splitlines():
    parts = line.split()
    if len(parts) >= 5 and parts[-1].endswith("ct_target") and parts[2 if len(parts) == 5 else 3] in ("0x0", "0"):
        bias = int(parts[0], 16)
        break
ACTIVE = int(os.environ["CT_ACTIVE_VADDR"], 16) + bias
SEQ = int(os.environ["CT_SEQ_VADDR"], 16) + bias
inf = gdb.selected_inferior()


def rd(addr):
    return int.from_bytes(bytes(inf.read_memory(addr, 8)), "little")


def operand_value(text):
    m = re.fullmatch(r"%(\w+)", text)
    if m:
        return int(gdb.parse_and_eval("$" + m.group(1))) & 0xFFFFFFFFFFFFFFFF
    return None


class DivBP(gdb.Breakpoint):
    def __init__(self, vaddr, operand):
        super().__init__("*%#x" % (int(vaddr, 16) + bias), internal=True)
        self.vaddr, self.operand = vaddr, operand

    def stop(self):
        if rd(ACTIVE) == 0:
            return False
        seq = rd(SEQ)
        wide = self.operand.startswith("%r") and not self.operand.endswith(("d", "w", "b"))
        mask = 0xFFFFFFFFFFFFFFFF if wide else 0xFFFFFFFF
        rax = int(gdb.parse_and_eval("$rax")) & mask
        rdx = int(gdb.parse_and_eval("$rdx")) & mask
        dv = operand_value(self.operand)
        out.write(json.dumps({"seq": seq, "site": self.vaddr, "rax": rax, "rdx": rdx, "divisor": None if dv is None else dv & mask, "operand": self.operand}) + "\n")
        return False


for v, o in sites:
    DivBP(v, o)
gdb.execute("continue")
out.close()
