//! ct_target — runs registry cells between marker stores so that an external tracer (valgrind
//! lackey: machine-level monitor M2; gdb: division operands M3) or the in-process SanitizerCoverage
//! callbacks (IR-level monitor M1, feature `cov`) can compare the leakage trace of different secret
//! variants of the same cell.
//!
//!   ct_target list
//!   ct_target run  --tier quick|thorough --variants N --seed S --shard I/N [--only SUBSTR] (traced externally)
//!   ct_target cov  --tier quick|thorough --variants N --seed S --shard I/N [--only SUBSTR] (feature cov)
mod arena;
mod gens;
mod ops;

use ops::{Cell, Slots};
use serde_json::json;
use std::io::Write;
use vcore::big::hex;
use vcore::rng::Rng;

#[global_allocator]
static GLOBAL: arena::Arena = arena::Arena;

/// Marker bytes: a store to MARK[0] opens a compared region, MARK[1] closes it, MARK[2] opens a
/// warm-up region (never compared).  The tracer sees the store addresses.
#[unsafe(no_mangle)]
pub static mut CT_MARK: [u8; 8] = [0; 8];
/// Sequence number of the current region and "inside a compared region" flag (read by the gdb stage).
#[unsafe(no_mangle)]
pub static mut CT_SEQ: u64 = 0;
#[unsafe(no_mangle)]
pub static mut CT_ACTIVE: u64 = 0;

#[inline(always)]
fn mark(i: usize) {
    unsafe { core::ptr::write_volatile((&raw mut CT_MARK as *mut u8).add(i), 1) }
}

#[cfg(feature = "cov")]
unsafe extern "C" {
    fn ct_cov_begin(record: i32);
    fn ct_cov_end();
    fn ct_cov_hash() -> u64;
    fn ct_cov_count() -> u64;
    fn ct_cov_div_hash() -> u64;
    fn ct_cov_div_count() -> u64;
    fn ct_cov_log_len() -> u64;
    fn ct_cov_log_get(i: u64, kind: *mut u64, pc: *mut u64, val: *mut u64);
}

/// The single entry into a traced region.
#[inline(never)]
fn trampoline(f: &dyn Fn(&Slots), s: &Slots, warm: bool) {
    mark(if warm { 2 } else { 0 });
    unsafe { core::ptr::write_volatile(&raw mut CT_ACTIVE, !warm as u64) };
    arena::enter();
    f(s);
    arena::leave();
    unsafe { core::ptr::write_volatile(&raw mut CT_ACTIVE, 0) };
    mark(1);
}

#[cfg(feature = "cov")]
#[inline(never)]
fn trampoline_cov(f: &dyn Fn(&Slots), s: &Slots, record: bool) {
    arena::enter();
    unsafe { ct_cov_begin(record as i32) };
    f(s);
    unsafe { ct_cov_end() };
    arena::leave();
}

#[inline(never)]
#[unsafe(no_mangle)]
pub extern "C" fn ct_anchor() -> u64 {
    0x00c0_ffee
}

fn arg(args: &[String], name: &str) -> Option<String> {
    args.iter().position(|a| a == name).and_then(|i| args.get(i + 1).cloned())
}

fn load(slots: &mut Slots, sec: &gens::Secret) {
    for (i, v) in sec.a.iter().enumerate() {
        slots.a[i].copy_from_slice(v);
    }
    for (i, v) in sec.s.iter().enumerate() {
        slots.s[i] = *v;
    }
}

fn secret_json(sec: &gens::Secret) -> serde_json::Value {
    json!({"a": sec.a.iter().map(|x| hex(x)).collect::<Vec<_>>(), "s": sec.s, "class": sec.class})
}

fn select<'a>(reg: &'a [Cell], args: &[String]) -> Vec<(usize, &'a Cell)> {
    let tier = arg(args, "--tier").unwrap_or("quick".into());
    let shard = arg(args, "--shard").unwrap_or("0/1".into());
    let (si, sn) = shard.split_once('/').map(|(a, b)| (a.parse::<usize>().unwrap(), b.parse::<usize>().unwrap())).unwrap();
    let only = arg(args, "--only");
    let ops_file: Option<Vec<String>> = arg(args, "--ops-file").map(|f| std::fs::read_to_string(f).expect("ops file").lines().map(|l| l.trim().to_string()).filter(|l| !l.is_empty()).collect());
    let mut picked: Vec<(usize, &Cell)> = reg
        .iter()
        .enumerate()
        .filter(|(_, c)| tier == "thorough" || c.tier == 0)
        .filter(|(_, c)| only.as_ref().map(|o| c.op.contains(o.as_str())).unwrap_or(true))
        .filter(|(_, c)| ops_file.as_ref().map(|l| l.iter().any(|o| *o == c.op)).unwrap_or(true))
        .collect();
    // round-robin so that heavy neighbours (inversion, pow) spread over the shards
    picked = picked.into_iter().enumerate().filter(|(k, _)| k % sn == si).map(|(_, x)| x).collect();
    picked
}

fn variants_of(cell: &Cell, idx: usize, seed: u64, n: usize) -> Vec<(gens::Secret, &'static str)> {
    // the class sequence is the same for every seed; the seed changes the random content.
    // variant 0 is the base; later variants cycle through the cell's vary modes.
    let mut rng = Rng::new(seed).fork(idx as u64 + 1);
    let offset = (seed as usize).wrapping_mul(7);
    let modes = cell.generator.modes();
    let base = cell.generator.make(&mut rng, cell.width, 0);
    let mut out = vec![(base.clone(), "base")];
    for v in 1..n {
        let mode = modes[(v - 1) % modes.len()];
        let k = (v - 1) / modes.len() + 1;
        let c = if v < 16 { k } else { k + offset };
        out.push((cell.generator.vary(&mut rng, cell.width, c, &base, mode), mode));
    }
    out
}

fn main() {
    let args: Vec<String> = std::env::args().collect();
    let reg = ops::registry();
    let out = std::io::stdout();
    match args.get(1).map(|s| s.as_str()) {
        Some("list") => {
            for (i, c) in reg.iter().enumerate() {
                println!("{}", json!({"cell": i, "op": c.op, "width": c.width, "public": c.public, "tier": c.tier}));
            }
        }
        Some("run") => {
            let nvar: usize = arg(&args, "--variants").and_then(|s| s.parse().ok()).unwrap_or(8);
            let seed: u64 = arg(&args, "--seed").and_then(|s| s.parse().ok()).unwrap_or(1);
            let picked = select(&reg, &args);
            {
                let mut o = out.lock();
                writeln!(
                    o,
                    "{}",
                    json!({"header": true, "mark": (&raw const CT_MARK) as usize, "seq_addr": (&raw const CT_SEQ) as usize,
                           "anchor": ct_anchor as usize, "cells": picked.len(), "variants": nvar, "seed": seed})
                )
                .unwrap();
                o.flush().unwrap();
            }
            std::thread::sleep(std::time::Duration::from_millis(400));
            let mut seq: u64 = 0;
            for (idx, cell) in picked {
                let vars = variants_of(cell, idx, seed, nvar);
                let mut slots = Slots { a: vars[0].0.a.iter().map(|v| vec![0u64; v.len()]).collect(), s: vec![0; vars[0].0.s.len().max(1)] };
                // order: warm-up, variant 0, variant 0 again (A/A control), variants 1..
                let mut plan: Vec<(usize, &str)> = vec![(0, "warm"), (0, "base"), (0, "aa")];
                plan.extend((1..nvar).map(|v| (v, "var")));
                for (v, kind) in plan {
                    load(&mut slots, &vars[v].0);
                    {
                        let mut o = out.lock();
                        writeln!(
                            o,
                            "{}",
                            json!({"seq": seq, "cell": idx, "op": cell.op, "width": cell.width, "public": cell.public, "variant": v, "kind": kind, "vary": vars[v].1, "secret": secret_json(&vars[v].0)})
                        )
                        .unwrap();
                        o.flush().unwrap();
                    }
                    unsafe { core::ptr::write_volatile(&raw mut CT_SEQ, seq) };
                    trampoline(cell.run.as_ref(), &slots, kind == "warm");
                    seq += 1;
                }
            }
            let mut o = out.lock();
            writeln!(o, "{}", json!({"footer": true, "regions": seq, "arena_high_water": arena::HIGH_WATER.load(std::sync::atomic::Ordering::Relaxed)})).unwrap();
        }
        Some("pair") => {
            // replay of one divergence: {op, width, public, secret_a, secret_b}
            let text = std::fs::read_to_string(args.get(2).expect("pair file")).expect("read pair file");
            let v: serde_json::Value = serde_json::from_str(&text).expect("json");
            let (op, width, public) = (v["op"].as_str().unwrap(), v["width"].as_u64().unwrap() as usize, v["public"].as_str().unwrap());
            let (idx, cell) = reg.iter().enumerate().find(|(_, c)| c.op == op && c.width == width && c.public == public).expect("cell not in registry");
            let parse = |s: &serde_json::Value| -> gens::Secret {
                gens::Secret {
                    a: s["a"].as_array().unwrap().iter().map(|x| { let mut l = vcore::big::parse_hex(x.as_str().unwrap()); l.resize(if op.starts_with("Limb::") { 0 } else { width }, 0); l }).collect(),
                    s: s["s"].as_array().unwrap().iter().map(|x| x.as_u64().unwrap()).collect(),
                    class: s["class"].as_str().unwrap_or("").to_string(),
                }
            };
            let (a, b) = (parse(&v["secret_a"]), parse(&v["secret_b"]));
            {
                let mut o = out.lock();
                writeln!(o, "{}", json!({"header": true, "mark": (&raw const CT_MARK) as usize, "seq_addr": (&raw const CT_SEQ) as usize, "anchor": ct_anchor as usize, "cells": 1, "variants": 2})).unwrap();
                o.flush().unwrap();
            }
            std::thread::sleep(std::time::Duration::from_millis(400));
            let mut slots = Slots { a: a.a.iter().map(|v| vec![0u64; v.len()]).collect(), s: vec![0; a.s.len().max(1)] };
            let vary = v["vary"].as_str().unwrap_or("all").to_string();
            for (seq, (sec, kind, v)) in [(&a, "warm", 0), (&a, "base", 0), (&a, "aa", 0), (&b, "var", 1)].into_iter().enumerate() {
                load(&mut slots, sec);
                {
                    let mut o = out.lock();
                    writeln!(o, "{}", json!({"seq": seq, "cell": idx, "op": cell.op, "width": cell.width, "public": cell.public, "variant": v, "kind": kind, "vary": vary, "secret": secret_json(sec)})).unwrap();
                    o.flush().unwrap();
                }
                trampoline(cell.run.as_ref(), &slots, kind == "warm");
            }
            let mut o = out.lock();
            writeln!(o, "{}", json!({"footer": true, "regions": 4})).unwrap();
        }
        #[cfg(feature = "cov")]
        Some("cov") => cov_main(&reg, &args),
        _ => {
            eprintln!("usage: ct_target list|run|cov ...");
            std::process::exit(2);
        }
    }
}

/// IR-level monitor: in-process comparison of the SanitizerCoverage event hash of every variant
/// with variant 0 of its cell; on divergence both runs are re-recorded and the first differing
/// event is reported (pc values are symbolised by the driver).
#[cfg(feature = "cov")]
fn cov_main(reg: &[Cell], args: &[String]) {
    let nvar: usize = arg(args, "--variants").and_then(|s| s.parse().ok()).unwrap_or(64);
    let seed: u64 = arg(args, "--seed").and_then(|s| s.parse().ok()).unwrap_or(1);
    let picked = select(reg, args);
    println!("{}", json!({"header": true, "anchor": ct_anchor as usize, "cells": picked.len(), "variants": nvar, "seed": seed}));
    let run = |cell: &Cell, slots: &Slots, record: bool| -> (u64, u64, u64, u64) {
        trampoline_cov(cell.run.as_ref(), slots, record);
        unsafe { (ct_cov_hash(), ct_cov_count(), ct_cov_div_hash(), ct_cov_div_count()) }
    };
    let log = || -> Vec<(u64, u64, u64)> {
        let n = unsafe { ct_cov_log_len() };
        (0..n)
            .map(|i| {
                let (mut k, mut p, mut v) = (0u64, 0u64, 0u64);
                unsafe { ct_cov_log_get(i, &mut k, &mut p, &mut v) };
                (k, p, v)
            })
            .collect()
    };
    for (idx, cell) in picked {
        let vars = variants_of(cell, idx, seed, nvar);
        let mut slots = Slots { a: vars[0].0.a.iter().map(|v| vec![0u64; v.len()]).collect(), s: vec![0; vars[0].0.s.len().max(1)] };
        load(&mut slots, &vars[0].0);
        run(cell, &slots, false); // warm-up
        let base = run(cell, &slots, false);
        let aa = run(cell, &slots, false);
        let mut res = json!({"cell": idx, "op": cell.op, "width": cell.width, "public": cell.public, "events": base.1, "div_events": base.3,
                             "aa_ok": base == aa, "variants": nvar, "diverged": [], "classes": vars.iter().map(|v| v.0.class.clone()).collect::<Vec<_>>()});
        let mut div = Vec::new();
        if base == aa {
            for v in 1..nvar {
                load(&mut slots, &vars[v].0);
                let r = run(cell, &slots, false);
                if r != base && div.len() < 6 {
                    // record both event logs and locate the first difference
                    load(&mut slots, &vars[0].0);
                    run(cell, &slots, true);
                    let l0 = log();
                    load(&mut slots, &vars[v].0);
                    run(cell, &slots, true);
                    let l1 = log();
                    let first = l0.iter().zip(l1.iter()).position(|(a, b)| a != b).unwrap_or(l0.len().min(l1.len()));
                    let ev = |l: &Vec<(u64, u64, u64)>| l.get(first).map(|e| json!({"kind": e.0, "pc": e.1, "val": e.2}));
                    // set of pcs whose event multiset differs
                    let mut cnt: std::collections::HashMap<(u64, u64), (i64, u64, u64)> = std::collections::HashMap::new();
                    for e in &l0 {
                        let c = cnt.entry((e.0, e.1)).or_insert((0, 0, 0));
                        c.0 += 1;
                        c.1 = c.1.wrapping_mul(0x100000001b3).wrapping_add(e.2);
                    }
                    for e in &l1 {
                        let c = cnt.entry((e.0, e.1)).or_insert((0, 0, 0));
                        c.0 -= 1;
                        c.2 = c.2.wrapping_mul(0x100000001b3).wrapping_add(e.2);
                    }
                    let mut cf: Vec<u64> = cnt.iter().filter(|(_, c)| c.0 != 0).map(|(k, _)| k.1).collect();
                    let mut ad: Vec<u64> = cnt.iter().filter(|(_, c)| c.0 == 0 && c.1 != c.2).map(|(k, _)| k.1).collect();
                    cf.sort();
                    cf.dedup();
                    cf.truncate(400);
                    ad.sort();
                    ad.dedup();
                    ad.truncate(400);
                    div.push(json!({"variant": v, "vary": vars[v].1, "secret_a": secret_json(&vars[0].0), "secret_b": secret_json(&vars[v].0), "first_index": first,
                                    "event_a": ev(&l0), "event_b": ev(&l1), "len_a": l0.len(), "len_b": l1.len(), "cf_pcs": cf, "addr_pcs": ad,
                                    "div_operands_differ": r.2 != base.2 || r.3 != base.3}));
                } else if r != base {
                    div.push(json!({"variant": v, "vary": vars[v].1, "secret_b": secret_json(&vars[v].0), "unlocated": true}));
                }
            }
        }
        res["diverged"] = json!(div);
        println!("{}", res);
    }
    println!("{}", json!({"footer": true}));
}
