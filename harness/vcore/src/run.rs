//! Parallel runner, panic capture and the per-worker context handed to workloads.
use crate::rep::{Case, Rep};
use crate::rng::Rng;
use std::cell::RefCell;
use std::panic::{AssertUnwindSafe, catch_unwind};

#[derive(Clone, Copy, Debug, PartialEq, Eq)]
pub enum Tier {
    Quick,
    Thorough,
    /// reduced budget used when a property's workload is re-run by the totality monitor (C11)
    Lite,
    /// tiny budget for the interpreter (Miri) pass of C11
    Miri,
}

impl Tier {
    pub fn parse(s: &str) -> Tier {
        match s {
            "thorough" => Tier::Thorough,
            "lite" => Tier::Lite,
            "miri" => Tier::Miri,
            _ => Tier::Quick,
        }
    }
    pub fn name(&self) -> &'static str {
        match self {
            Tier::Quick => "quick",
            Tier::Thorough => "thorough",
            Tier::Lite => "lite",
            Tier::Miri => "miri",
        }
    }
}

thread_local! {
    static LAST_PANIC: RefCell<Option<String>> = const { RefCell::new(None) };
}

/// Silent process-wide hook: remembers message and location per thread, prints nothing.
pub fn install_panic_hook() {
    std::panic::set_hook(Box::new(|info| {
        let msg = if let Some(s) = info.payload().downcast_ref::<&str>() {
            s.to_string()
        } else if let Some(s) = info.payload().downcast_ref::<String>() {
            s.clone()
        } else {
            "<non-string panic>".to_string()
        };
        let loc = info.location().map(|l| format!("{}:{}", l.file(), l.line())).unwrap_or_default();
        LAST_PANIC.with(|p| *p.borrow_mut() = Some(format!("{} @ {}", msg, loc)));
    }));
}

/// Run `f`, returning Err(message @ file:line) if it panicked.
pub fn catch<R>(f: impl FnOnce() -> R) -> Result<R, String> {
    match catch_unwind(AssertUnwindSafe(f)) {
        Ok(r) => Ok(r),
        Err(_) => Err(LAST_PANIC.with(|p| p.borrow_mut().take()).unwrap_or_else(|| "<panic>".into())),
    }
}

pub fn catch_silent<R>(f: impl FnOnce() -> R) -> Option<R> {
    catch(f).ok()
}

/// Reduce a panic message to something stable across unrelated edits (no line numbers; digits
/// collapsed) for use in violation keys.
pub fn panic_sig(msg: &str) -> String {
    let head = msg.split(" @ ").next().unwrap_or(msg);
    let file = msg.rsplit(" @ ").next().unwrap_or("");
    let file = file.rsplit_once(':').map(|x| x.0).unwrap_or(file);
    let file = file.rsplit("/src/").next().unwrap_or(file);
    let mut out = String::new();
    let mut last_digit = false;
    for ch in head.chars() {
        if ch.is_ascii_digit() {
            if !last_digit {
                out.push('#');
            }
            last_digit = true;
        } else {
            last_digit = false;
            out.push(if ch == '|' || ch == '\n' { ' ' } else { ch });
        }
        if out.len() >= 60 {
            break;
        }
    }
    format!("panic:{}@{}", out.trim(), file)
}

pub struct Ctx {
    pub rng: Rng,
    pub rep: Rep,
    pub tier: Tier,
    pub worker: usize,
    pub nworkers: usize,
    counter: u64,
}

pub type Checker = fn(&Case, &mut Rep);

impl Ctx {
    /// Number of iterations this worker should do for a nominal (whole-run, quick-tier) budget `n`.
    pub fn iters(&self, n: u64) -> u64 {
        let scaled = match self.tier {
            Tier::Quick => n,
            Tier::Thorough => n * 10,
            Tier::Lite => n / 8,
            Tier::Miri => n / 2000,
        };
        (scaled / self.nworkers as u64).max(1)
    }

    /// Partition of enumerated (exhaustive) work: true for the items this worker owns.
    pub fn mine(&mut self) -> bool {
        let c = self.counter;
        self.counter += 1;
        (c % self.nworkers as u64) as usize == self.worker
    }

    /// Run one case through its checker under panic capture.  A panic that escapes the checker is
    /// a violation (the crate panicked on an input the checker considered in-domain; checkers wrap
    /// documented-panic forms themselves).
    pub fn exec(&mut self, case: Case, f: Checker) {
        exec_case(&case, f, &mut self.rep);
    }
}

pub fn exec_case(case: &Case, f: Checker, rep: &mut Rep) {
    rep.begin(case);
    let r = catch(|| f(case, rep));
    if let Err(msg) = r {
        rep.fail(&panic_sig(&msg), format!("unexpected panic: {}", msg));
    }
    rep.end();
}

/// Run `workload` on `n` worker threads, each with its own forked PRNG; merge the reports.
pub fn run_parallel(n: usize, seed: u64, tier: Tier, tag: &str, workload: fn(&mut Ctx)) -> Rep {
    let root = Rng::new(seed).fork_str(tag);
    let mut handles = Vec::new();
    for w in 0..n {
        let rng = root.fork(w as u64 + 1);
        let h = std::thread::Builder::new()
            .stack_size(256 << 20)
            .spawn(move || {
                let mut ctx = Ctx { rng, rep: Rep::new(), tier, worker: w, nworkers: n, counter: 0 };
                let r = catch(|| workload(&mut ctx));
                if let Err(msg) = r {
                    ctx.rep.inconclusive(format!("workload (harness) panic in worker {}: {}", w, msg));
                }
                ctx.rep
            })
            .expect("spawn");
        handles.push(h);
    }
    let mut total = Rep::new();
    for h in handles {
        match h.join() {
            Ok(r) => total.merge(r),
            Err(_) => total.inconclusive("worker thread died".into()),
        }
    }
    total
}
