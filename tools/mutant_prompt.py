#!/usr/bin/env python3
"""Prints the prompt given to a fresh sub-agent that must seed a property-breaking change (nothing from /verif is shared)."""
import json, sys
pid = sys.argv[1]
n = sys.argv[2] if len(sys.argv) > 2 else "3"
start = int(sys.argv[3]) if len(sys.argv) > 3 else 1
last = start + int(n) - 1
import glob, os
avoid = []
for m in sorted(glob.glob('/verif/seeded/%s-m*/meta.json' % pid)):
    try:
        avoid.append("  - " + json.load(open(m)).get('summary', '')[:160].replace("\n", " "))
    except Exception:
        pass
avoid_txt = ""
if avoid and start > 1:
    avoid_txt = "\nEarlier rounds already seeded the following changes; do NOT repeat them and stay away from the same functions where you can - look for other files, other API forms, other widths, other mechanisms:\n" + "\n".join(avoid) + "\n"
p = [json.loads(l) for l in open('/verif/properties.jsonl') if json.loads(l)['id'] == pid][0]
print(f"""You are helping to evaluate a verification tool by seeding realistic bugs (mutation testing). You have your own scratch git worktree of the Rust crate RustCrypto/crypto-bigint at /tmp/mut/{pid} (a detached checkout; work ONLY inside it and in /tmp/mut/{pid}-out; never touch /repo or /verif, and do not read anything under /verif). The sandbox has no network; always pass --offline to cargo.

The crate is supposed to satisfy this semantic property:

  TITLE: {p['title']}
  STATEMENT: {p['statement']}
  SCOPE: {p['quantifier']['text']}

Your task: produce {n} DIFFERENT, independent source changes to the crate (each a separate small patch against the pristine worktree, each touching src/ only — no test edits) such that each change
  (a) breaks the property above for some inputs,
  (b) still compiles, and the crate's existing test suite still passes with it:  cd /tmp/mut/{pid} && cargo test --offline   (this runs unit tests, integration tests in tests/ and doctests with default features; all must pass; it takes about 1-2 minutes),
  (c) is NOT exposed by ordinary use: it must need something specific to manifest — an unusual input (a particular limb pattern, carry chain, boundary width or precision, rare algorithm path such as a correction step), a particular width/feature combination (e.g. only BoxedUint with alloc feature, only one limb count, only one of the many API forms such as an operator impl, trait impl, `_vartime` twin or assigning form), a multi-step sequence of operations, or two cooperating sites that each look fine alone. Think like a subtle real-world regression (wrong mask, off-by-one in a loop bound or threshold, dropped correction step, swapped operand in a rarely taken branch, wrong constant for one width, missing carry propagation into the top limb, `<` vs `<=`), not a blatant stub.
Make the changes as different from each other as you can (different files / functions / API forms / failure mechanisms).

{avoid_txt}
For each change k = {start}..{last} write into /tmp/mut/{pid}-out/:
  - m<k>.diff   : the patch (output of `git diff` in the worktree against the pristine checkout, applying cleanly with `git apply` to a pristine checkout),
  - m<k>_demo.rs : a small demonstration written as a Rust integration test file (to be dropped into tests/ of the crate; use only the crate's public API and, if needed, features `alloc`/`rand_core` etc. — say which features) containing at least one #[test] that FAILS with the change applied and PASSES on the pristine code. Verify both facts yourself by actually running it (copy it to tests/, run `cargo test --offline --test <name> [--features ...]`, then remove it again from the worktree so that it is not part of the diff).
  - m<k>.json   : {{"property": "{pid}", "summary": "<one sentence: what was changed>", "needs": "<what specific input/sequence/width/feature is needed for the bug to manifest>", "features": "<cargo features needed for the demo, or empty>", "ran": "<the commands you ran and their outcome>"}}
After finishing each change, restore the worktree to pristine (git checkout -- . ; remove stray files) before starting the next. Confirm for each change that `cargo test --offline` (full default suite) passes with the change applied. If a candidate change turns out to fail the existing suite, discard it and find another. At the end, leave the worktree pristine, and reply with a short list: for each k, the summary, what it needs to manifest, and whether (a)(b)(c) were verified.""")
