//! C13 — signed integers behave as two's-complement mathematical integers.
use crate::util::*;
use crate::{dispatch, dispatch2};
use crypto_bigint::{Checked, CheckedAdd, CheckedMul, CheckedSub, ConstChoice, Int, Uint, Wrapping, WrappingAdd, WrappingSub};
use num_bigint::Sign;

pub const DEF: PropDef = PropDef {
    id: "C13",
    workload,
    ops,
    mandatory: &["product_eq_MIN", "product_eq_MAX_plus_1", "neg_MIN", "abs_MIN", "negative_zero_input", "resize_truncates_sign", "sum_overflow_pos", "sum_overflow_neg", "mixed_width_mul", "from_prim_negative", "abs_sign_magnitude_2pow_bits_minus_1"],
    rule: "cases are signed operand tuples for Int of 1,2,3,4,8,16 limbs (mixed widths {1,2,4}^2 for multiplication, all pairs for resize): MIN, MIN+1, -1, 0, 1, MAX, MAX-1, +-2^(BITS/2), a = -b, products constructed to land exactly on +-2^(BITS-1), magnitudes 2^(BITS-1) with either sign, negative zero for new_from_abs_sign, structured randoms; oracle BigInt; wrap = value mod 2^BITS re-read in two's complement, overflow reported iff the true result is outside [MIN, MAX]. non-trivial = named boundary class; distinct by hash",
};

pub fn ops() -> Vec<(&'static str, Checker)> {
    vec![("int.addsub", c_addsub), ("int.neg_abs", c_neg_abs), ("int.mul", c_mul), ("int.mul_uint", c_mul_uint), ("int.square", c_square), ("int.abs_sign", c_from_abs_sign), ("int.resize", c_resize), ("int.from_prim", c_from_prim)]
}

fn ex(rep: &mut Rep, rel: &str, got: &[u64], want: &[u64]) {
    if got != want {
        rep.fail(rel, format!("got {} want {}", hex(got), hex(want)));
    }
}
fn min_of(n: usize) -> BigInt {
    -BigInt::from(pow2(64 * n - 1))
}
fn max_of(n: usize) -> BigInt {
    BigInt::from(pow2(64 * n - 1)) - 1
}

fn addsub<const L: usize>(c: &Case, rep: &mut Rep) {
    let (a, b) = (&c.a[0], &c.a[1]);
    let (x, y): (Int<L>, Int<L>) = (i::<L>(a), i::<L>(b));
    let (ai, bi) = (to_bigint(a), to_bigint(b));
    let s = &ai + &bi;
    let d = &ai - &bi;
    let (sf, df) = (int_fits(&s, L), int_fits(&d, L));
    if !sf {
        rep.class(if s > BigInt::zero() { "sum_overflow_pos" } else { "sum_overflow_neg" });
    }
    if !df {
        rep.class("diff_overflow");
    }
    if s == max_of(L) || s == min_of(L) || d == max_of(L) || d == min_of(L) {
        rep.class("result_at_extreme");
    }
    if ai == -&bi && !ai.is_zero() {
        rep.class("a_eq_neg_b");
    }
    let sw = from_bigint(&s, L);
    let dw = from_bigint(&d, L);
    ex(rep, "wrapping_add", &il(&x.wrapping_add(&y)), &sw);
    ex(rep, "WrappingAdd", &il(&WrappingAdd::wrapping_add(&x, &y)), &sw);
    let (v, o) = x.overflowing_add(&y);
    ex(rep, "overflowing_add.value", &il(&v), &sw);
    if bool::from(o) == sf {
        rep.fail("overflowing_add.flag", format!("flag {} but fits {}", bool::from(o), sf));
    }
    if cct(x.checked_add(&y)).map(|v| il(&v)) != if sf { Some(sw.clone()) } else { None } {
        rep.fail("checked_add", format!("fits {}", sf));
    }
    if ct(CheckedAdd::checked_add(&x, &y)).map(|v| il(&v)) != if sf { Some(sw.clone()) } else { None } {
        rep.fail("CheckedAdd", format!("fits {}", sf));
    }
    ex(rep, "WrappingSub", &il(&WrappingSub::wrapping_sub(&x, &y)), &dw);
    if ct(CheckedSub::checked_sub(&x, &y)).map(|v| il(&v)) != if df { Some(dw.clone()) } else { None } {
        rep.fail("CheckedSub", format!("fits {}", df));
    }
    if let Some(v) = panics_iff(rep, "op_add", !sf, || x + y) {
        ex(rep, "op_add", &il(&v), &sw);
    }
    if let Some(v) = panics_iff(rep, "op_add_ref", !sf, || x + &y) {
        ex(rep, "op_add_ref", &il(&v), &sw);
    }
    if let Some(v) = panics_iff(rep, "op_add_assign", !sf, || {
        let mut t = x;
        t += y;
        t
    }) {
        ex(rep, "op_add_assign", &il(&v), &sw);
    }
    if let Some(v) = panics_iff(rep, "op_add_assign_ref", !sf, || {
        let mut t = x;
        t += &y;
        t
    }) {
        ex(rep, "op_add_assign_ref", &il(&v), &sw);
    }
    if let Some(v) = panics_iff(rep, "op_sub", !df, || x - y) {
        ex(rep, "op_sub", &il(&v), &dw);
    }
    if let Some(v) = panics_iff(rep, "op_sub_ref", !df, || x - &y) {
        ex(rep, "op_sub_ref", &il(&v), &dw);
    }
    let (wx, wy) = (Wrapping(x), Wrapping(y));
    ex(rep, "Wrapping.add", &il(&(wx + wy).0), &sw);
    ex(rep, "Wrapping.sub", &il(&(wx - wy).0), &dw);
    let mut t = wx;
    t += wy;
    ex(rep, "Wrapping.add_assign", &il(&t.0), &sw);
    let mut t = wx;
    t += &wy;
    ex(rep, "Wrapping.add_assign_ref", &il(&t.0), &sw);
    let mut t = wx;
    t -= wy;
    ex(rep, "Wrapping.sub_assign", &il(&t.0), &dw);
    let mut t = wx;
    t -= &wy;
    ex(rep, "Wrapping.sub_assign_ref", &il(&t.0), &dw);
    let (cx, cy) = (Checked::new(x), Checked::new(y));
    let mut t = cx;
    t += cy;
    let mut t2 = cx;
    t2 += &cy;
    for (n, r) in [("Checked.add", cx + cy), ("Checked.add_ref", &cx + &cy), ("Checked.add_assign", t), ("Checked.add_assign_ref", t2)] {
        if ct(r.0).map(|v: Int<L>| il(&v)) != if sf { Some(sw.clone()) } else { None } {
            rep.fail(n, format!("fits {}", sf));
        }
    }
    let mut t = cx;
    t -= cy;
    let mut t2 = cx;
    t2 -= &cy;
    for (n, r) in [("Checked.sub", cx - cy), ("Checked.sub_ref", &cx - &cy), ("Checked.sub_assign", t), ("Checked.sub_assign_ref", t2)] {
        if ct(r.0).map(|v: Int<L>| il(&v)) != if df { Some(dw.clone()) } else { None } {
            rep.fail(n, format!("fits {}", df));
        }
    }
}
fn c_addsub(c: &Case, rep: &mut Rep) {
    dispatch!(c.w[0], [1, 2, 3, 4, 8, 16], addsub(c, rep))
}

fn neg_abs<const L: usize>(c: &Case, rep: &mut Rep) {
    let a = &c.a[0];
    let x: Int<L> = i::<L>(a);
    let ai = to_bigint(a);
    let is_min = ai == min_of(L);
    if is_min {
        rep.class("neg_MIN");
        rep.class("abs_MIN");
    } else {
        rep.nontrivial();
    }
    let n = -&ai;
    let nw = from_bigint(&n, L);
    ex(rep, "wrapping_neg", &il(&x.wrapping_neg()), &nw);
    let (v, o) = x.overflowing_neg();
    ex(rep, "overflowing_neg.value", &il(&v), &nw);
    if bool::from(o) != is_min {
        rep.fail("overflowing_neg.flag", format!("flag {} is_min {}", bool::from(o), is_min));
    }
    if cct(x.checked_neg()).map(|v| il(&v)) != if is_min { None } else { Some(nw.clone()) } {
        rep.fail("checked_neg", format!("is_min {}", is_min));
    }
    ex(rep, "wrapping_neg_if.true", &il(&x.wrapping_neg_if(ConstChoice::TRUE)), &nw);
    ex(rep, "wrapping_neg_if.false", &il(&x.wrapping_neg_if(ConstChoice::FALSE)), a);
    // abs / abs_sign: magnitude as unsigned (2^(BITS-1) for MIN), sign flag
    let mag = from_big(ai.magnitude(), L);
    ex(rep, "abs", &ul(&x.abs()), &mag);
    let (m, s) = x.abs_sign();
    ex(rep, "abs_sign.magnitude", &ul(&m), &mag);
    if bool::from(s) != (ai.sign() == Sign::Minus) {
        rep.fail("abs_sign.sign", "mismatch".into());
    }
    // reconstruction from (magnitude, sign) is exact
    let back = cct(Int::<L>::new_from_abs_sign(m, s)).map(|v| il(&v));
    if back != Some(a.clone()) {
        rep.fail("new_from_abs_sign(abs_sign)", format!("got {:?}", back.map(|v| hex(&v))));
    }
    for (n_, got, want) in [
        ("is_negative", bool::from(x.is_negative()), ai.sign() == Sign::Minus),
        ("is_positive", bool::from(x.is_positive()), ai.sign() == Sign::Plus),
        ("is_min", bool::from(x.is_min()), is_min),
        ("is_max", bool::from(x.is_max()), ai == max_of(L)),
    ] {
        if got != want {
            rep.fail(n_, format!("got {} want {}", got, want));
        }
    }
}
fn c_neg_abs(c: &Case, rep: &mut Rep) {
    dispatch!(c.w[0], [1, 2, 3, 4, 8, 16], neg_abs(c, rep))
}

fn class_product(p: &BigInt, l: usize, rep: &mut Rep) {
    if *p == min_of(l) {
        rep.class("product_eq_MIN");
    }
    if *p == max_of(l) + 1 {
        rep.class("product_eq_MAX_plus_1");
    }
    if *p == max_of(l) {
        rep.class("product_eq_MAX");
    }
    if *p == min_of(l) - 1 {
        rep.class("product_eq_MIN_minus_1");
    }
}

fn mul<const L: usize, const R: usize>(c: &Case, rep: &mut Rep) {
    let (a, b) = (&c.a[0], &c.a[1]);
    let (x, y): (Int<L>, Int<R>) = (i::<L>(a), i::<R>(b));
    let (ai, bi) = (to_bigint(a), to_bigint(b));
    let p = &ai * &bi;
    class_product(&p, L, rep);
    if L != R {
        rep.class("mixed_width_mul");
    }
    let fits_ = int_fits(&p, L);
    // split_mul: magnitude of the product + negate flag
    let (lo, hi, neg) = x.split_mul(&y);
    let mag = p.magnitude().clone();
    ex(rep, "split_mul.lo", &ul(&lo), &from_big(&mag, L));
    ex(rep, "split_mul.hi", &ul(&hi), &from_big(&(&mag >> (64 * L)), R));
    if !p.is_zero() && bool::from(neg) != (p.sign() == Sign::Minus) {
        rep.fail("split_mul.negate", "sign flag wrong".into());
    }
    let pw = from_bigint(&p, L);
    if ct(CheckedMul::checked_mul(&x, &y)).map(|v| il(&v)) != if fits_ { Some(pw.clone()) } else { None } {
        rep.fail("checked_mul", format!("fits {} p {}", fits_, p));
    }
    if let Some(v) = panics_iff(rep, "op_mul_val_val", !fits_, || x * y) {
        ex(rep, "op_mul_val_val", &il(&v), &pw);
    }
    if let Some(v) = panics_iff(rep, "op_mul_val_ref", !fits_, || x * &y) {
        ex(rep, "op_mul_val_ref", &il(&v), &pw);
    }
    if let Some(v) = panics_iff(rep, "op_mul_ref_val", !fits_, || &x * y) {
        ex(rep, "op_mul_ref_val", &il(&v), &pw);
    }
    if let Some(v) = panics_iff(rep, "op_mul_ref_ref", !fits_, || &x * &y) {
        ex(rep, "op_mul_ref_ref", &il(&v), &pw);
    }
}
fn c_mul(c: &Case, rep: &mut Rep) {
    if c.w[0] == c.w[1] {
        match c.w[0] {
            3 => return mul::<3, 3>(c, rep),
            8 => return mul::<8, 8>(c, rep),
            16 => return mul::<16, 16>(c, rep),
            _ => {}
        }
    }
    dispatch2!(c.w[0], c.w[1], [1, 2, 4], [1, 2, 4], mul(c, rep));
    // widening_mul where ConcatMixed exists; Checked<Int> for equal widths
    let (a, b) = (&c.a[0], &c.a[1]);
    let p = to_bigint(a) * to_bigint(b);
    macro_rules! wide {
        ($l:literal, $r:literal, $w:literal) => {
            if c.w[0] == $l && c.w[1] == $r {
                let got: Int<$w> = i::<$l>(a).widening_mul(&i::<$r>(b));
                ex(rep, "widening_mul", &il(&got), &from_bigint(&p, $w));
            }
        };
    }
    wide!(1, 1, 2);
    wide!(2, 2, 4);
    wide!(4, 4, 8);
    wide!(1, 2, 3);
    wide!(2, 1, 3);
    wide!(4, 1, 5);
    wide!(4, 2, 6);
    wide!(2, 4, 6);
    macro_rules! chk {
        ($l:literal) => {
            if c.w[0] == $l && c.w[1] == $l {
                let (cx, cy) = (Checked::new(i::<$l>(a)), Checked::new(i::<$l>(b)));
                let f = int_fits(&p, $l);
                let mut t = cx;
                t *= cy;
                let mut t2 = cx;
                t2 *= &cy;
                for (n, r) in [("Checked.mul", cx * cy), ("Checked.mul_assign", t), ("Checked.mul_assign_ref", t2)] {
                    if ct(r.0).map(|v: Int<$l>| il(&v)) != if f { Some(from_bigint(&p, $l)) } else { None } {
                        rep.fail(n, format!("fits {}", f));
                    }
                }
            }
        };
    }
    chk!(1);
    chk!(2);
    chk!(4);
}

fn mul_uint<const L: usize, const R: usize>(c: &Case, rep: &mut Rep) {
    let (a, b) = (&c.a[0], &c.a[1]);
    let (x, y): (Int<L>, Uint<R>) = (i::<L>(a), u::<R>(b));
    let (ai, bu) = (to_bigint(a), BigInt::from(to_big(b)));
    let p = &ai * &bu;
    class_product(&p, L, rep);
    if L != R {
        rep.class("mixed_width_mul");
    }
    let mag = p.magnitude().clone();
    let (lo, hi, neg) = x.split_mul_uint(&y);
    ex(rep, "split_mul_uint.lo", &ul(&lo), &from_big(&mag, L));
    ex(rep, "split_mul_uint.hi", &ul(&hi), &from_big(&(&mag >> (64 * L)), R));
    if !p.is_zero() && bool::from(neg) != (p.sign() == Sign::Minus) {
        rep.fail("split_mul_uint.negate", "sign flag wrong".into());
    }
    let (lo, hi, neg) = x.split_mul_uint_right(&y);
    ex(rep, "split_mul_uint_right.lo", &ul(&lo), &from_big(&mag, R));
    ex(rep, "split_mul_uint_right.hi", &ul(&hi), &from_big(&(&mag >> (64 * R)), L));
    if !p.is_zero() && bool::from(neg) != (p.sign() == Sign::Minus) {
        rep.fail("split_mul_uint_right.negate", "sign flag wrong".into());
    }
    let fl = int_fits(&p, L);
    let pw = from_bigint(&p, L);
    if ct(CheckedMul::checked_mul(&x, &y)).map(|v| il(&v)) != if fl { Some(pw.clone()) } else { None } {
        rep.fail("checked_mul_uint", format!("fits {} p {}", fl, p));
    }
    let fr = int_fits(&p, R);
    if R != L && (p == min_of(R) || p == max_of(R) + 1) {
        rep.tally("product_at_rhs_boundary");
    }
    if ct(x.checked_mul_uint_right(&y)).map(|v| il(&v)) != if fr { Some(from_bigint(&p, R)) } else { None } {
        rep.fail("checked_mul_uint_right", format!("fits {} p {}", fr, p));
    }
    if let Some(v) = panics_iff(rep, "op_mul_uint_val_val", !fl, || x * y) {
        ex(rep, "op_mul_uint_val_val", &il(&v), &pw);
    }
    if let Some(v) = panics_iff(rep, "op_mul_uint_val_ref", !fl, || x * &y) {
        ex(rep, "op_mul_uint_val_ref", &il(&v), &pw);
    }
    if let Some(v) = panics_iff(rep, "op_mul_uint_ref_val", !fl, || &x * y) {
        ex(rep, "op_mul_uint_ref_val", &il(&v), &pw);
    }
    if let Some(v) = panics_iff(rep, "op_mul_uint_ref_ref", !fl, || &x * &y) {
        ex(rep, "op_mul_uint_ref_ref", &il(&v), &pw);
    }
}
fn c_mul_uint(c: &Case, rep: &mut Rep) {
    if c.w[0] == c.w[1] && c.w[0] == 8 {
        return mul_uint::<8, 8>(c, rep);
    }
    dispatch2!(c.w[0], c.w[1], [1, 2, 4], [1, 2, 4], mul_uint(c, rep));
    let (a, b) = (&c.a[0], &c.a[1]);
    let p = to_bigint(a) * BigInt::from(to_big(b));
    macro_rules! wide {
        ($l:literal, $r:literal, $w:literal) => {
            if c.w[0] == $l && c.w[1] == $r {
                let got: Int<$w> = i::<$l>(a).widening_mul_uint(&u::<$r>(b));
                ex(rep, "widening_mul_uint", &il(&got), &from_bigint(&p, $w));
            }
        };
    }
    wide!(1, 1, 2);
    wide!(2, 2, 4);
    wide!(4, 4, 8);
    wide!(1, 2, 3);
    wide!(2, 1, 3);
    wide!(4, 2, 6);
}

fn square<const L: usize>(c: &Case, rep: &mut Rep) {
    let a = &c.a[0];
    let x: Int<L> = i::<L>(a);
    let ai = to_bigint(a);
    let sq = (&ai * &ai).to_biguint().unwrap();
    rep.nontrivial();
    if ai == min_of(L) {
        rep.class("square_of_MIN");
    }
    let f = fits(&sq, L);
    if sq == pow2(64 * L) {
        rep.class("square_eq_2powBITS");
    }
    let lo = from_big(&sq, L);
    if cct(x.checked_square()).map(|v| ul(&v)) != if f { Some(lo.clone()) } else { None } {
        rep.fail("checked_square", format!("fits {}", f));
    }
    ex(rep, "wrapping_square", &ul(&x.wrapping_square()), &lo);
    ex(rep, "saturating_square", &ul(&x.saturating_square()), &if f { lo.clone() } else { vec![u64::MAX; L] });
}
fn c_square(c: &Case, rep: &mut Rep) {
    dispatch!(c.w[0], [1, 2, 3, 4, 8, 16], square(c, rep));
    let a = &c.a[0];
    let ai = to_bigint(a);
    let sq = (&ai * &ai).to_biguint().unwrap();
    macro_rules! wide {
        ($l:literal, $w:literal) => {
            if c.w[0] == $l {
                let got: Uint<$w> = i::<$l>(a).widening_square();
                ex(rep, "widening_square", &ul(&got), &from_big(&sq, $w));
            }
        };
    }
    wide!(1, 2);
    wide!(2, 4);
    wide!(3, 6);
    wide!(4, 8);
    wide!(8, 16);
    wide!(16, 32);
}

fn from_abs_sign<const L: usize>(c: &Case, rep: &mut Rep) {
    let m = &c.a[0];
    let neg = c.s[0] & 1 == 1;
    let mb = to_big(m);
    if mb.is_zero() && neg {
        rep.class("negative_zero_input");
    }
    if mb == pow2(64 * L - 1) {
        rep.class("abs_sign_magnitude_2pow_bits_minus_1");
    }
    rep.nontrivial();
    let v = if neg { -BigInt::from(mb.clone()) } else { BigInt::from(mb.clone()) };
    let f = int_fits(&v, L);
    let got = cct(Int::<L>::new_from_abs_sign(u::<L>(m), ConstChoice::from(subtle::Choice::from(neg as u8)))).map(|x| il(&x));
    if got != if f { Some(from_bigint(&v, L)) } else { None } {
        rep.fail("new_from_abs_sign", format!("magnitude {} neg {} fits {} got {:?}", hex(m), neg, f, got.map(|x| hex(&x))));
    }
}
fn c_from_abs_sign(c: &Case, rep: &mut Rep) {
    dispatch!(c.w[0], [1, 2, 3, 4, 8, 16], from_abs_sign(c, rep))
}

fn resize<const L: usize, const T: usize>(c: &Case, rep: &mut Rep) {
    let a = &c.a[0];
    let x: Int<L> = i::<L>(a);
    let ai = to_bigint(a);
    rep.nontrivial();
    if T < L && !int_fits(&ai, T) {
        rep.class("resize_truncates_sign");
    }
    if T > L && ai.sign() == Sign::Minus {
        rep.class("resize_sign_extends");
    }
    // documented: sign extension when growing, truncation (mod 2^(64 T)) when shrinking
    let want = from_bigint(&ai, T);
    let got: Int<T> = x.resize::<T>();
    ex(rep, "resize", &il(&got), &want);
    let got: Int<T> = Int::<T>::from(&x);
    ex(rep, "From<&Int>", &il(&got), &want);
}
pub fn c_resize(c: &Case, rep: &mut Rep) {
    dispatch2!(c.w[0], c.w[1], [1, 2, 3, 4, 8, 16], [1, 2, 3, 4, 8, 16], resize(c, rep))
}

fn from_prim<const L: usize>(c: &Case, rep: &mut Rep) {
    let v: i128 = (((c.s[1] as u128) << 64) | c.s[0] as u128) as i128;
    if v < 0 {
        rep.class("from_prim_negative");
    } else {
        rep.nontrivial();
    }
    macro_rules! prim {
        ($t:ty, $f:ident, $tag:expr) => {{
            let p = v as $t;
            let want = from_bigint(&BigInt::from(p), L);
            ex(rep, concat!("from_", $tag), &il(&Int::<L>::$f(p)), &want);
            let got: Int<L> = Int::from(p);
            ex(rep, concat!("From<", $tag, ">"), &il(&got), &want);
        }};
    }
    prim!(i8, from_i8, "i8");
    prim!(i16, from_i16, "i16");
    prim!(i32, from_i32, "i32");
    prim!(i64, from_i64, "i64");
    if L >= 2 {
        prim!(i128, from_i128, "i128");
    }
}
pub fn c_from_prim(c: &Case, rep: &mut Rep) {
    dispatch!(c.w[0], [1, 2, 3, 4, 8, 16], from_prim(c, rep));
    let v: i128 = (((c.s[1] as u128) << 64) | c.s[0] as u128) as i128;
    if c.w[0] == 1 {
        let back: i64 = crypto_bigint::I64::from_i64(v as i64).into();
        if back != v as i64 {
            rep.fail("Into<i64>", "round trip changed the value".into());
        }
    }
    if c.w[0] == 2 {
        let back: i128 = crypto_bigint::I128::from_i128(v).into();
        if back != v {
            rep.fail("Into<i128>", "round trip changed the value".into());
        }
    }
}

// ---------------------------------------------------------------------------------------------

fn gen_int(r: &mut Rng, n: usize) -> Vec<u64> {
    let bits = 64 * n;
    match r.below(16) {
        0 => gn::single_bit(n, bits - 1),                    // MIN
        1 => {
            let mut v = gn::single_bit(n, bits - 1);
            v[0] |= 1;
            v
        } // MIN+1
        2 => gn::max(n),                                      // -1
        3 => gn::zero(n),
        4 => gn::one(n),
        5 => gn::low_ones(n, bits - 1),                       // MAX
        6 => {
            let mut v = gn::low_ones(n, bits - 1);
            v[0] &= !1;
            v
        } // MAX-1
        7 => gn::single_bit(n, bits / 2),                     // 2^(BITS/2)
        8 => from_bigint(&-BigInt::from(pow2(bits / 2)), n),  // -2^(BITS/2)
        9 => {
            let k = 1 + r.usize_below(bits - 1);
            from_bigint(&-BigInt::from(to_big(&gn::uint_bits(r, n, k))), n)
        }
        _ => gn::uint(r, n),
    }
}

/// (a, b) with a*b exactly at +-2^(bits-1) (+-1) when possible
fn gen_boundary_product(r: &mut Rng, l: usize, rl: usize) -> (Vec<u64>, Vec<u64>) {
    let bits = 64 * l;
    // 2^i * 2^j with i + j = bits-1, random signs; or (2^(bits-1) - 1) = ... keep powers of two
    let i = r.usize_below(bits.min(64 * rl - 1)).min(bits - 1);
    let j = bits - 1 - i;
    if i >= 64 * l - 1 + 1 || j >= 64 * rl - 1 {
        return (gen_int(r, l), gen_int(r, rl));
    }
    let mut a = BigInt::from(pow2(i));
    let mut b = BigInt::from(pow2(j));
    if r.bool() {
        a = -a;
    }
    if r.bool() {
        b = -b;
    }
    if !int_fits(&a, l) || !int_fits(&b, rl) {
        return (gen_int(r, l), gen_int(r, rl));
    }
    (from_bigint(&a, l), from_bigint(&b, rl))
}

pub fn workload(ctx: &mut Ctx) {
    let widths = [1usize, 2, 3, 4, 8, 16];
    for &l in &widths {
        let w = if l <= 4 { 250_000 } else { 80_000 };
        for _ in 0..ctx.iters(w) {
            let a = gen_int(&mut ctx.rng, l);
            let b = match ctx.rng.below(6) {
                0 => from_bigint(&-to_bigint(&a), l),
                1 => gn::related(&mut ctx.rng, &a),
                _ => gen_int(&mut ctx.rng, l),
            };
            ctx.exec(Case::new("int.addsub").w(l).a(a.clone()).a(b), c_addsub);
            ctx.exec(Case::new("int.neg_abs").w(l).a(a.clone()), c_neg_abs);
            ctx.exec(Case::new("int.square").w(l).a(a), c_square);
        }
        for _ in 0..ctx.iters(w / 3) {
            let m = match ctx.rng.below(5) {
                0 => gn::zero(l),
                1 => gn::single_bit(l, 64 * l - 1),
                2 => gn::low_ones(l, 64 * l - 1),
                3 => {
                    let mut v = gn::single_bit(l, 64 * l - 1);
                    v[0] |= 1;
                    v
                }
                _ => gn::uint(&mut ctx.rng, l),
            };
            let s = ctx.rng.below(2);
            ctx.exec(Case::new("int.abs_sign").w(l).a(m).s(s), c_from_abs_sign);
            let v = match ctx.rng.below(4) {
                0 => (i64::MIN as i128) as u128,
                1 => i128::MIN as u128,
                2 => (-1i128) as u128,
                _ => ((ctx.rng.u64() as u128) << 64) | ctx.rng.u64() as u128,
            };
            let v = if ctx.rng.chance(1, 3) { ((v as i128) >> ctx.rng.below(120)) as u128 } else { v };
            ctx.exec(Case::new("int.from_prim").w(l).s(v as u64).s((v >> 64) as u64), c_from_prim);
        }
        for &t in &widths {
            for _ in 0..ctx.iters(20_000) {
                let a = gen_int(&mut ctx.rng, l);
                ctx.exec(Case::new("int.resize").w(l).w(t).a(a), c_resize);
            }
        }
    }
    // multiplication: equal widths 1,2,3,4,8,16 and mixed {1,2,4}^2
    let mut pairs: Vec<(usize, usize)> = vec![(3, 3), (8, 8), (16, 16)];
    for &l in &[1usize, 2, 4] {
        for &r in &[1usize, 2, 4] {
            pairs.push((l, r));
        }
    }
    for &(l, rl) in &pairs {
        let w = if l.max(rl) <= 4 { 150_000 } else { 40_000 };
        for _ in 0..ctx.iters(w) {
            let (a, b) = match ctx.rng.below(5) {
                0 | 1 => gen_boundary_product(&mut ctx.rng, l, rl),
                2 => {
                    // a * b = MAX+1 or MIN-1 neighbourhood: b = floor((2^(bits-1) + delta) / a)
                    let a = gen_int(&mut ctx.rng, l);
                    let ai = to_bigint(&a);
                    if ai.is_zero() {
                        (a, gen_int(&mut ctx.rng, rl))
                    } else {
                        let t = BigInt::from(pow2(64 * l - 1)) + BigInt::from(ctx.rng.below(3)) - 1;
                        let q = &t / &ai;
                        if int_fits(&q, rl) { (a, from_bigint(&q, rl)) } else { (a, gen_int(&mut ctx.rng, rl)) }
                    }
                }
                _ => (gen_int(&mut ctx.rng, l), gen_int(&mut ctx.rng, rl)),
            };
            ctx.exec(Case::new("int.mul").w(l).w(rl).a(a.clone()).a(b.clone()), c_mul);
            if (l, rl) != (3, 3) && (l, rl) != (16, 16) {
                // Int x Uint: rhs read as unsigned
                let bu = if ctx.rng.bool() { from_big(to_bigint(&b).magnitude(), rl) } else { b };
                ctx.exec(Case::new("int.mul_uint").w(l).w(rl).a(a).a(bu), c_mul_uint);
            }
        }
    }
}
