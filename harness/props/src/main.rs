//! vprops — workloads + monitors, one module per property.
//!   vprops run <ID> --tier quick|thorough|lite --seed N --out FILE [--threads N]
//!   vprops replay <ID> FILE      (re-executes exactly the recorded case; exit 1 if it still fails)
//!   vprops list
mod util;
mod c02;
mod c03;
mod c04;
mod c05;
mod c06;
mod c07;
mod c08;
mod c09;
mod c10;
mod c11;
mod c12;
mod c13;
mod c14;
mod c15;
mod c16;
mod c17;
mod c18;
mod c19;
mod c20;

use serde_json::{Value, json};
use std::time::Instant;
use util::*;

fn props() -> Vec<PropDef> {
    vec![c02::DEF, c03::DEF, c04::DEF, c05::DEF, c06::DEF, c07::DEF, c08::DEF, c09::DEF, c10::DEF, c11::DEF, c12::DEF, c13::DEF, c14::DEF, c15::DEF, c16::DEF, c17::DEF, c18::DEF, c19::DEF, c20::DEF]
}

fn arg(args: &[String], name: &str) -> Option<String> {
    args.iter().position(|a| a == name).and_then(|i| args.get(i + 1).cloned())
}

fn main() {
    let args: Vec<String> = std::env::args().collect();
    if args.len() < 2 {
        eprintln!("usage: vprops run|replay|list ...");
        std::process::exit(2);
    }
    install_panic_hook();
    let all = props();
    match args[1].as_str() {
        "list" => {
            for p in &all {
                println!("{}", p.id);
                for (n, _) in (p.ops)() {
                    println!("  {}", n);
                }
            }
        }
        "run" => {
            let id = args.get(2).expect("property id");
            let p = all.iter().find(|p| p.id == id).unwrap_or_else(|| {
                eprintln!("unknown property {}", id);
                std::process::exit(2)
            });
            let tier = Tier::parse(&arg(&args, "--tier").unwrap_or("quick".into()));
            let seed: u64 = arg(&args, "--seed").and_then(|s| s.parse().ok()).unwrap_or(1);
            let threads: usize = arg(&args, "--threads").and_then(|s| s.parse().ok()).unwrap_or(16);
            let out = arg(&args, "--out").expect("--out");
            let t0 = Instant::now();
            let rep = run_parallel(threads, seed, tier, p.id, p.workload);
            let mut j = rep.to_json();
            let missing: Vec<&str> =
                p.mandatory.iter().copied().filter(|c| rep.classes.get(*c).copied().unwrap_or(0) == 0).collect();
            let o = j.as_object_mut().unwrap();
            o.insert("property_id".into(), json!(p.id));
            o.insert("tier".into(), json!(tier.name()));
            o.insert("seed".into(), json!(seed));
            o.insert("mandatory_missing".into(), json!(missing));
            o.insert("rule".into(), json!(p.rule));
            o.insert("wall_s".into(), json!(t0.elapsed().as_secs_f64()));
            o.insert("debug_assertions".into(), json!(cfg!(debug_assertions)));
            std::fs::write(&out, serde_json::to_string_pretty(&j).unwrap()).expect("write out");
        }
        "replay" => {
            let id = args.get(2).expect("property id");
            let path = args.get(3).expect("replay file");
            let p = all.iter().find(|p| p.id == id).expect("unknown property");
            let text = std::fs::read_to_string(path).unwrap_or_else(|e| {
                eprintln!("cannot read replay file {}: {}", path, e);
                std::process::exit(2)
            });
            let v: Value = serde_json::from_str(&text).unwrap_or_else(|e| {
                eprintln!("replay file is not JSON: {}", e);
                std::process::exit(2)
            });
            let cv = v.get("case").unwrap_or(&v);
            let case = Case::from_json(cv).expect("case");
            // C11 replays may carry a case of any other property's workload (the sweep)
            let f = find_op(p, &case.op).or_else(|| all.iter().find_map(|q| find_op(q, &case.op))).expect("unknown op in replay");
            let mut rep = Rep::new();
            vcore::run::exec_case(&case, f, &mut rep);
            if rep.violations.is_empty() {
                println!("replay: case passes (op {})", case.op);
            } else {
                for v in &rep.violations {
                    println!("replay: FAIL key={} detail={}", v.key, v.detail);
                }
                std::process::exit(1);
            }
        }
        _ => {
            eprintln!("unknown command");
            std::process::exit(2);
        }
    }
}
