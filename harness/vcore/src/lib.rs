//! vcore — shared machinery of the runtime monitors: PRNG, hostile input generators, big-integer
//! oracle helpers, case/replay format, class counters, panic capture and the parallel runner.
pub mod big;
pub mod gn;
pub mod rep;
pub mod rng;
pub mod run;

pub use big::*;
pub use rep::{Case, Rep, Violation};
pub use rng::Rng;
pub use run::{Ctx, Tier, catch, catch_silent, install_panic_hook, run_parallel};
